"""C03 — a process vanishing or being denied mid-call yields only psutil errors.

Model: lean/PsutilModel/Model/C03.lean (+C03Gen), Spec: Spec/C03.lean, theorems: Props/C03.lean.

Translator: the `except` clauses of `wrap_exceptions` (class + handler steps), the class tuples
of every other handler the model transcribes, the decorator tables of `_pslinux.Process` and
`psutil.Process`, the public method list (runtime dump in a subprocess).

Correspondence: a fake procfs tree per world (1-3 threads, 0-4 descriptors of each kind, 1-3
other PIDs; family `tree`: ancestor chains, grandchildren, stale / recycled descendants, ppid cycles), the real front-end methods driven in-process through the fault layer
`c03_faultfs.FaultFS`; for each public method EVERY single fault position of the
implementation's actual access trace (vanish / zombie from k, EACCES / EPERM at k) and, in the
thorough tier, every (deny i, vanish j>i) and (zombie i, gone j>i) pair; the same plan is run
in the Lean model; compared: outcome class + pid + value shape + the access trace.
"""
import ast
import json
import os
import shutil
import subprocess
import tempfile
import warnings

from harness.common import extract
from harness.common.build import PY, InfraError
from harness.common.extract import NotRecognised
from harness.common.fakeproc import reset_psutil_state
from harness.props import c03_faultfs
from harness.props.c03_faultfs import FaultFS, _REAL

PROP = "C03"
DRIVER_MODULES = ["PsutilModel.Model.C03Gen", "PsutilModel.Spec.C03", "PsutilModel.Model.C03Hist", "PsutilModel.Spec.C03Hist"]
NEEDS_EXT = True
TRUSTED = [
    "C03 world: behaviour tables of a zombie / a reaped process (which path gives ENOENT, ESRCH, empty) were captured from the sandbox kernel 6.18 and are re-checked against a live zombie child on every run; they are modelled, not verified",
    "C03 granularity: faults happen at OS-access granularity (open, first read of a file, readlink, listdir, stat/lstat, native call); a procfs record is produced by one read(2), later readline()/iteration is served from the buffer; short or garbled reads are not modelled",
    "C03 fault layer (harness/props/c03_faultfs.py): patches builtins.open, os.readlink/listdir/stat/lstat, four native calls; outside the fake procfs root only the paths a procfs record names and the world registers (FaultFS.ext: the backing path of a ' (deleted)' mapping of smaps, statted by memory_maps() through path_exists_strict) are fault points; the other outside accesses (os.stat on a descriptor's target in open_files()/isfile_strict, pwd, /dev for the terminal map) are not",
    "C03 denials apply to paths below /proc/<pid> (any pid) and to native per-process calls; the /proc listing itself and /proc/net/* are system-wide and never denied",
]
MANIFEST = {
    "level_text": "Machine-checked Lean 4 proofs over a shallow state+exception monad model of psutil's Linux process layer and front end: for every modelled public Process method (C03_safe_<method>, assembled in C03_all_methods over the translator-generated public method list, un-modelled names listed explicitly) and EVERY admissible fault plan (the target turns zombie and/or disappears at any access index, at most one access is refused with EACCES/EPERM — a superset of the property's vanishAt/zombieFrom/denyAt/deny-then-vanish plans) the outcome is a well-formed value or NoSuchProcess/ZombieProcess/AccessDenied carrying the object's pid — 'well-formed' since seeded round 5 as Spec.WellFormed (the documented result shape of each query; an exception object handed back as the return value is the result of no query): C03_value_wellformed / C03_okv_* / C03_as_dict_values_wellformed / C03_process_iter_values_wellformed hold from EVERY context, so also for one refusal combined with alive->zombie->gone inside one call (C03_transition_plans_admissible), and the clause is decided in Lean on the object the REAL call returned and on every value an as_dict/process_iter result stores (generator family transition); loops (threads, open_files, net_connections, ppid_map, children, children(recursive=True) with its stack walk, as_dict, process_iter) by induction over the listed names / the walk's fuel so any number of threads/descriptors/PIDs and any process tree is covered; parents() is modelled and the full statement is proved FALSE of the current source (one denial while an ancestor is queried makes it raise NoSuchProcess/AccessDenied carrying the ancestor's pid: C03_parents_counterexample, known finding C03-parents-foreign-pid), with the weaker guarantee (psutil errors only, C03_safe_parents_partial) and the repaired loop (C03_safe_parents_repaired) proved; parsing-error constructors are proved unreachable; the bare FileNotFoundError re-raise of wrap_exceptions is proved unreachable under admissible plans (and reachable with two denials); C03_gone_is_NSP and its history forms: C03_gone_forever_from (the process vanishes at ANY access index k0, also in the middle of an earlier call; every call of any sequence of covered queries that starts at a counter >= k0 raises NoSuchProcess(pid)) and C03_gone_forever_flags (the same with the object's _gone/_pid_reused/_exe attributes threaded through the history, any flag values, is_running() answers False), C03_as_dict_policy, C03_process_iter_swallow. The fuel the model gives to the two while-loops is proved never to run out (C03_children_recursive_fuel_sufficient, C03_parents_fuel_sufficient: any ppid map incl. cycles). Outside the property's quantifier, as characterisation: a table over all modelled methods of what TWO refused accesses do (C03_two_denials_table_leaks: 6 concrete leaking plans, replayed on the real code; C03_two_denials_table_bounded: no pair leaks for the other 31 on the two-process world, bounded exhaustive). children() is proved safe for the repaired ppid_map and a counterexample plan is proved for the unrepaired one (lead L3). Tied to the code by translator facts (except tables, decorator tables) that feed the proof obligation cfg_good, and by an exhaustive single-fault (quick) / double-fault (thorough) differential run of the real methods against the model on fake procfs worlds, plus histories of several calls on ONE object with the vanish point at every index of the history (family history) and every pair of refused accesses on the small worlds (family two_denials). Round 3 (audit): the clause 'the class matches the cause' is in the Spec (Spec.Cause over the property's four plan shapes) and is REFUTED for the source as it is (C03_cause_counterexample: one refused access inside is_running()'s identity probe makes ppid/children/parent/parents raise NoSuchProcess for a live readable process — known finding C03-denied-probe-reads-as-reuse, no repair proposed: it conflicts with C05/C01's recycled-PID statements when the PID's current owner is unreadable); proved only BOUNDED-exhaustively (all plan shapes with indices < 12 / < 16 on the 2- and 3-process worlds: C03_cause_bounded_plain for the 32 queries outside _raise_if_pid_reused, C03_cause_bounded_unrepaired = exactly the probe refusals break it, C03_cause_bounded_repaired for a lenient probe) and decided in Lean on the REAL code's outcome for every property-shaped plan of the correspondence; is_running() never raises (C03_is_running_never_raises); as_dict() in its default form (attrs=None / []) is modelled, proved (C03_as_dict_default_policy) and driven; shape facts (statements inside each modelled try, oneshot()'s finally, as_dict's iteration list, the probe's comparison) feed the obligations cfg_shapes_good / cfg_running_probe_known. Landing of /repo d7107b4 (C05's repair: the lowest-PID stop of parent() runs self._raise_if_pid_reused() before it answers None): translator fact parentRootStop (total extractor: the statements of the stop and the statement before it, as text when unrecognised) feeds the model branch Fe.rootStop (one more open + read of /proc/<pid>/stat on the stop — on the object itself and on the ancestor object parents() reaches) and the obligation cfg_parent_root_guard; C03_safe_parent, C03_safe_parents_partial and C03_safe_parents_repaired keep their strength and cover the extra probe (it can only end in NoSuchProcess(pid) or let the stop answer None: rootStop_safe), concrete runs on the lowest-PID world in C03_parent_root_stop_probe (3 accesses instead of 1; gone -> NoSuchProcess instead of None; refused probe -> NoSuchProcess = region of finding C03-denied-probe-reads-as-reuse); on the real code the repeated parent()/parents() call after the process is gone must now raise NoSuchProcess for the lowest pid too (exemption removed). Seeded round 5 (C03-4, memory_maps() turned into a generator): two more dimensions. (1) WHEN a decorated body runs: total translator fact lazyBodies (every _pslinux.Process method whose call returns a lazily evaluated object: yield in its own scope, or a returned generator expression / map / filter / zip / iter / itertools / local or module-level generator call) feeds the model's W (such a body runs with no handler of the decorator), obligation cfg_eager_bodies + cfg_good (the list is empty for the source as it is), C03_wrapped_bodies_run_inside_handlers (every decorated name, every body), C03_lazy_body_escapes_wrapper (any configuration), and at run time every zero-argument decorated method of the real platform object is called and its result asked `iter(v) is v` — the set must equal the fact. (2) the OS access of a helper on a path OUTSIDE procfs that the body read out of a procfs record: worlds carry the mappings of smaps (ProcInfo.maps: anon | file | ' (deleted)' name with or without a file of that literal name; [] = empty record of a live process), memory_maps() is modelled with its per-mapping loop and path_exists_strict (clauses interpreted from fact existsStrictClauses; fact mapsDeletedProbe pins the probe), the stat is an access of the call (Path.mapFile, may be the refused one, independent of the state of the process) in the model and in the fault layer (FaultFS.ext); C03_safe_memory_maps / C03_memory_maps_any_mappings hold for any number of mappings of any kind (induction), C03_exists_strict_only_refusal, concrete runs C03_memory_maps_probe_runs, and the seeded change as proved counterexamples (C03_lazy_memory_maps_leaks, C03_lazy_memory_maps_not_safe: a lazy memory_maps(), or one without the decorator, leaks the bare PermissionError of the refused stat, also through as_dict()); generator family `maps` (structured + random + every kind sequence of length <= 2 / <= 3, through memory_maps(), memory_maps(grouped=False), as_dict, process_iter, histories). Partial: faults at OS-access granularity only; the os.stat of a descriptor's target inside open_files() (isfile_strict) is still not an access of the model; other processes are static during a call; the history theorems assume an inactive oneshot cache at the start of each call and exclude the documented memo answers (pid, create_time, a successful exe()); parent()/parents() depend on the module global _LOWEST_PID and are not history calls of the model; 'safe under any number of refusals' is only bounded-exhaustive (C03_multi_denial_safe_Full is not proved); 'never a parsing error' is relative to the content abstraction (files of a live or zombie process are well-formed except where the kernel empties them); no correspondence case has object != target or another process changing mid-call.",
    "level_note": "Trusted: Lean kernel + {propext, Classical.choice, Quot.sound}; translator; fault layer and correspondence harness; zombie/gone behaviour tables (validated live); file contents are abstracted to well-formed/empty classes (byte-level parsing is C06/C12/C13/C14).",
    "technique": "Lean 4 Hoare-style safety proofs over a fault-plan monad (generic wrap_safe + one body lemma per method, induction for loops) + translator-fed proof obligation + exhaustive fault-position differential correspondence",
    "design_ref": "DESIGN.md §5 C03",
}
ASSUMPTIONS = [
    "the object was constructed while the process was alive (create_time cached), no oneshot() entered by the caller unless stated",
    "files of an alive process are well-formed; empty files occur only where the kernel produces them for zombies (cmdline, smaps, environ)",
    "the target pid is not 0 (rlimit)",
]

OKSET = ("NoSuchProcess", "ZombieProcess", "AccessDenied")

# ------------------------------------------------------------------------------ translator


def _names_of(t):
    if t is None:
        return ["BaseException"]
    if isinstance(t, ast.Tuple):
        return [_names_of(e)[0] for e in t.elts]
    if isinstance(t, ast.Name):
        return [t.id]
    if isinstance(t, ast.Attribute):
        return [t.attr]
    raise NotRecognised("except class expression %s" % ast.dump(t)[:60])


def handlers_of(fn):
    """(class names, handler node) of every `except` clause inside fn, in source order:
    a try's own handlers first, then its body, handler bodies, else, finally."""
    out = []

    def visit(node):
        if isinstance(node, ast.Try):
            for h in node.handlers:
                out.append((_names_of(h.type), h))
            for part in (node.body, [s for h in node.handlers for s in h.body], node.orelse, node.finalbody):
                for s in part:
                    visit(s)
            return
        for c in ast.iter_child_nodes(node):
            visit(c)
    for s in fn.body:
        visit(s)
    return out


def class_methods(cls):
    out = {}

    def visit(body):
        for n in body:
            if isinstance(n, ast.FunctionDef):
                out[n.name] = n
            elif isinstance(n, ast.If):
                visit(n.body)
                visit(n.orelse)
    visit(cls.body)
    return out


def _wrap_clauses(tree):
    fn = extract.find_def(tree, "wrap_exceptions")
    inner = [n for n in fn.body if isinstance(n, ast.FunctionDef)]
    if len(inner) != 1:
        raise NotRecognised("wrap_exceptions: expected one inner def")
    tries = [n for n in inner[0].body if isinstance(n, ast.Try)]
    if len(tries) != 1 or tries[0].orelse or tries[0].finalbody:
        raise NotRecognised("wrap_exceptions: expected one plain try")
    body = tries[0].body
    if not (len(body) == 1 and isinstance(body[0], ast.Return) and isinstance(body[0].value, ast.Call)
            and extract.dotted(body[0].value.func) == "fun"):
        raise NotRecognised("wrap_exceptions: try body is not `return fun(...)`")
    clauses = []
    for h in tries[0].handlers:
        names = _names_of(h.type)
        if len(names) != 1:
            raise NotRecognised("wrap_exceptions: tuple clause")
        steps = []
        for st in h.body:
            if isinstance(st, ast.Raise):
                if st.exc is None:
                    steps.append("raise")
                elif isinstance(st.exc, ast.Call):
                    steps.append("raise " + extract.dotted(st.exc.func).split(".")[-1])
                else:
                    raise NotRecognised("wrap_exceptions: raise of %s" % ast.unparse(st.exc))
            elif isinstance(st, ast.Expr) and isinstance(st.value, ast.Call) \
                    and extract.dotted(st.value.func) == "self._raise_if_zombie":
                steps.append("_raise_if_zombie")
            elif isinstance(st, ast.If):
                t = st.test
                ok = (isinstance(t, ast.UnaryOp) and isinstance(t.op, ast.Not) and isinstance(t.operand, ast.Call)
                      and extract.dotted(t.operand.func) == "os.path.exists"
                      and ast.unparse(t.operand.args[0]).replace('"', "'") == "f'{self._procfs_path}/{pid}/stat'"
                      and len(st.body) == 1 and isinstance(st.body[0], ast.Raise) and not st.orelse
                      and isinstance(st.body[0].exc, ast.Call))
                if not ok:
                    raise NotRecognised("wrap_exceptions: unrecognised if: %s" % ast.unparse(st.test))
                steps.append("if not exists(stat): raise " + extract.dotted(st.body[0].exc.func).split(".")[-1])
            else:
                raise NotRecognised("wrap_exceptions: statement %s" % ast.unparse(st)[:60])
        clauses.append((names[0], steps))
    return clauses


def _tag(h):
    """classify a handler body for _init / is_running"""
    body = [s for s in h.body if not (isinstance(s, ast.Expr) and isinstance(s.value, ast.Constant))]
    if all(isinstance(s, ast.Pass) for s in body):
        return "pass"
    last = body[-1]
    if isinstance(last, ast.Return) and isinstance(last.value, ast.Constant) and last.value.value in (True, False):
        return "return %s" % last.value.value
    for n in ast.walk(h):
        if isinstance(n, ast.Raise) and isinstance(n.exc, ast.Call):
            return "raise " + extract.dotted(n.exc.func).split(".")[-1]
    raise NotRecognised("handler body %s" % ast.unparse(h)[:80])


def _runtime_dump(snap):
    code = ("import sys, json; sys.path.insert(0, %r); import psutil; "
            "print(json.dumps({'public': sorted(x for x in dir(psutil.Process) if not x.startswith('_')), "
            "'asdict': sorted(psutil._as_dict_attrnames), "
            "'rollup': bool(psutil._psplatform.HAS_PROC_SMAPS_ROLLUP)}))") % snap.dir
    env = dict(os.environ)
    env.pop("PYTHONPATH", None)
    r = subprocess.run([PY, "-c", code], stdout=subprocess.PIPE, stderr=subprocess.PIPE, text=True, timeout=120, env=env)
    if r.returncode != 0:
        raise NotRecognised("runtime dump failed: %s" % r.stderr[-300:])
    return json.loads(r.stdout.strip().split("\n")[-1])


def lstr(xs):
    return extract.lean_list(xs, extract.lean_str)


def facts(snap, F):
    lin = extract.parse_module(snap, "_pslinux.py")
    ini = extract.parse_module(snap, "__init__.py")
    cache = {}

    def pm():
        if "pm" not in cache:
            cache["pm"] = class_methods(extract.find_class(lin, "Process"))
        return cache["pm"]

    def fm():
        if "fm" not in cache:
            cache["fm"] = class_methods(extract.find_class(ini, "Process"))
        return cache["fm"]

    def hs(fn, i, count=None):
        h = handlers_of(fn)
        if count is not None and len(h) != count:
            raise NotRecognised("%s: %d except clauses, expected %d" % (fn.name, len(h), count))
        return h[i][0]

    def rt():
        if "rt" not in cache:
            cache["rt"] = _runtime_dump(snap)
        return cache["rt"]

    F.try_add("wrapClauses", "List (String × List String)",
              lambda: extract.lean_list(_wrap_clauses(lin), lambda c: extract.lean_pair(extract.lean_str(c[0]), lstr(c[1]))),
              "wrap_exceptions: per except clause (in order) the class and the handler's steps")
    F.try_add("isZombieCatch", "List String", lambda: lstr(hs(pm()["_is_zombie"], 0, 1)), "Process._is_zombie: except classes")
    F.try_add("readlinkCatch", "List String", lambda: lstr(hs(pm()["_readlink"], 0, 1)), "Process._readlink: except classes")
    F.try_add("threadsCatch", "List String", lambda: lstr(hs(pm()["threads"], 0, 1)), "Process.threads: except classes around the per-thread read")
    F.try_add("ofLinkCatch", "List String", lambda: lstr(hs(pm()["open_files"], 0, 3)), "Process.open_files: first except around readlink")
    F.try_add("ofInfoCatch", "List String", lambda: lstr(hs(pm()["open_files"], 2, 3)), "Process.open_files: except around fdinfo")
    F.try_add("inodesCatch", "List String",
              lambda: lstr(hs(extract.find_def(lin, "get_proc_inodes", cls="NetConnections"), 0, 2)),
              "NetConnections.get_proc_inodes: first except around readlink")
    F.try_add("fullInfoCatch", "List String", lambda: lstr(hs(pm()["memory_full_info"], 0, 1)), "Process.memory_full_info: smaps_rollup fallback")
    F.try_add("ppidMapCatch", "List String", lambda: lstr(hs(extract.find_def(lin, "ppid_map"), 0, 1)), "ppid_map(): except classes around reading /proc/<pid>/stat")
    F.try_add("asDictCatch", "List String", lambda: lstr(hs(fm()["as_dict"], 0, 2)), "psutil.Process.as_dict: classes replaced by ad_value")
    def iter_catch():
        """process_iter: the except clause whose handler drops the pid (`remove(pid)`), wherever it sits among the
        function's other handlers (since 4d302c5 the drain loop has an `except KeyError: break` of its own)"""
        fn = extract.find_def(ini, "process_iter")
        hit = [names for names, node in handlers_of(fn)
               if any(isinstance(n, ast.Call) and ast.unparse(n.func) == "remove" for n in ast.walk(node))]
        if len(hit) != 1:
            raise NotRecognised("process_iter: %d except clauses call remove(pid)" % len(hit))
        return hit[0]

    F.try_add("iterCatch", "List String", lambda: lstr(iter_catch()), "process_iter: classes that drop the pid")
    F.try_add("childrenCatch", "List String", lambda: lstr(hs(fm()["children"], 0, 2)), "psutil.Process.children (non recursive)")
    F.try_add("childrenRecCatch", "List String", lambda: lstr(hs(fm()["children"], 1, 2)), "psutil.Process.children (recursive branch)")
    F.try_add("parentCatch", "List String", lambda: lstr(hs(fm()["parent"], 0, 1)), "psutil.Process.parent")

    def parents_catch():
        """parents(): `proc = proc.parent()` inside the while loop, bare (-> []) or wrapped in one
        `try … except (classes): break` (-> classes); the first `self.parent()` is never wrapped"""
        fn = fm()["parents"]
        h = handlers_of(fn)
        if not h:
            return []
        if len(h) != 1:
            raise NotRecognised("parents: %d except clauses" % len(h))
        names, node = h[0]
        body = [s for s in node.body if not (isinstance(s, ast.Expr) and isinstance(s.value, ast.Constant))]
        if not (len(body) == 1 and isinstance(body[0], ast.Break)):
            raise NotRecognised("parents: handler body is not `break`")
        whiles = [n for n in fn.body if isinstance(n, ast.While)]
        if len(whiles) != 1:
            raise NotRecognised("parents: expected one while loop")
        tries = [n for n in whiles[0].body if isinstance(n, ast.Try)]
        if len(tries) != 1 or tries[0].orelse or tries[0].finalbody or len(tries[0].body) != 1 \
                or ast.unparse(tries[0].body[0]) != "proc = proc.parent()":
            raise NotRecognised("parents: the try does not wrap exactly `proc = proc.parent()`")
        return names
    F.try_add("parentsCatch", "List String", lambda: lstr(parents_catch()),
              "psutil.Process.parents: classes whose handler ends the walk around proc.parent() ([] = no handler)")

    def init_clauses():
        h = handlers_of(fm()["_init"])
        sel = [x for x in h if x[0] != ["OverflowError"]]
        if len(sel) != 3:
            raise NotRecognised("_init: expected 3 clauses around _get_ident")
        return extract.lean_list(sel, lambda x: extract.lean_pair(lstr(x[0]), extract.lean_str(_tag(x[1]))))
    F.try_add("initClauses", "List (List String × String)", init_clauses, "psutil.Process._init: clauses around _get_ident()")
    F.try_add("runningClauses", "List (List String × String)",
              lambda: extract.lean_list(handlers_of(fm()["is_running"]),
                                        lambda x: extract.lean_pair(lstr(x[0]), extract.lean_str(_tag(x[1])))),
              "psutil.Process.is_running: clauses")
    F.try_add("nameCatch", "List String", lambda: lstr(hs(fm()["name"], 0, 1)), "psutil.Process.name: around cmdline()")
    F.try_add("statusCatch", "List String", lambda: lstr(hs(fm()["status"], 0, 1)), "psutil.Process.status")
    def _stmts(body):
        return [ast.unparse(x).replace('"', "'") for x in body
                if not (isinstance(x, ast.Expr) and isinstance(x.value, ast.Constant))]

    def exe_own():
        """exe() with its nested helper(s) cut out: the handlers of exe()'s OWN statements (the helper guess_it has facts
        of its own — a try inside it must not shift the indices of these two)"""
        fn = fm()["exe"]
        return ast.FunctionDef(name="exe", args=fn.args, body=[s for s in fn.body if not isinstance(s, ast.FunctionDef)],
                               decorator_list=[], lineno=fn.lineno, col_offset=0)
    F.try_add("exeCatch", "List String", lambda: lstr(hs(exe_own(), 0, 2)), "psutil.Process.exe: around _proc.exe()")
    F.try_add("exeGuessCatch", "List String", lambda: lstr(hs(exe_own(), 1, 2)), "psutil.Process.exe: around guess_it(fallback=exe)")

    # ---- seeded round 5 (C03-5): which OBJECT a front-end method hands back. All three extractors are total.
    def _guess_fn():
        fn = fm().get("exe")
        inner = [s for s in (fn.body if fn else []) if isinstance(s, ast.FunctionDef)]
        return inner[0] if len(inner) == 1 and inner[0].name == "guess_it" else None

    def _ret_tag(h):
        """what a handler of guess_it ends in, in the model's vocabulary; anything else as text"""
        body = [s for s in h.body if not (isinstance(s, ast.Expr) and isinstance(s.value, ast.Constant))]
        if len(body) == 1:
            st = body[0]
            if isinstance(st, ast.Return) and isinstance(st.value, ast.Name) and st.value.id == "fallback":
                return "return fallback"
            if isinstance(st, ast.Raise) and isinstance(st.exc, ast.Name) and st.exc.id == "fallback" and st.cause is None:
                return "raise fallback"
            if isinstance(st, ast.Raise) and st.exc is None:
                return "raise"
        return " ;; ".join(_stmts(body)) or "<empty>"

    def guess_clauses():
        g = _guess_fn()
        if g is None:
            return extract.lean_list([(["<no single helper guess_it in exe()>"], "<missing>")],
                                     lambda x: extract.lean_pair(lstr(x[0]), extract.lean_str(x[1])))
        out = []
        for names, h in handlers_of(g):
            try:
                scope = [t for t in ast.walk(g) if isinstance(t, ast.Try) and h in t.handlers][0]
                inside = " ;; ".join(_stmts(scope.body))
            except Exception:  # noqa: BLE001
                inside = "?"
            tag = _ret_tag(h)
            if inside != "cmdline = self.cmdline()" or scope.orelse or scope.finalbody:
                tag = "<try around: %s> %s" % (inside, tag)      # the model only knows a try around `self.cmdline()`
            out.append((names, tag))
        return extract.lean_list(out, lambda x: extract.lean_pair(lstr(x[0]), extract.lean_str(x[1])))
    F.try_add("guessItClauses", "List (List String × String)", guess_clauses,
              "psutil.Process.exe, helper guess_it(fallback): handlers around `cmdline = self.cmdline()` ([] = no try), "
              "classes and what the handler ends in (return fallback | raise fallback | raise | text)")

    def guess_tail():
        g = _guess_fn()
        if g is None:
            return "<missing>"
        body = [s for s in g.body if not (isinstance(s, ast.Expr) and isinstance(s.value, ast.Constant))]
        # from the first top-level statement that mentions isinstance(fallback, …) on; the whole body when there is none
        for i, st in enumerate(body):
            if isinstance(st, ast.If) and "isinstance(fallback" in ast.unparse(st.test):
                return " ;; ".join(x.replace("\n    ", " ") for x in _stmts(body[i:]))
        return "<no isinstance(fallback, …) test> " + " ;; ".join(_stmts(body[-2:]))
    F.try_add("guessItTail", "String", lambda: extract.lean_str(guess_tail()),
              "guess_it(fallback): the statements from the `isinstance(fallback, AccessDenied)` test to the end")

    def exc_value_flows():
        """every use of a name bound by `except … as NAME` — in every method of psutil.Process (nested functions
        included) and in process_iter — that is NOT `raise NAME`, `raise X from NAME`, an attribute read `NAME.attr` or a
        `del`: the places where a caught exception OBJECT starts to travel as a value (returned, stored, passed on)"""
        out = []

        def scan(label, fn):
            for t in ast.walk(fn):
                if not isinstance(t, ast.Try):
                    continue
                for h in t.handlers:
                    if not h.name:
                        continue
                    parents = {}
                    for n in ast.walk(h):
                        for c in ast.iter_child_nodes(n):
                            parents[c] = n
                    for n in ast.walk(h):
                        if isinstance(n, ast.Name) and n.id == h.name and isinstance(n.ctx, ast.Load):
                            par = parents.get(n)
                            if isinstance(par, ast.Raise) or isinstance(par, ast.Attribute):
                                continue
                            st = par
                            while st is not None and not isinstance(st, ast.stmt):
                                st = parents.get(st)
                            out.append("%s: %s" % (label, ast.unparse(st if st is not None else par).split("\n")[0]))
        for nm, fn in sorted(fm().items()):
            scan(nm, fn)
        try:
            scan("process_iter", extract.find_def(ini, "process_iter"))
        except Exception:  # noqa: BLE001
            out.append("process_iter: <missing>")
        return lstr(sorted(set(out)))
    F.try_add("excValueFlows", "List String", exc_value_flows,
              "uses of an `except … as NAME` name other than raise / attribute read, per front-end method")
    F.try_add("wrapped", "List String",
              lambda: lstr(sorted(k for k, v in pm().items() if "wrap_exceptions" in extract.decorators(v))),
              "_pslinux.Process methods carrying @wrap_exceptions")
    F.try_add("memoized", "List String",
              lambda: lstr(sorted(k for k, v in pm().items() if "memoize_when_activated" in extract.decorators(v))),
              "_pslinux.Process methods carrying @memoize_when_activated")
    F.try_add("feMemoized", "List String",
              lambda: lstr(sorted(k for k, v in fm().items() if "memoize_when_activated" in extract.decorators(v))),
              "psutil.Process methods carrying @memoize_when_activated")
    F.try_add("hasRollup", "Bool", lambda: extract.lean_bool(rt()["rollup"]), "HAS_PROC_SMAPS_ROLLUP of the imported module (host dependent)")
    F.try_add("publicMethods", "List String", lambda: lstr(rt()["public"]), "public names of psutil.Process (runtime dir())")
    F.try_add("asDictNames", "List String", lambda: lstr(rt()["asdict"]), "psutil._as_dict_attrnames")

    def gone_guard():
        fn = fm()["_raise_if_pid_reused"]
        ifs = [n for n in fn.body if isinstance(n, ast.If)]
        if not ifs or "_pid_reused" not in ast.unparse(ifs[0].test):
            raise NotRecognised("_raise_if_pid_reused: first test is not the _pid_reused one")
        for n in ifs[1:]:
            if extract.dotted(n.test) == "self._gone":
                r = [x for x in n.body if isinstance(x, ast.Raise) and isinstance(x.exc, ast.Call)]
                if len(r) == 1 and extract.dotted(r[0].exc.func).split(".")[-1] == "NoSuchProcess" and not n.orelse:
                    return True
                raise NotRecognised("_raise_if_pid_reused: `if self._gone` does not raise NoSuchProcess")
        if len(ifs) > 1:
            raise NotRecognised("_raise_if_pid_reused: unrecognised second test %s" % ast.unparse(ifs[1].test))
        return False
    F.try_add("goneGuard", "Bool", lambda: extract.lean_bool(gone_guard()),
              "_raise_if_pid_reused also raises NoSuchProcess(pid) when self._gone is set")

    def pop_self():
        fn = fm()["children"]
        found = False
        for n in fn.body:
            if isinstance(n, ast.If):
                break           # the recursive / non recursive branches start here
            if isinstance(n, ast.Expr) and isinstance(n.value, ast.Call) and extract.dotted(n.value.func) == "ppid_map.pop":
                a = n.value.args
                if len(a) == 2 and extract.dotted(a[0]) == "self.pid" and isinstance(a[1], ast.Constant) and a[1].value is None:
                    found = True
                else:
                    raise NotRecognised("children: ppid_map.pop(%s)" % ast.unparse(n.value))
        return found
    F.try_add("childrenPopSelf", "Bool", lambda: extract.lean_bool(pop_self()),
              "children() drops the caller's own pid from the ppid map before looking for children")


    # ---- round 3: facts about WHAT sits inside the handlers / tries (total extractors: an unrecognised shape is
    # ---- returned as text, so the obligation theorem fails with the new value instead of the fact being skipped)

    def running_probe():
        """is_running(): what the try does with the fresh probe `Process(self.pid)`.
        "compare" = `self._pid_reused = self != Process(self.pid)` straight away;
        "lenient" = the probe is kept, and when ITS creation time is unknown (AccessDenied swallowed by _init) while
        the object's own is known the method answers True before comparing; anything else: the statements as text"""
        fn = fm().get("is_running")
        if fn is None:
            return "<no is_running>"
        tries = [n for n in fn.body if isinstance(n, ast.Try)]
        if len(tries) != 1:
            return "<%d try statements>" % len(tries)
        body = _stmts(tries[0].body)
        tail = ["if self._pid_reused:\n    _pids_reused.add(self.pid)\n    raise NoSuchProcess(self.pid)", "return True"]
        if body == ["self._pid_reused = self != Process(self.pid)"] + tail:
            return "compare"
        if body == ["other = Process(self.pid)",
                    "if self._ident[1] is not None and other._ident[1] is None:\n    return True",
                    "self._pid_reused = self != other"] + tail:
            return "lenient"
        return " ;; ".join(body)
    F.try_add("runningProbe", "String", lambda: extract.lean_str(running_probe()),
              "psutil.Process.is_running: how the fresh probe Process(self.pid) is compared (compare | lenient | the statements)")

    def asdict_skip():
        fn = fm().get("as_dict")
        h = handlers_of(fn) if fn is not None else []
        if len(h) < 2:
            return [], "<no second handler>"
        names, node = h[1]
        body = _stmts(node.body)
        if body == ["if attrs:\n    raise", "continue"]:
            rule = "if attrs: raise; continue"
        elif body == ["continue"]:
            rule = "continue"
        else:
            rule = " ;; ".join(body)
        return names, rule
    F.try_add("asDictSkipCatch", "List String", lambda: lstr(asdict_skip()[0]),
              "psutil.Process.as_dict: classes of the second handler (a name that is not implemented)")
    F.try_add("asDictSkipRule", "String", lambda: extract.lean_str(asdict_skip()[1]),
              "psutil.Process.as_dict: body of the second handler")

    def asdict_ls():
        """as_dict: `ls = attrs or valid_names` (so attrs=None and attrs=[] both mean every name) and the loop runs
        inside `with self.oneshot():`"""
        fn = fm().get("as_dict")
        if fn is None:
            return "<no as_dict>"
        out = []
        for n in fn.body:
            if isinstance(n, ast.Assign) and ast.unparse(n.targets[0]) == "ls":
                out.append(ast.unparse(n))
            if isinstance(n, ast.With):
                out.append("with " + ", ".join(ast.unparse(i.context_expr) for i in n.items) + ": "
                           + " ;; ".join(type(x).__name__ + (" " + ast.unparse(x.iter) if isinstance(x, ast.For) else "") for x in n.body))
        return " ;; ".join(out)
    F.try_add("asDictLs", "String", lambda: extract.lean_str(asdict_ls()),
              "psutil.Process.as_dict: the names iterated and the oneshot() scope of the loop")

    def oneshot_shape():
        """oneshot(): the caches are deactivated in a `finally` (so an exception inside the block cannot leave them on)"""
        fn = fm().get("oneshot")
        if fn is None:
            return "<no oneshot>"
        tries = [n for n in ast.walk(fn) if isinstance(n, ast.Try)]
        if len(tries) != 1:
            return "<%d try statements>" % len(tries)
        t = tries[0]
        ys = [i for i, x in enumerate(t.body) if isinstance(x, ast.Expr) and isinstance(x.value, ast.Yield)]
        fin = _stmts(t.finalbody)
        deact = sorted(x for x in fin if "cache_deactivate" in x or "oneshot_exit" in x)
        if t.handlers or t.orelse:
            return "<handlers/else on the try>"
        return "yield@%s/%d finally: %s" % (ys, len(t.body), " ;; ".join(deact))
    F.try_add("oneshotShape", "String", lambda: extract.lean_str(oneshot_shape()),
              "psutil.Process.oneshot: position of the yield inside the try and what the finally clause deactivates")

    def parent_root_stop():
        """parent(): what the lowest-PID stop `if self.pid == lowest_pid:` does before it answers. Total:
        "guard; return None" = `self._raise_if_pid_reused()` then `return None` (/repo d7107b4: one more identity probe =
        open + read of /proc/<pid>/stat on that path); "return None" = the stop answers without any access (before);
        anything else: the statements as text (the model then has no guard and the obligation fails with the new value)"""
        fn = fm().get("parent")
        if fn is None:
            return "<no parent>"
        stops = [n for n in fn.body if isinstance(n, ast.If)
                 and ast.unparse(n.test).replace(" ", "") in ("self.pid==lowest_pid", "lowest_pid==self.pid")]
        if len(stops) != 1:
            return "<%d lowest-PID tests>" % len(stops)
        if stops[0].orelse:
            return "<else on the stop> " + " ;; ".join(_stmts(stops[0].body))
        # nothing may touch the process between the listing and the stop: the statements before it are pinned too
        before = _stmts(fn.body[:fn.body.index(stops[0])])
        if before != ["lowest_pid = _LOWEST_PID if _LOWEST_PID is not None else pids()[0]"]:
            return "<before the stop> " + " ;; ".join(before)
        body = _stmts(stops[0].body)
        if body == ["self._raise_if_pid_reused()", "return None"]:
            return "guard; return None"
        if body == ["return None"]:
            return "return None"
        return " ;; ".join(body)
    F.try_add("parentRootStop", "String", lambda: extract.lean_str(parent_root_stop()),
              "psutil.Process.parent: statements of the lowest-PID stop (guard; return None | return None | the statements)")

    # ---- seeded round 5: lazily evaluated results of platform methods, and the OS access of the helper memory_maps() calls

    LAZY_CALLS = {"map", "filter", "zip", "iter", "reversed", "enumerate"}

    def _own_nodes(fn):
        """the nodes of fn's own scope (nested defs / lambdas / classes are other scopes)"""
        stack = list(fn.body)
        while stack:
            n = stack.pop()
            yield n
            if isinstance(n, (ast.FunctionDef, ast.AsyncFunctionDef, ast.Lambda, ast.ClassDef)):
                continue            # named, but its body is another scope
            stack.extend(ast.iter_child_nodes(n))

    def _is_generator_fn(fn):
        return any(isinstance(n, (ast.Yield, ast.YieldFrom)) for n in _own_nodes(fn))

    def lazy_bodies():
        """TOTAL over every method of _pslinux.Process: the methods whose call returns a lazily evaluated result — a
        generator function (a `yield` in its own scope), or a `return` (directly or through a local name) of a generator
        expression, of map/filter/zip/iter/reversed/enumerate/itertools.*, or of a call of a generator function defined
        locally or at module level. For those `return fun(self, …)` in wrap_exceptions' try only builds the object: the body
        runs later, outside the decorator's handlers (model: `W`)"""
        mod_gens = {n.name for n in lin.body if isinstance(n, ast.FunctionDef) and _is_generator_fn(n)}

        def lazy_expr(e, local_gens, lazy_names):
            if isinstance(e, ast.GeneratorExp):
                return True
            if isinstance(e, ast.Name):
                return e.id in lazy_names
            if isinstance(e, ast.IfExp):
                return lazy_expr(e.body, local_gens, lazy_names) or lazy_expr(e.orelse, local_gens, lazy_names)
            if isinstance(e, ast.Call):
                f = extract.dotted(e.func) if isinstance(e.func, (ast.Name, ast.Attribute)) else ""
                f = f or ""
                return f in LAZY_CALLS or f.startswith("itertools.") or f in local_gens or f in mod_gens
            return False

        out = []
        for name, fn in sorted(pm().items()):
            if _is_generator_fn(fn):
                out.append(name)
                continue
            local_gens = {n.name for n in _own_nodes(fn) if isinstance(n, ast.FunctionDef) and _is_generator_fn(n)}
            local_gens |= {n.name for n in fn.body if isinstance(n, ast.FunctionDef) and _is_generator_fn(n)}
            lazy_names = set()
            for _ in range(3):      # names bound to a lazy expression (a few rounds: chains of local names)
                for n in _own_nodes(fn):
                    if isinstance(n, ast.Assign) and lazy_expr(n.value, local_gens, lazy_names):
                        lazy_names |= {t.id for t in n.targets if isinstance(t, ast.Name)}
            if any(isinstance(n, ast.Return) and n.value is not None and lazy_expr(n.value, local_gens, lazy_names)
                   for n in _own_nodes(fn)):
                out.append(name)
        return out
    F.try_add("lazyBodies", "List String", lambda: lstr(lazy_bodies()),
              "_pslinux.Process methods whose call returns a lazy result (generator function / returned generator expression, map, "
              "filter, …): their body runs outside @wrap_exceptions")

    def exists_strict_clauses():
        """_common.path_exists_strict: `try: os.stat(path)` + its except clauses in order, tagged "raise" (bare re-raise) /
        "return False"; `else: return True`. Total: any other shape is returned as text in the tag"""
        try:
            com = extract.parse_module(snap, "_common.py")
            fn = extract.find_def(com, "path_exists_strict")
        except Exception:  # noqa: BLE001
            return [(["<missing>"], "<no path_exists_strict>")]
        tries = [n for n in fn.body if isinstance(n, ast.Try)]
        rest = [x for x in _stmts(fn.body) if not x.startswith("try:")]
        if len(tries) != 1 or rest:
            return [(["<shape>"], " ;; ".join(_stmts(fn.body)))]
        t = tries[0]
        if _stmts(t.body) != ["os.stat(path)"] or _stmts(t.orelse) != ["return True"] or t.finalbody:
            return [(["<shape>"], "try: %s else: %s" % (" ;; ".join(_stmts(t.body)), " ;; ".join(_stmts(t.orelse))))]
        out = []
        for h in t.handlers:
            try:
                names = _names_of(h.type)
            except NotRecognised:
                names = ["<%s>" % ast.unparse(h.type)]
            body = _stmts(h.body)
            out.append((names, "raise" if body == ["raise"] else "return False" if body == ["return False"] else " ;; ".join(body)))
        return out
    F.try_add("existsStrictClauses", "List (List String × String)",
              lambda: extract.lean_list(exists_strict_clauses(), lambda c: extract.lean_pair(lstr(c[0]), extract.lean_str(c[1]))),
              "_common.path_exists_strict: except classes -> raise | return False (os.stat in the try, else: return True)")

    def maps_deleted_probe():
        """memory_maps(): every statement / test of the method (nested helpers included) that names path_exists_strict or
        another file-system probe of a mapping's path — expected: the one test of the `(deleted)` suffix"""
        fn = pm().get("memory_maps")
        if fn is None:
            return "<no memory_maps>"
        probes = ("path_exists_strict", "os.stat", "os.lstat", "os.path.exists", "os.path.lexists", "os.path.isfile",
                  "isfile_strict", "os.access", "os.readlink", "os.path.realpath", "open", "open_binary", "open_text")
        hits = []
        for n in ast.walk(fn):
            if isinstance(n, ast.Call) and isinstance(n.func, (ast.Name, ast.Attribute)) and extract.dotted(n.func) in probes:
                # the innermost enclosing `if` test / statement that holds the call
                host = None
                for m in ast.walk(fn):
                    if isinstance(m, ast.If) and any(x is n for x in ast.walk(m.test)):
                        host = "if " + ast.unparse(m.test).replace('"', "'")
                hits.append(host or ast.unparse(n).replace('"', "'"))
        return " ;; ".join(hits) if hits else "<no probe>"
    F.try_add("mapsDeletedProbe", "String", lambda: extract.lean_str(maps_deleted_probe()),
              "_pslinux.Process.memory_maps: the file-system probes of a mapping's path (expected: the ' (deleted)' suffix test)")

    def try_scopes():
        """the statements INSIDE each try of the functions whose handlers are modelled (the except classes are separate
        facts): moving a statement out of / into a try changes the fact"""
        out = []

        def add(label, fn):
            if fn is None:
                out.append((label, ["<missing>"]))
                return
            bodies = []

            def visit(node):
                if isinstance(node, ast.Try):
                    txt = " ;; ".join(_stmts(node.body))
                    if node.orelse:
                        txt += " ;;else;; " + " ;; ".join(_stmts(node.orelse))
                    if node.finalbody:
                        txt += " ;;finally"
                    bodies.append(txt)
                for c in ast.iter_child_nodes(node):
                    visit(c)
            for st in fn.body:
                visit(st)
            out.append((label, bodies))
        for nm in ("children", "parent", "parents", "is_running", "name", "status"):
            add(nm, fm().get(nm))
        try:
            add("ppid_map", extract.find_def(lin, "ppid_map"))
        except Exception:  # noqa: BLE001
            out.append(("ppid_map", ["<missing>"]))
        for nm in ("_is_zombie", "_readlink", "threads", "memory_full_info", "rlimit"):
            add("_pslinux." + nm, pm().get(nm))
        return extract.lean_list(out, lambda c: extract.lean_pair(extract.lean_str(c[0]), lstr(c[1])))
    F.try_add("tryScopes", "List (String × List String)", try_scopes,
              "per function: the statements inside each try (in source order)")


# ------------------------------------------------------------------------------ worlds

FD_KINDS = ("file", "sock", "other", "stale", "infoStale")


MAP_KINDS = ("anon", "file", "deleted", "literal")
DEFAULT_MAPS = ["file", "anon"]


def mk_proc(pid, ppid, ctime, long=False, guess=False, tids=None, fds=None, stale=False, maps=None):
    """maps: the mappings of /proc/<pid>/smaps in file order — "anon" (pseudo path), "file" (absolute path), "deleted" (the
    name ends in ' (deleted)' and no such file exists: memory_maps() stat()s it and cuts the suffix), "literal" (a file
    whose name really ends in ' (deleted)': stat succeeds, the name is kept); [] = an empty smaps file (kernel thread)"""
    return {"pid": pid, "ppid": ppid, "ctime": ctime, "long": long, "guess": guess,
            "tids": tids if tids is not None else [[pid, False]], "fds": fds or [], "stale": stale,
            "maps": list(DEFAULT_MAPS) if maps is None else list(maps)}


def fixed_worlds():
    """small worlds; the first one is the smallest (used by shrink)"""
    T = 105
    ws = []
    ws.append({"target": T, "procs": [mk_proc(101, 1, 50), mk_proc(T, 101, 100)]})
    ws.append({"target": T, "procs": [
        mk_proc(101, 1, 50),
        mk_proc(T, 101, 100, long=True, tids=[[T, False], [106, False]],
                fds=[[0, "file"], [1, "sock"], [2, "other"]]),
        mk_proc(120, T, 150),
        mk_proc(121, T, 160)]})
    ws.append({"target": T, "procs": [
        mk_proc(101, 1, 50),
        mk_proc(T, 101, 100, long=True, guess=True, tids=[[T, False], [106, True], [107, False]],
                fds=[[0, "file"], [1, "stale"], [2, "infoStale"], [3, "sock"], [4, "sock"], [5, "file"]],
                maps=["file", "deleted", "anon", "literal"]),
        mk_proc(120, T, 150, tids=[[120, False], [122, False]], fds=[[0, "file"]]),
        mk_proc(123, T, 90),                      # "older than its parent": pid reused, not a child
        mk_proc(130, T, 170, stale=True),
        mk_proc(140, 1, 10)]})
    ws.append({"target": 101, "procs": [           # the lowest pid: parent() is None
        mk_proc(101, 0, 50, fds=[[3, "other"], [4, "other"]]),
        mk_proc(105, 101, 100)]})
    ws.append({"target": T, "procs": [             # parent not listed / gone
        mk_proc(T, 99, 100, guess=True, fds=[[7, "infoStale"], [8, "stale"]], tids=[[T, True]], maps=[]),
        mk_proc(110, 1, 10, long=True)]})
    return ws + tree_worlds()


def tree_worlds():
    """family `tree`: deeper process trees for children(recursive=True) / parents() — a chain of
    ancestors above the target, grandchildren and great-grandchildren below it, a stale descendant, a
    descendant "older than the target" (PID reuse: dropped together with its own subtree), and a ppid
    cycle through the target (recycled PIDs), which both walks must cut with their `seen` sets."""
    T = 105
    ws = []
    ws.append({"target": T, "procs": [
        mk_proc(2, 0, 5),
        mk_proc(50, 2, 10),
        mk_proc(101, 50, 50, long=True),
        mk_proc(T, 101, 100, fds=[[0, "sock"], [1, "file"]]),
        mk_proc(120, T, 150),
        mk_proc(121, 120, 160),
        mk_proc(122, T, 170),
        mk_proc(123, 121, 180),
        mk_proc(124, 122, 90),                    # older than the target: PID reused, not a descendant
        mk_proc(125, 124, 190),                   # ... and so its child is never reached
        mk_proc(126, 122, 200, stale=True),
        mk_proc(140, 50, 20)]})
    ws.append({"target": T, "procs": [             # cycle: 105 -> 121 -> 120 -> 105 (all started in the same tick)
        mk_proc(3, 0, 5),
        mk_proc(T, 121, 100),
        mk_proc(120, T, 100),
        mk_proc(121, 120, 100),
        mk_proc(130, 121, 100)]})
    return ws


N_TREE = 2


def random_tree_world(rng):
    """random forest over 5-9 PIDs; the target somewhere in the middle"""
    pids = rng.sample([3, 7, 50, 101, 110, 120, 121, 122, 130, 131, 150], rng.randrange(5, 10))
    T = 105
    pids.sort()
    cut = rng.randrange(1, len(pids))
    above, below = pids[:cut], pids[cut:]
    procs = []
    prev = 0
    ct = 5
    for q in above:                                # a chain (sometimes a side branch) above the target
        procs.append(mk_proc(q, prev if rng.random() < 0.8 else 0, ct, stale=rng.random() < 0.1))
        prev = q
        ct += rng.choice([0, 5, 10])
    procs.append(mk_proc(T, rng.choice(above + ([below[-1]] if rng.random() < 0.2 else [])), ct + 10,
                         fds=[[0, rng.choice(FD_KINDS[:3])]]))
    tct = ct + 10
    placed = [T]
    for q in below:
        par = rng.choice(placed)
        procs.append(mk_proc(q, par, rng.choice([tct, tct + 5, tct + 20, tct - 5]), stale=rng.random() < 0.15))
        placed.append(q)
    rng.shuffle(procs)
    return {"target": T, "procs": procs, "family": "tree"}


def random_maps(rng, nmax):
    return [rng.choice(MAP_KINDS) for _ in range(rng.randrange(0, nmax + 1))]


def random_world(rng):
    T = rng.choice([105, 140, 203])
    others = rng.sample([101, 110, 120, 121, 150, 160], rng.randrange(1, 4))
    procs = []
    nth = rng.randrange(1, 4)
    tids = [[T, rng.random() < 0.15]] + [[T + 1 + i, rng.random() < 0.3] for i in range(nth - 1)]
    fds = []
    n = 0
    for kind in FD_KINDS:
        for _ in range(rng.choice([0, 0, 1, 1, 2])):
            fds.append([n, kind])
            n += 1
    rng.shuffle(fds)
    fds = [[i, k] for i, (_, k) in enumerate(fds)]
    procs.append(mk_proc(T, rng.choice(others + [1]), 100, long=rng.random() < 0.5, guess=rng.random() < 0.5,
                         tids=tids, fds=fds, maps=random_maps(rng, 4)))
    for q in others:
        procs.append(mk_proc(q, rng.choice([T, T, 1, 101]), rng.choice([50, 90, 100, 150]),
                             long=rng.random() < 0.3, stale=rng.random() < 0.2,
                             fds=[[0, rng.choice(FD_KINDS[:3])]] if rng.random() < 0.5 else []))
    return {"target": T, "procs": procs}


class BuiltWorld:
    """A world materialised as a directory tree + the fault layer for it."""

    def __init__(self, ps, spec):
        self.ps = ps
        self.tmp = tempfile.mkdtemp(prefix="psv-c03-")
        self.root = os.path.join(self.tmp, "proc")
        self.files = os.path.join(self.tmp, "files")
        os.makedirs(self.root)
        os.makedirs(self.files)
        self.saved_procfs = ps.PROCFS_PATH
        self.target = spec["target"]
        stale_paths = set()
        stale_pids = set()
        ext = {}
        spec = dict(spec, procs=[dict(p, maps=list(p.get("maps", DEFAULT_MAPS))) for p in spec["procs"]])
        with _REAL["open"]("/proc/self/stat", "rb") as f:
            real_stat = f.read()
        with _REAL["open"]("/proc/self/status", "rb") as f:
            real_status = f.read()
        with _REAL["open"]("/proc/self/io", "rb") as f:
            real_io = f.read()
        rp = real_stat.rfind(b")")
        tail = real_stat[rp + 2:].split()
        for p in spec["procs"]:
            pid = p["pid"]
            d = os.path.join(self.root, str(pid))
            os.makedirs(os.path.join(d, "fd"))
            os.makedirs(os.path.join(d, "fdinfo"))
            comm = b"averyveryverylo" if p["long"] else b"c03 (pr)c"
            fields = list(tail)
            fields[0] = b"S"
            fields[1] = str(p["ppid"]).encode()
            fields[4] = b"0"
            fields[19] = str(p["ctime"]).encode()
            stat = str(pid).encode() + b" (" + comm + b") " + b" ".join(fields) + b"\n"
            self._w(d, "stat", stat)
            self._w(d, "status", real_status)
            self._w(d, "statm", b"100 50 10 5 0 20 0\n")
            self._w(d, "io", real_io)
            argv0 = b"/bin/sh" if p["guess"] else b"/nonexistent/c03prog"
            self._w(d, "cmdline", argv0 + b"\x00--flag\x00")
            self._w(d, "environ", b"A=1\x00B=2\x00")
            self._w(d, "smaps", self._smaps(pid, p["maps"], ext))
            self._w(d, "smaps_rollup", ROLLUP)
            os.symlink("/bin/sh", os.path.join(d, "exe"))
            os.symlink("/", os.path.join(d, "cwd"))
            for tid, st in p["tids"]:
                td = os.path.join(d, "task", str(tid))
                os.makedirs(td)
                self._w(td, "stat", str(tid).encode() + b" (" + comm + b") " + b" ".join(fields) + b"\n")
                if st:
                    stale_paths.add("%d/task/%d/stat" % (pid, tid))
            for fd, kind in p["fds"]:
                link = os.path.join(d, "fd", str(fd))
                if kind in ("file", "infoStale", "stale"):
                    tgt = os.path.join(self.files, "f%d_%d" % (pid, fd))
                    with _REAL["open"](tgt, "wb") as f:
                        f.write(b"x")
                    os.symlink(tgt, link)
                elif kind == "sock":
                    os.symlink("socket:[%d]" % (1000 + fd), link)
                else:
                    os.symlink("pipe:[%d]" % (5000 + fd), link)
                self._w(os.path.join(d, "fdinfo"), str(fd), b"pos:\t0\nflags:\t0100002\nmnt_id:\t15\n")
                if kind == "stale":
                    stale_paths.add("%d/fd/%d" % (pid, fd))
                    stale_paths.add("%d/fdinfo/%d" % (pid, fd))
                if kind == "infoStale":
                    stale_paths.add("%d/fdinfo/%d" % (pid, fd))
            if p["stale"]:
                stale_pids.add(pid)
        nd = os.path.join(self.root, "net")
        os.makedirs(nd)
        tgt = [p for p in spec["procs"] if p["pid"] == self.target][0]
        tcp = [NET_HDR]
        for i, (fd, kind) in enumerate(tgt["fds"]):
            if kind == "sock":
                tcp.append(("  %2d: 0100007F:%04X 00000000:0000 0A 00000000:00000000 00:00000000 00000000"
                            "  1000        0 %d 1 0000000000000000 100 0 0 10 0\n" % (i, 8000 + fd, 1000 + fd)).encode())
        self._w(nd, "tcp", b"".join(tcp))
        for n in ("tcp6", "udp", "udp6"):
            self._w(nd, n, NET_HDR)
        self._w(nd, "unix", b"Num       RefCount Protocol Flags    Type St Inode Path\n")
        self._w(self.root, "stat", b"cpu  1 2 3 4 5 6 7 8 9 10\nbtime 1700000000\n")
        # listing orders as the implementation will see them
        order = [int(x) for x in _REAL["listdir"](self.root) if x.isdigit()]
        by = {p["pid"]: p for p in spec["procs"]}
        procs = []
        for pid in order:
            p = dict(by[pid])
            tl = dict((t, s) for t, s in p["tids"])
            p["tids"] = [[int(t), tl[int(t)]] for t in sorted(_REAL["listdir"](os.path.join(self.root, str(pid), "task")))]
            fl = dict((f, k) for f, k in p["fds"])
            p["fds"] = [[int(f), fl[int(f)]] for f in _REAL["listdir"](os.path.join(self.root, str(pid), "fd"))]
            procs.append(p)
        self.spec = {"target": self.target, "procs": procs}
        self.fs = FaultFS(self.root, self.target, stale_pids, stale_paths, ext)
        ps.PROCFS_PATH = self.root
        reset_psutil_state(ps)
        self.prime()
        self.fs.install(ps)

    def _smaps(self, pid, kinds, ext):
        """the smaps record for a list of mapping kinds; every name is distinct (memory_maps(grouped=True) groups by name).
        The ' (deleted)' names point OUTSIDE the fake procfs and are registered with the fault layer as
        "<pid>/map/<i>": the stat psutil makes on them is an access of the call"""
        out = []
        for i, kind in enumerate(kinds):
            lo = 0x55d0a0000000 + i * 0x100000
            if kind == "anon":
                name, dev = "[anon:m%d]" % i, "00:00 0"
            elif kind == "file":
                name, dev = "/usr/lib/c03/m%d_%d.so" % (pid, i), "fd:01 %d" % (1234 + i)
            else:
                md = os.path.join(self.files, "maps", str(pid))
                os.makedirs(md, exist_ok=True)
                name, dev = os.path.join(md, "m%d" % i) + " (deleted)", "fd:01 %d" % (1234 + i)
                if kind == "literal":
                    with _REAL["open"](name, "wb") as f:
                        f.write(b"x")
                elif kind != "deleted":
                    raise InfraError("unknown mapping kind %r" % kind)
                ext[name] = "%d/map/%d" % (pid, i)
            out.append(("%x-%x r--p 00000000 %s                       %s\n" % (lo, lo + 0x21000, dev, name)).encode())
            out.append(SMAPS_FIELDS)
        return b"".join(out)

    @staticmethod
    def _w(d, name, data):
        with _REAL["open"](os.path.join(d, name), "wb") as f:
            f.write(data)

    def prime(self):
        ps = self.ps
        ps._psplatform.BOOT_TIME = 1700000000.0
        ps._TOTAL_PHYMEM = 8 << 30
        ps._pmap = {}
        ps._pids_reused.clear()
        ps._LOWEST_PID = None

    def close(self):
        self.fs.uninstall()
        self.ps.PROCFS_PATH = self.saved_procfs
        shutil.rmtree(self.tmp, ignore_errors=True)
        reset_psutil_state(self.ps)

    # ---------------------------------------------------------------- one implementation run
    def run(self, call, plan, again=False):
        """fresh object built while everything is alive; then `call` under the plan.
        Returns (outcome, trace, unknown[, outcome of the same call repeated once gone])."""
        ps = self.ps
        self.prime()
        try:
            proc = ps.Process(self.target)
        except Exception as e:  # noqa: BLE001
            raise InfraError("cannot construct Process(%d) on the fake tree: %r" % (self.target, e))
        self.fs.begin(plan)
        try:
            out = do_call(ps, proc, call)
        finally:
            trace = self.fs.end()
        unknown = list(self.fs.unknown)
        later = None
        if again:
            self.fs.begin({"switch": [[0, "gone"]]})
            try:
                later = do_call(ps, proc, call)
            finally:
                self.fs.end()
        return out, trace, unknown, later

    def run_history(self, calls, plan):
        """ONE object built while everything is alive, then the calls in order under one plan whose access
        indices run over the whole history. Returns (outcomes, start index of each call, trace, unknown)."""
        ps = self.ps
        self.prime()
        try:
            proc = ps.Process(self.target)
        except Exception as e:  # noqa: BLE001
            raise InfraError("cannot construct Process(%d) on the fake tree: %r" % (self.target, e))
        self.fs.begin(plan)
        outs, starts = [], []
        try:
            for call in calls:
                starts.append(len(self.fs.trace))
                outs.append(do_call(ps, proc, call))
        finally:
            trace = self.fs.end()
        return outs, starts, trace, list(self.fs.unknown)


SMAPS = (b"55d0a0000000-55d0a0021000 r--p 00000000 fd:01 1234                       /usr/bin/c03a\n"
         b"Size:                132 kB\nKernelPageSize:        4 kB\nMMUPageSize:           4 kB\nRss:                 132 kB\n"
         b"Pss:                  66 kB\nShared_Clean:        132 kB\nShared_Dirty:          0 kB\nPrivate_Clean:         0 kB\n"
         b"Private_Dirty:         0 kB\nReferenced:          132 kB\nAnonymous:             0 kB\nSwap:                  0 kB\n"
         b"VmFlags: rd mr mw me sd\n"
         b"7ffd1c000000-7ffd1c021000 rw-p 00000000 00:00 0                          [stack]\n"
         b"Size:                132 kB\nRss:                  16 kB\nPss:                  16 kB\nShared_Clean:          0 kB\n"
         b"Shared_Dirty:          0 kB\nPrivate_Clean:         0 kB\nPrivate_Dirty:        16 kB\nReferenced:           16 kB\n"
         b"Anonymous:            16 kB\nSwap:                  0 kB\nVmFlags: rd wr mr mw me gd ac\n")
SMAPS_FIELDS = (b"Size:                132 kB\nKernelPageSize:        4 kB\nMMUPageSize:           4 kB\nRss:                 132 kB\n"
                b"Pss:                  66 kB\nShared_Clean:        132 kB\nShared_Dirty:          0 kB\nPrivate_Clean:         0 kB\n"
                b"Private_Dirty:         0 kB\nReferenced:          132 kB\nAnonymous:             0 kB\nSwap:                  0 kB\n"
                b"VmFlags: rd mr mw me sd\n")
ROLLUP = (b"55d0a0000000-7ffd1c021000 ---p 00000000 00:00 0                          [rollup]\n"
          b"Rss:                 148 kB\nPss:                  82 kB\nPrivate_Clean:         0 kB\nPrivate_Dirty:        16 kB\n"
          b"Swap:                  0 kB\n")
NET_HDR = (b"  sl  local_address rem_address   st tx_queue rx_queue tr tm->when retrnsmt   uid  timeout inode\n")


class _AdValue:
    def __repr__(self):
        return "<ad_value>"


AD = _AdValue()


def shape(ps, v):
    """the shape of a RETURNED object, in the vocabulary of the model's `Val` (Driver/C03.lean `parseShape`); an exception
    INSTANCE handed back as a value is ["exc", class, pid], anything of no documented type ["unknown", type name] —
    `Spec.WellFormed` (decided in Lean) accepts neither for any call"""
    if isinstance(v, bool):
        return ["bool", v]
    if isinstance(v, int):
        return "int"
    if isinstance(v, float):
        return "float"
    if isinstance(v, str):
        return "str" if v else "estr"
    if v is None:
        return "none"
    if isinstance(v, BaseException):
        pid = getattr(v, "pid", None)
        return ["exc", type(v).__name__, pid if isinstance(pid, int) and not isinstance(pid, bool) else None]
    if isinstance(v, dict):
        return "dict"
    if isinstance(v, ps.Process):
        return ["proc", v.pid]
    if isinstance(v, tuple):
        return ["tuple", len(v)]
    if isinstance(v, list):
        return ["list", len(v)]
    return ["unknown", type(v).__name__]


def asdict_shape(d):
    """[asdict, number of keys, names that got ad_value, names whose stored value is an exception OBJECT]"""
    return ["asdict", len(d), sorted(k for k, v in d.items() if v is AD),
            sorted(k for k, v in d.items() if isinstance(v, BaseException))]


def asdict_vals(ps, d):
    """[name, shape] of every stored value that is not ad_value: each must be the documented result of `name`"""
    return [[k, shape(ps, v)] for k, v in sorted(d.items()) if v is not AD]


def do_call(ps, proc, call):
    """Execute one call; every exception is an observable."""
    m = call["method"]
    try:
        if m == "rlimit":
            v = proc.rlimit(ps.RLIMIT_NOFILE)
        elif m == "as_dict":
            d = proc.as_dict(attrs=call["attrs"], ad_value=AD)
            return {"kind": "ok", "shape": asdict_shape(d), "vals": asdict_vals(ps, d)}
        elif m == "as_dict_all":
            # the DEFAULT form: attrs=None means every name of _as_dict_attrnames (call["attrs"] = that set's iteration
            # order, for the model only); `variant` "empty" passes attrs=[] (`ls = attrs or valid_names`: the same)
            d = proc.as_dict(attrs=[], ad_value=AD) if call.get("variant") == "empty" else proc.as_dict(ad_value=AD)
            return {"kind": "ok", "shape": asdict_shape(d), "vals": asdict_vals(ps, d)}
        elif m == "process_iter":
            ps._pmap = {}
            ls = list(ps.process_iter(attrs=call["attrs"], ad_value=AD))
            return {"kind": "ok", "shape": ["iter", [[p.pid] + asdict_shape(p.info)[1:] for p in ls]],
                    "vals": [x for p in ls for x in asdict_vals(ps, p.info)]}
        elif m == "children":
            return {"kind": "ok", "shape": ["procs", [c.pid for c in proc.children()]]}
        elif m == "children_recursive":
            return {"kind": "ok", "shape": ["procs", [c.pid for c in proc.children(recursive=True)]]}
        elif m == "parents":
            return {"kind": "ok", "shape": ["procs", [c.pid for c in proc.parents()]]}
        elif m == "connections":
            with warnings.catch_warnings():
                warnings.simplefilter("ignore", DeprecationWarning)
                v = proc.connections()
        elif m == "memory_maps_flat":
            v = proc.memory_maps(grouped=False)
        elif m == "pid":
            v = proc.pid
        else:
            v = getattr(proc, m)()
        return {"kind": "ok", "shape": shape(ps, v)}
    except BaseException as e:  # noqa: BLE001
        if isinstance(e, (KeyboardInterrupt, SystemExit, InfraError)):
            raise
        pid = getattr(e, "pid", None)
        return {"kind": "exc", "exc": type(e).__name__, "pid": pid if isinstance(pid, int) else None}


def attr_order(attrs):
    """the order in which as_dict iterates `set(attrs)` in this interpreter — as a FIXED POINT: as_dict builds its own
    set from the list it is given, and the iteration order of a set depends on the insertion order when hashes collide"""
    cur = list(set(attrs))
    for _ in range(16):
        nxt = list(set(cur))
        if nxt == cur:
            break
        cur = nxt
    return cur


GETTERS_SKIP = {"pid"}
DOUBLE_METHODS = ("exe", "cwd", "threads", "open_files", "memory_full_info", "net_connections", "children",
                  "parent", "name", "cmdline", "memory_maps", "environ", "rlimit", "ppid", "is_running",
                  "children_recursive", "parents", "connections")
EXTRA = ["is_running", "children", "parent", "rlimit", "children_recursive", "parents", "connections"]
TREE_METHODS = ("children", "children_recursive", "parent", "parents", "ppid")
ASDICT_SETS = [
    ["pid", "name", "status", "ppid", "cmdline"],
    ["exe", "cwd", "num_fds", "memory_maps", "environ", "threads", "memory_full_info", "username", "cpu_times"],
]


def calls_for(ps, tier, all_attrs=True):
    names = sorted(ps._as_dict_attrnames)
    calls = [{"method": n} for n in names] + [{"method": n} for n in EXTRA]
    for a in ASDICT_SETS:
        calls.append({"method": "as_dict", "attrs": attr_order(a)})
    if all_attrs:
        calls.append({"method": "as_dict", "attrs": list(ps._as_dict_attrnames)})
        # as_dict() / as_dict(attrs=None) and as_dict(attrs=[]): the default form (NotImplementedError clause skips)
        calls.append({"method": "as_dict_all", "attrs": list(ps._as_dict_attrnames)})
        calls.append({"method": "as_dict_all", "attrs": list(ps._as_dict_attrnames), "variant": "empty"})
    calls.append({"method": "process_iter", "attrs": attr_order(["pid", "name", "status", "ppid"])})
    return calls


# ------------------------------------------------------------------------------ plans

def single_plans(trace):
    out = []
    for k, acc in enumerate(trace):
        out.append({"switch": [[k, "gone"]]})
        out.append({"switch": [[k, "zombie"]]})
        if scoped(acc):
            out.append({"deny": [[k, "EACCES"]]})
            out.append({"deny": [[k, "EPERM"]]})
    return out


def double_plans(plan, trace):
    """second fault after the first one, on the trace of the run with the first fault:
    (deny i, gone j>i) [the property's two-fault sequences], (deny i, zombie j>i),
    (zombie i, gone j>i), (zombie i, deny j>i) [admissible plans the theorems also cover]"""
    out = []
    if "deny" in plan:
        i = plan["deny"][0][0]
        for j in range(i + 1, len(trace)):
            out.append({"deny": plan["deny"], "switch": [[j, "gone"]]})
            out.append({"deny": plan["deny"], "switch": [[j, "zombie"]]})
    elif plan["switch"][0][1] == "zombie":
        i = plan["switch"][0][0]
        for j in range(i + 1, len(trace)):
            out.append({"switch": [[i, "zombie"], [j, "gone"]]})
            if scoped(trace[j]):
                out.append({"switch": [[i, "zombie"]], "deny": [[j, "EACCES"]]})
    return out


def scoped(acc):
    kind, _, rest = acc.partition(" ")
    if kind == "native":
        return True
    return rest.split("/")[0].isdigit()


def plan_family(plan):
    sw = [s for _, s in plan.get("switch", [])]
    d = bool(plan.get("deny"))
    if not sw and not d:
        return "none"
    if d and sw:
        first_deny = plan["deny"][0][0] < plan["switch"][0][0]
        return ("deny+" + "+".join(sw)) if first_deny else ("+".join(sw) + "+deny")
    if d:
        return "deny"
    return "+".join(sw)


# ------------------------------------------------------------------------------ comparison

GONE_NSP_EXEMPT = {"pid", "create_time", "is_running", "as_dict", "process_iter"}
FINDING_PARENTS = "C03-parents-foreign-pid"


def in_parents_region(inp, out, spec):
    """region of the known finding: parents() raising a psutil error that carries the pid of another
    listed process (an ancestor it was walking through) instead of the object's own pid"""
    if inp["call"]["method"] != "parents" or out.get("kind") != "exc" or not spec.get("ok_any"):
        return False
    others = [p["pid"] for p in inp["world"]["procs"] if p["pid"] != inp["world"]["target"]]
    return out.get("exc") in ("NoSuchProcess", "AccessDenied") and out.get("pid") in others and bool(inp["plan"].get("deny"))


def is_property_plan(plan):
    """one of the property's four plan shapes (Spec.PropertyPlan): vanishAt k, zombieFrom k, denyAt k, denyAt i then
    vanishAt j>i — the quantifier of the clause "the class matches the cause" (Spec.Cause)"""
    sw, dn = plan.get("switch", []), plan.get("deny", [])
    if len(dn) > 1 or len(sw) > 1 or (not sw and not dn):
        return False
    if dn and sw:
        return sw[0][1] == "gone" and dn[0][0] < sw[0][0]
    return True


FINDING_PROBE = "C03-denied-probe-reads-as-reuse"
PROBE_METHODS = ("ppid", "children", "children_recursive", "parent", "parents", "as_dict", "as_dict_all")


def in_probe_region(inp, out, trace):
    """region of the known finding: a query that goes through _raise_if_pid_reused() raises NoSuchProcess(own pid)
    although the process was not gone at any access the call made — the plan refuses ONE access to /proc/<pid>/stat
    (the identity probe `Process(self.pid)` inside is_running(): _init swallows AccessDenied, _ident = (pid, None),
    __eq__ says different, `_pid_reused`)"""
    call, plan = inp["call"], inp["plan"]
    if call["method"] not in PROBE_METHODS or not plan.get("deny"):
        return False
    if call["method"].startswith("as_dict") and "ppid" not in call.get("attrs", []):
        return False
    T = inp["world"]["target"]
    if not (out.get("kind") == "exc" and out.get("exc") == "NoSuchProcess" and out.get("pid") == T):
        return False
    if any(st == "gone" and k < len(trace) for k, st in plan.get("switch", [])):
        return False
    i = plan["deny"][0][0]
    return i < len(trace) and trace[i] in ("open %d/stat" % T, "read %d/stat" % T)


def line_for(call, plan, impl, ntrace=None):
    attrs = call.get("attrs", [])
    if call["method"] in ("as_dict", "process_iter"):
        # as_dict builds `set(attrs)` from the list it is GIVEN and iterates that: the model gets exactly that order
        # (list(set(.)) need not be idempotent when hashes collide, so `attr_order` alone does not guarantee it)
        attrs = list(set(attrs))
    d = {"op": "run", "method": call["method"], "attrs": attrs, "plan": plan, "impl": impl}
    if ntrace is not None and is_property_plan(plan) and call["method"] != "process_iter":
        d["cause_k1"] = ntrace
    return d


class Batch:
    """collects (world, call, plan, impl outcome, impl trace) and compares with the driver in bulk"""

    def __init__(self, ctx, res):
        self.ctx = ctx
        self.res = res
        self.items = []
        self.lines = 0
        self.known = set(f.get("id") for f in (ctx.findings or []))

    def add(self, bw, call, plan, out, trace, unknown, later=None):
        self.items.append((bw.spec, call, plan, out, trace, unknown, later))

    def flush(self):
        if not self.items:
            return
        lines = []
        cur = None
        idx = []
        for spec, call, plan, out, trace, unknown, later in self.items:
            if spec is not cur:
                lines.append(dict(spec, op="world"))
                cur = spec
            idx.append(len(lines))
            lines.append(line_for(call, plan, out, len(trace)))
        outs = self.ctx.driver().batch(lines)
        self.lines += len(lines)
        for (spec, call, plan, out, trace, unknown, later), i in zip(self.items, idx):
            m = outs[i]
            inp = {"world": spec, "call": call, "plan": plan}
            if "bad" in m:
                raise InfraError("driver rejected %r: %s" % (lines[i], m))
            judge(self.res, inp, out, trace, unknown, later, m, self.known)
        self.items = []


def judge(res, inp, out, trace, unknown, later, m, known=()):
    call, plan = inp["call"], inp["plan"]
    fam = plan_family(plan)
    res.count("plan:" + fam)
    res.count("method:" + call["method"])
    res.count("impl:" + (out["exc"] if out["kind"] == "exc" else "value"))
    res.count("trace_len", len(trace))
    nprobe = sum(1 for t in trace if "/map/" in t)
    if nprobe:
        # the stat of a mapping's backing path (outside procfs) performed by the REAL code, and how often it was the refused access
        res.count("maps_probe_accesses", nprobe)
        if any(i < len(trace) and "/map/" in trace[i] for i, _ in plan.get("deny", [])):
            res.count("maps_probe_refused:" + call["method"])
    res.case((inp["world"]["target"], json.dumps(inp["world"], sort_keys=True), json.dumps(call), json.dumps(plan)),
             nontrivial=(fam != "none"),
             sample={"call": call, "plan": plan, "impl": out, "trace": trace} if fam in ("deny+gone", "zombie") and len(trace) > 4 else None)
    spec = m["spec"]
    if spec.get("value") is not None:
        res.count("value_checked")                 # Spec.WellFormed decided in Lean on the object the REAL call returned
        res.count("value_checked:" + fam)
    if spec.get("value") is False:
        res.count("value_illformed:" + call["method"])
    if not spec["ok"]:
        fid = FINDING_PARENTS if (FINDING_PARENTS in known and in_parents_region(inp, out, spec)) else None
        if spec.get("value") is False:
            note = ("%s under %s RETURNED %s: not the documented result of the call (an exception object / a value of another "
                    "type handed back instead of raised)" % (call["method"], json.dumps(plan), json.dumps(out)))
        else:
            note = "%s under %s leaks %s" % (call["method"], json.dumps(plan), json.dumps(out))
        res.disagree("spec", inp, out, m["model"], {"ok": "well-formed value of %s or NoSuchProcess/ZombieProcess/AccessDenied(pid=%d)" % (call["method"], inp["world"]["target"])},
                     note=note, finding=fid)
        if fid is None:
            return
        # inside the region of the known finding: still require model == implementation below
        res.known_seen[fid] = res.known_seen.get(fid, 0) + 1
    if spec.get("gone_nsp") is False:
        res.disagree("spec", inp, out, m["model"], {"gone": "NoSuchProcess(pid)"},
                     note="process gone before the call but %s did not raise NoSuchProcess" % call["method"])
        return
    if spec.get("cause") is not None:
        res.count("cause_checked")
    if spec.get("cause") is False and spec["ok"]:
        fid = FINDING_PROBE if (FINDING_PROBE in known and in_probe_region(inp, out, trace)) else None
        res.disagree("spec", inp, out, m["model"],
                     {"cause": "NoSuchProcess only if gone at one of the call's accesses, ZombieProcess only if a zombie at one, "
                               "AccessDenied only if one was refused"},
                     note="%s under %s raised %s over %d accesses, at none of which that was the state of the process"
                          % (call["method"], json.dumps(plan), json.dumps(out), len(trace)), finding=fid)
        if fid is None:
            return
        res.known_seen[fid] = res.known_seen.get(fid, 0) + 1
    # the lowest-PID stop of parent() (guarded since /repo d7107b4: fact parentRootStop, model Fe.rootStop): how often the
    # REAL code took it, on the object itself and on an ancestor object that parents() reached
    low_pid = min(p["pid"] for p in inp["world"]["procs"])
    if call["method"] in ("parent", "parents"):
        if inp["world"]["target"] == low_pid:
            res.count("root_stop:own:" + fam)
        elif call["method"] == "parents" and trace.count("open %d/stat" % low_pid) >= 2:
            res.count("root_stop:ancestor:" + fam)
    # (until d7107b4 parent()/parents() of the lowest pid were exempt here: the stop answered None from the cached
    # _LOWEST_PID for a process that no longer exists; the guarded stop raises NoSuchProcess like every other query)
    if later is not None and call["method"] not in GONE_NSP_EXEMPT:
        if not (later["kind"] == "exc" and later["exc"] == "NoSuchProcess" and later["pid"] == inp["world"]["target"]) \
                and not (call["method"] == "exe" and later["kind"] == "ok"):
            res.disagree("spec", dict(inp, later=True), later, None, {"gone": "NoSuchProcess(pid)"},
                         note="second %s() on the same object after the process is gone gave %s" % (call["method"], json.dumps(later)))
            return
    if unknown:
        res.disagree("model", inp, {"unknown_access": unknown}, m["model"], None,
                     note="an OS access of a kind the model does not know")
        return
    if {k: v for k, v in out.items() if k != "vals"} != m["model"]:
        res.disagree("model", inp, out, m["model"], spec, note="outcome differs from the Lean model")
        return
    if trace != m["trace"]:
        res.disagree("model", inp, {"trace": trace}, {"trace": m["trace"]}, spec,
                     note="same outcome but a different access trace (model drift)")


# ------------------------------------------------------------------------------ histories on one object

HIST_NAMES = ["is_running", "children", "ppid", "name", "exe", "cmdline", "status", "username", "cwd", "nice", "uids",
              "gids", "terminal", "num_fds", "io_counters", "ionice", "cpu_affinity", "cpu_num", "environ",
              "num_ctx_switches", "num_threads", "threads", "cpu_times", "cpu_percent", "memory_info",
              "memory_full_info", "memory_percent", "memory_maps", "open_files", "net_connections",
              "children_recursive", "connections"]
# the calls whose behaviour depends on the object's _gone / _pid_reused / _exe attributes come up more often
HIST_FLAGGED = ["is_running", "ppid", "children", "children_recursive", "exe"]
FIXED_HISTORIES = [
    ["children", "name", "is_running", "is_running", "ppid"],
    ["is_running", "ppid", "children", "children_recursive", "exe", "is_running"],
    ["exe", "exe", "cwd", "exe"],
    ["ppid", "ppid", "is_running", "children"],
    ["threads", "open_files", "net_connections", "memory_full_info", "is_running"],
]


def random_history(rng):
    n = rng.randint(2, 5)
    return [rng.choice(HIST_FLAGGED) if rng.random() < 0.5 else rng.choice(HIST_NAMES) for _ in range(n)]


def hist_gone_from(plan, ntrace):
    """the index from which the process is gone and nothing is refused any more (None: never within the plan)"""
    g = [k for k, st in plan.get("switch", []) if st == "gone"]
    if not g:
        return None
    k0 = min(g)
    for i, _ in plan.get("deny", []):
        k0 = max(k0, i + 1)
    return k0


def hist_plans(trace):
    """vanish at EVERY index of the fault-free history (also in the middle of a call), zombie-then-gone, and a
    refused access before the vanish point (sets `_pid_reused` when it hits is_running())"""
    out = []
    n = len(trace)
    for k in range(n + 1):
        out.append({"switch": [[k, "gone"]]})
    for k in range(0, n, 3):
        out.append({"switch": [[k, "zombie"], [min(n, k + 2), "gone"]]})
    for i in range(0, n, 2):
        if scoped(trace[i]):
            out.append({"deny": [[i, "EACCES"]], "switch": [[min(n, i + 3), "gone"]]})
    return out


def hist_line(names, plan, outs, k0):
    return {"op": "hist", "methods": names, "plan": plan, "gone_from": k0, "impls": outs}


def judge_history(res, inp, outs, starts, trace, unknown, m):
    names, plan = inp["history"], inp["plan"]
    res.count("family:history")
    res.count("hist_plan:" + plan_family(plan))
    res.count("hist_len", len(names))
    res.case((inp["world"]["target"], json.dumps(inp["world"], sort_keys=True), json.dumps(names), json.dumps(plan)),
             nontrivial=bool(plan), sample={"history": names, "plan": plan, "impl": outs, "starts": starts}
             if len(names) >= 4 and plan.get("deny") else None)
    spec = m["spec"]
    after = 0
    for i, (nm, o) in enumerate(zip(names, outs)):
        if not spec["ok"][i]:
            res.disagree("spec", dict(inp, index=i), o, m["models"][i],
                         {"ok": "value or NoSuchProcess/ZombieProcess/AccessDenied(pid=%d)" % inp["world"]["target"]},
                         note="call %d (%s) of the history %s under %s leaks %s" % (i, nm, names, json.dumps(plan), json.dumps(o)))
            return
        ga = spec["gone_answer"][i]
        if ga is not None:
            after += 1
        if ga is False and not (nm == "exe" and o["kind"] == "ok" and any(
                n2 == "exe" and o2["kind"] == "ok" for n2, o2 in list(zip(names, outs))[:i])):
            # (a memoised successful exe() is the documented exemption — and the model must agree below)
            res.disagree("spec", dict(inp, index=i), o, m["models"][i], {"gone": "NoSuchProcess(pid) / is_running() False"},
                         note="call %d (%s) of the history %s started at access %d, after the process was gone (from %s), "
                              "and answered %s" % (i, nm, names, starts[i], inp.get("gone_from"), json.dumps(o)))
            return
    res.count("hist_calls_after_gone", after)
    if unknown:
        res.disagree("model", inp, {"unknown_access": unknown}, m["models"], None,
                     note="an OS access of a kind the model does not know")
        return
    if outs != m["models"] or starts != m["starts"]:
        res.disagree("model", inp, {"outs": outs, "starts": starts}, {"outs": m["models"], "starts": m["starts"]}, spec,
                     note="history outcomes / call start indices differ from the Lean history model")
        return
    if trace != m["trace"]:
        res.disagree("model", inp, {"trace": trace}, {"trace": m["trace"]}, spec,
                     note="same outcomes but a different access trace over the history (model drift)")


def run_history_input(ctx, bw, names, plan):
    calls = [{"method": n} for n in names]
    outs, starts, trace, unk = bw.run_history(calls, plan)
    return outs, starts, trace, unk


def explore_histories(ctx, res, bw, histories):
    items, lines = [], [dict(bw.spec, op="world")]
    for names in histories:
        outs, starts, trace, unk = run_history_input(ctx, bw, names, {})
        plans = [{}] + hist_plans(trace)
        for plan in plans:
            if plan:
                outs, starts, trace, unk = run_history_input(ctx, bw, names, plan)
            k0 = hist_gone_from(plan, len(trace))
            items.append((names, plan, k0, outs, starts, trace, unk))
            lines.append(hist_line(names, plan, outs, k0))
    ms = ctx.driver().batch(lines)[1:]
    for (names, plan, k0, outs, starts, trace, unk), m in zip(items, ms):
        if "bad" in m:
            raise InfraError("driver rejected a history %r: %s" % (names, m))
        judge_history(res, {"world": bw.spec, "history": names, "plan": plan, "gone_from": k0}, outs, starts, trace, unk, m)
    return len(items)


# ------------------------------------------------------------------------------ two refused accesses (characterisation)

# Outside the property's quantifier ("access k alone is refused"): what happens when TWO accesses of one call are
# refused. Props/C03.lean `C03_two_denials_table` names, per modelled method, either a concrete two-denial plan on
# world 0 that leaks (replayed here on the real code) or the bounded claim "no pair of refusals leaks on world 0".
# These are characterisations of the code as it is, NOT findings.
_D2 = lambda i, j: [[i, "EACCES"], [j, "EACCES"]]
TWO_DENIAL_LEAKS = {   # method: (world, plan, [exception class, pid]) — the entries of `twoDenialLeaks` in Props/C03.lean
    "exe": ("w0", {"switch": [[0, "zombie"]], "deny": _D2(1, 2)}, ["FileNotFoundError", None]),
    "cwd": ("w0", {"switch": [[0, "zombie"]], "deny": _D2(1, 2)}, ["FileNotFoundError", None]),
    "parent": ("w0", {"deny": _D2(5, 6)}, ["AccessDenied", 101]),
    "parents": ("w0", {"deny": _D2(5, 6)}, ["AccessDenied", 101]),
    "children": ("wc", {"deny": _D2(9, 11)}, ["AccessDenied", 105]),
    "children_recursive": ("wc", {"deny": _D2(9, 11)}, ["AccessDenied", 105]),
}


def two_denial_world(key):
    if key == "w0":
        return fixed_worlds()[0]
    return {"target": 101, "procs": [mk_proc(50, 0, 10), mk_proc(101, 50, 50), mk_proc(105, 101, 100)]}
TWO_DENIAL_LIVES = ("alive", "zombie")


def two_denial_plans(life, trace):
    sw = [] if life == "alive" else [[0, life]]
    idx = [k for k, a in enumerate(trace) if scoped(a)]
    out = []
    for a in range(len(idx)):
        for b in range(a + 1, len(idx)):
            out.append({"switch": sw, "deny": [[idx[a], "EACCES"], [idx[b], "EACCES"]]} if sw else
                       {"deny": [[idx[a], "EACCES"], [idx[b], "EACCES"]]})
    return out


def explore_two_denials(ctx, res, bw, calls, max_trace=14):
    """every pair of refused accesses (on the trace of the run with the first one refused) for every call, alive
    and zombie; model == implementation is REQUIRED (outcome + trace); a non-OK outcome is recorded, and must be one
    of the methods the Lean table lists as leaking"""
    items, lines = [], [dict(bw.spec, op="world")]
    for call in calls:
        for life in TWO_DENIAL_LIVES:
            base = {} if life == "alive" else {"switch": [[0, life]]}
            _, t0, _, _ = bw.run(call, base)
            if len(t0) > max_trace:
                continue
            seen = set()
            for i, a in enumerate(t0):
                if not scoped(a):
                    continue
                p1 = dict(base, deny=[[i, "EACCES"]])
                _, t1, _, _ = bw.run(call, p1)
                for j in range(i + 1, len(t1)):
                    if not scoped(t1[j]):
                        continue
                    plan = dict(base, deny=[[i, "EACCES"], [j, "EACCES"]])
                    key = json.dumps(plan)
                    if key in seen:
                        continue
                    seen.add(key)
                    out, tr, unk, _ = bw.run(call, plan)
                    items.append((call, plan, out, tr, unk))
                    lines.append(line_for(call, plan, out))
    ms = ctx.driver().batch(lines)[1:]
    leaks = res.extra.setdefault("two_denial_leaks", {})
    for (call, plan, out, tr, unk), m in zip(items, ms):
        inp = {"world": bw.spec, "call": call, "plan": plan, "two_denials": True}
        if "bad" in m:
            raise InfraError("driver rejected %r: %s" % (plan, m))
        res.count("family:two_denials")
        res.count("two_denials_world_nprocs:%d" % len(bw.spec["procs"]))
        res.case((bw.spec["target"], json.dumps(bw.spec, sort_keys=True), json.dumps(call), json.dumps(plan)), nontrivial=True)
        if unk:
            res.disagree("model", inp, {"unknown_access": unk}, m["model"], None, note="an OS access of a kind the model does not know")
            continue
        if out != m["model"] or tr != m["trace"]:
            res.disagree("model", inp, {"out": out, "trace": tr}, {"out": m["model"], "trace": m["trace"]}, m["spec"],
                         note="two refused accesses: outcome / trace differs from the Lean model")
            continue
        if not m["spec"]["ok"]:
            name = call["method"]
            res.count("two_denials_leak:%s:%s" % (name, out.get("exc")))
            leaks.setdefault(name, {"plan": plan, "out": out, "world_target": bw.spec["target"], "nprocs": len(bw.spec["procs"])})
            if name not in TWO_DENIAL_LEAKS:
                res.disagree("model", inp, out, m["model"], m["spec"],
                             note="characterisation drift: %s leaks %s under two refused accesses but C03_two_denials_table "
                                  "lists it as not leaking on this world" % (name, json.dumps(out)))
    return len(items)


def replay_two_denial_table(ctx, res):
    """each leaking plan of the Lean table on the real code: same outcome + trace as the model, and not OK"""
    for key in ("w0", "wc"):
        bw = BuiltWorld(ctx.psutil, two_denial_world(key))
        try:
            lines, items = [dict(bw.spec, op="world")], []
            for name, (wk, plan, expect) in sorted(TWO_DENIAL_LEAKS.items()):
                if wk != key:
                    continue
                call = {"method": name}
                out, tr, unk, _ = bw.run(call, plan)
                items.append((call, plan, out, tr, expect))
                lines.append(line_for(call, plan, out))
            ms = ctx.driver().batch(lines)[1:]
            for (call, plan, out, tr, expect), m in zip(items, ms):
                inp = {"world": bw.spec, "call": call, "plan": plan, "two_denials": True}
                res.count("two_denials_table_replayed")
                res.case((bw.spec["target"], json.dumps(bw.spec, sort_keys=True), json.dumps(call), json.dumps(plan)), nontrivial=True)
                got = [out.get("exc"), out.get("pid")] if out["kind"] == "exc" else ["value", None]
                if "bad" in m or out != m["model"] or tr != m["trace"] or m["spec"]["ok"] or got != list(expect):
                    res.disagree("model", inp, out, m.get("model"), m.get("spec"),
                                 note="two-denial table entry for %s does not replay on the real code: expected %s, got %s (model %s)"
                                      % (call["method"], expect, json.dumps(out), json.dumps(m.get("model"))))
        finally:
            bw.close()


# ------------------------------------------------------------------------------ family `maps` / lazily evaluated results

MAPS_CALLS = [{"method": "memory_maps"}, {"method": "memory_maps_flat"},
              {"method": "as_dict", "attrs": ["memory_maps", "pid"]},
              {"method": "as_dict", "attrs": ["memory_full_info", "memory_maps", "exe"]},
              {"method": "process_iter", "attrs": ["pid", "memory_maps"]}]
MAPS_HISTORIES = [["memory_maps", "is_running", "memory_maps"], ["memory_full_info", "memory_maps", "exe", "memory_maps"]]


def maps_world(kinds, other=None, T=105):
    return {"target": T, "family": "maps",
            "procs": [mk_proc(101, 1, 50, maps=other), mk_proc(T, 101, 100, maps=kinds)]}


def maps_structured_worlds():
    """every kind next to every other, the probe first / last / twice in a row, another process with probes of its own
    (process_iter visits it), an empty record"""
    return [maps_world(["file", "deleted", "anon", "literal"]),
            maps_world(["deleted", "deleted", "literal", "literal", "file", "deleted"], other=["literal", "deleted"]),
            maps_world(["anon", "anon", "file", "deleted"], other=[]),
            maps_world([], other=["deleted"])]


def maps_exhaustive_worlds(nmax=2):
    """every sequence of mapping kinds of length <= nmax"""
    seqs = [[]]
    out = []
    for _ in range(nmax):
        seqs = [q + [k] for q in seqs for k in MAP_KINDS]
        out += seqs
    return [maps_world(q) for q in out]


def explore_maps_family(ctx, res, batch):
    """family `maps`: the per-mapping probe of memory_maps() — an os.stat OUTSIDE procfs per ' (deleted)' name — as a
    fault point, through memory_maps(), memory_maps(grouped=False), as_dict and process_iter; structured worlds (every
    single + double fault, histories), random worlds, and every kind sequence of length <= 2 (single faults)"""
    ps = ctx.psutil
    thorough = ctx.tier == "thorough"
    total = 0
    worlds = [(w, "structured") for w in maps_structured_worlds()]
    worlds += [(maps_world(random_maps(ctx.rng, 7) or ["deleted"], other=random_maps(ctx.rng, 3)), "random")
               for _ in range(ctx.n(2, 10) if ctx.budget_factor == 1 else 6)]
    worlds += [(w, "exhaustive") for w in maps_exhaustive_worlds(3 if thorough else 2)]
    for wi, (spec, sub) in enumerate(worlds):
        bw = BuiltWorld(ps, spec)
        try:
            calls = MAPS_CALLS if sub != "exhaustive" else MAPS_CALLS[:3]
            n = explore_world(ctx, res, bw, calls, sub == "structured" or thorough, batch)
            res.count("family:maps", n)
            res.count("family:maps:" + sub, n)
            res.count("maps_kinds:" + ",".join(spec["procs"][1]["maps"]) if sub != "random" else "maps_kinds:<random>")
            total += n
            if sub == "structured" and wi < 2:
                batch.flush()       # (single calls are judged first: the replay then names a single call)
                total += explore_histories(ctx, res, bw, MAPS_HISTORIES)
        finally:
            bw.close()
        batch.flush()
    return total


# ------------------------------------------------------------------------------ family `transition` (seeded round 5, C03-5)

# front-end methods with a fallback / handler of their OWN around the platform call (exe -> guess_it -> cmdline, name ->
# cmdline, status, username -> uids + pwd, cwd, ppid / parent through the identity probe) and the plain reads they fall back to
FALLBACK_METHODS = ("exe", "name", "username", "cwd", "status", "cmdline", "terminal", "ppid", "parent", "environ")
TRANSITION_DICTS = [
    {"method": "as_dict", "attrs": ["exe"]},
    {"method": "as_dict", "attrs": ["exe", "name", "username", "cwd"]},
    {"method": "as_dict", "attrs": ["name", "status", "cmdline", "exe", "pid"]},
    {"method": "process_iter", "attrs": ["pid", "exe", "name"]},
]


def transition_worlds():
    """the fallbacks take different branches: short / long name (name() consults cmdline), cmdline[0] an executable
    absolute path or not (guess_it succeeds or falls through to `fallback`)"""
    T = 105
    out = []
    for long in (False, True):
        for guess in (False, True):
            out.append({"target": T, "family": "transition",
                        "procs": [mk_proc(101, 1, 50), mk_proc(T, 101, 100, long=long, guess=guess)]})
    return out


def transition_triples(bw, call, errnos=("EACCES",), step=1, lmax=None):
    """EVERY (refusal at i) x (alive -> zombie at j) x (zombie -> gone at l > j), i and j in any order: the refusal is
    placed on the fault-free trace, the zombie switch on the trace of the run with the refusal, the vanish on the
    trace of the run with both (so every index means an access the REAL code performs under the faults so far).
    Yields (plan, outcome, trace, unknown)."""
    base_out, base_trace, _, _ = bw.run(call, {})
    for i, acc in enumerate(base_trace):
        if not scoped(acc) or i % step:
            continue
        for e in errnos:
            d = {"deny": [[i, e]]}
            _, t1, _, _ = bw.run(call, d)
            for j in range(0, len(t1)):
                p2 = dict(d, switch=[[j, "zombie"]])
                o2, t2, u2, _ = bw.run(call, p2)
                yield p2, o2, t2, u2                # (zombie first, refusal later) and (refusal, then zombie) pairs
                ls = range(j + 1, len(t2) + 1)
                if lmax is not None:
                    ls = [x for x in ls if x - j <= lmax or x == len(t2)]
                for l in ls:
                    p3 = dict(d, switch=[[j, "zombie"], [l, "gone"]])
                    o3, t3, u3, _ = bw.run(call, p3)
                    yield p3, o3, t3, u3


def random_triple(rng, trace):
    n = len(trace)
    scoped_idx = [k for k, a in enumerate(trace) if scoped(a)]
    if not scoped_idx or n < 2:
        return None
    i = rng.choice(scoped_idx)
    j = rng.randrange(0, n)
    l = rng.randrange(j + 1, n + 2)
    return {"deny": [[i, rng.choice(["EACCES", "EPERM"])]], "switch": [[j, "zombie"], [l, "gone"]]}


def explore_transition_family(ctx, res, batch):
    """family `transition`: ONE refused access combined with the process going alive -> zombie -> gone at LATER (or
    earlier) accesses of the same call, for the front-end methods with nested fallbacks and for as_dict / process_iter
    over them. exhaustive: every triple for every fallback method on the four (long, guess) two-process worlds;
    structured: the dict / iterator calls on the same worlds (vanish within 2 accesses of the zombie switch, or at the
    end) and the fallback methods on the richer fixed worlds 1, 2, 4; random: random triples for random calls on random
    worlds. Every outcome's VALUE is judged by Spec.WellFormed in Lean (`value_checked`)."""
    ps = ctx.psutil
    thorough = ctx.tier == "thorough"
    total = 0

    def feed(bw, call, gen, sub):
        n = 0
        for plan, out, trace, unk in gen:
            batch.add(bw, call, plan, out, trace, unk)
            n += 1
        res.count("family:transition", n)
        res.count("family:transition:" + sub, n)
        res.count("transition_call:" + call["method"], n)
        return n

    for spec in transition_worlds():
        bw = BuiltWorld(ps, spec)
        try:
            for m in FALLBACK_METHODS:
                total += feed(bw, {"method": m}, transition_triples(bw, {"method": m}, errnos=("EACCES", "EPERM") if thorough else ("EACCES",)), "exhaustive")
            for call in TRANSITION_DICTS:
                call = dict(call, attrs=attr_order(call["attrs"]))
                quick_l = 1 if call["method"] == "process_iter" else 2
                total += feed(bw, call, transition_triples(bw, call, step=1 if thorough else 2, lmax=None if thorough else quick_l), "structured")
        finally:
            bw.close()
        batch.flush()
    fixed = fixed_worlds()
    for wi in (1, 2, 4):
        bw = BuiltWorld(ps, dict(fixed[wi], family="transition"))
        try:
            for m in FALLBACK_METHODS[:6]:
                total += feed(bw, {"method": m}, transition_triples(bw, {"method": m}, lmax=None if thorough else 3), "structured")
        finally:
            bw.close()
        batch.flush()
    for _ in range(ctx.n(2, 8) if ctx.budget_factor == 1 else 6):
        spec = dict(random_world(ctx.rng), family="transition")
        bw = BuiltWorld(ps, spec)
        try:
            calls = calls_for(ps, ctx.tier, all_attrs=False)
            for _ in range(ctx.n(40, 200) if ctx.budget_factor == 1 else 120):
                call = ctx.rng.choice(calls)
                _, base_trace, _, _ = bw.run(call, {})
                plan = random_triple(ctx.rng, base_trace)
                if plan is None:
                    continue
                out, trace, unk, _ = bw.run(call, plan)
                total += feed(bw, call, [(plan, out, trace, unk)], "random")
        finally:
            bw.close()
        batch.flush()
    return total


def lazy_fact(ctx):
    """the value of the fact `lazyBodies` the model of THIS run was built with (Generated/C03.lean, written by the
    translator at the start of the run); None when it cannot be read (then the translator already reported it)"""
    import re
    try:
        with _REAL["open"](os.path.join(extract.GEN_DIR, "C03.lean"), "r", encoding="utf-8") as f:
            txt = f.read()
    except OSError:
        return None
    m = re.search(r"def lazyBodies : List String :=\s*\[(.*?)\]", txt, re.S)
    if not m:
        return None
    return re.findall(r'"([^"]*)"', m.group(1))


def probe_lazy_results(ctx, res):
    """the runtime side of the fact `lazyBodies`: on a fault-free world call every zero-argument method of the platform
    object that carries @wrap_exceptions and ask whether the RESULT is its own iterator (generator, map, filter, zip,
    itertools… — anything whose evaluation is deferred to the consumer); the set must be the one the translator read
    off the source, and the one the model runs with"""
    import inspect
    ps = ctx.psutil
    bw = BuiltWorld(ps, maps_structured_worlds()[0])
    lazy, probed = [], 0
    try:
        proc = ps.Process(bw.target)
        plat = proc._proc
        for name in sorted(dir(type(plat))):
            fn = getattr(type(plat), name, None)
            if not callable(fn) or not hasattr(fn, "__wrapped__") or name.endswith("_set") or name in ("wait", "kill"):
                continue
            try:
                sig = inspect.signature(inspect.unwrap(fn))
            except (TypeError, ValueError):
                continue
            req = [q for q in list(sig.parameters.values())[1:] if q.default is q.empty
                   and q.kind in (q.POSITIONAL_ONLY, q.POSITIONAL_OR_KEYWORD)]
            if req:
                continue
            probed += 1
            try:
                v = getattr(plat, name)()
            except Exception:  # noqa: BLE001
                continue
            try:
                if iter(v) is v:
                    lazy.append(name)
            except TypeError:
                pass
    finally:
        bw.close()
    res.count("lazy_probe_methods", probed)
    res.extra["lazy_results_runtime"] = lazy
    return lazy


def explore_world(ctx, res, bw, calls, doubles, batch, budget=None):
    n = 0
    for call in calls:
        base_out, base_trace, unk, _ = bw.run(call, {})
        batch.add(bw, call, {}, base_out, base_trace, unk)
        n += 1
        for plan in single_plans(base_trace):
            out, trace, unk, later = bw.run(call, plan, again=(plan.get("switch") == [[0, "gone"]] or "switch" in plan))
            batch.add(bw, call, plan, out, trace, unk, later)
            n += 1
            if doubles:
                for p2 in double_plans(plan, trace):
                    o2, t2, u2, _ = bw.run(call, p2)
                    batch.add(bw, call, p2, o2, t2, u2)
                    n += 1
        if len(batch.items) > 3000:
            batch.flush()
        if budget is not None and n > budget:
            break
    return n


def correspond(ctx, res):
    ps = ctx.psutil
    res.rule = ("cases = (world, public method, fault plan); per world and method the fault-free run gives the "
                "implementation's access trace, then EVERY position k gets vanish-at-k, zombie-from-k and (on "
                "per-process accesses) EACCES-at-k / EPERM-at-k; thorough adds every (deny i, vanish j>i) and "
                "(deny i, zombie j>i), (zombie i, gone j>i) and (zombie i, deny j>i) pair; non-trivial = a plan with at least one fault; distinct = distinct "
                "(world, call, plan)")
    bad = c03_faultfs.probe_live_zombie()
    res.extra["live_zombie_table_mismatches"] = bad
    if bad:
        res.notes.append("zombie/gone behaviour table differs from this kernel: %s" % bad[:5])
        res.disagree("model", {"live_kernel": True}, bad, None, None, note="behaviour table does not match the running kernel")
    worlds = fixed_worlds()
    nfixed = len(worlds)
    tree_idx = set(range(nfixed - N_TREE, nfixed))
    thorough = ctx.tier == "thorough" or ctx.budget_factor > 1
    nrand = ctx.n(3, 12)
    for _ in range(nrand):
        worlds.append(random_world(ctx.rng))
    # (not scaled by the search factor: double faults on long traces are quadratic)
    for _ in range(8 if ctx.tier == "thorough" else (4 if ctx.budget_factor > 1 else 2)):
        tree_idx.add(len(worlds))
        worlds.append(random_tree_world(ctx.rng))
    batch = Batch(ctx, res)
    total = 0
    replay_two_denial_table(ctx, res)
    lazy = probe_lazy_results(ctx, res)
    declared = lazy_fact(ctx)
    if declared is not None and sorted(lazy) != sorted(declared):
        res.disagree("model", {"lazy_results": True}, sorted(lazy), sorted(declared), None,
                     note="platform methods whose result is a lazy iterator at run time %s differ from the translator fact "
                          "lazyBodies %s the model runs with" % (sorted(lazy), sorted(declared)))
    total += explore_maps_family(ctx, res, batch)
    total += explore_transition_family(ctx, res, batch)
    for wi, spec in enumerate(worlds):
        bw = BuiltWorld(ps, spec)
        try:
            if wi in tree_idx:
                # family `tree`: the walks over other processes; every single fault, and every double
                # fault on the small cyclic world (quick) / everywhere (thorough)
                calls = [c for c in calls_for(ps, ctx.tier, all_attrs=False) if c["method"] in TREE_METHODS]
                n = explore_world(ctx, res, bw, calls, ctx.tier == "thorough" or wi == nfixed - 1, batch)
                res.count("family:tree", n)
                total += n
                calls = []
            else:
                calls = calls_for(ps, ctx.tier, all_attrs=(wi in (1, 2) or thorough))
            doubles = thorough or wi == 0
            if not thorough and wi in (1, 2):
                # quick tier: all double faults on the smallest world for every call, and on two
                # richer worlds for the methods with handlers / loops of their own
                calls_d = [c for c in calls if c["method"] in DOUBLE_METHODS]
                total += explore_world(ctx, res, bw, calls_d, True, batch)
                doubles = False
                calls = [c for c in calls if c not in calls_d]
            n = explore_world(ctx, res, bw, calls, doubles, batch)
            res.count("family:flat", n)
            total += n
            deep = ctx.tier == "thorough"      # (not in search mode: these families are not where a failing input hides)
            if wi in (0, 1) or (deep and wi < nfixed - N_TREE):
                # family `two_denials` (characterisation, outside the property's quantifier)
                cs = [c for c in calls_for(ps, ctx.tier, all_attrs=False) if c["method"] not in ("as_dict", "process_iter")]
                total += explore_two_denials(ctx, res, bw, cs, max_trace=(14 if not deep else 40) if wi else 60)
            if wi in (0, 1, nfixed - N_TREE) or (deep and wi < nfixed + 3):
                # family `history`: several calls on ONE object, the process vanishing at every index of the history
                hs = list(FIXED_HISTORIES) if wi in (0, 1) else FIXED_HISTORIES[:2]
                hs += [random_history(ctx.rng) for _ in range((30 if deep else 4) if wi == 0 else (10 if deep else 2))]
                total += explore_histories(ctx, res, bw, hs)
        finally:
            bw.close()
        batch.flush()
    res.exhaustive = ("every single fault position (vanish, zombie, EACCES, EPERM) on the implementation's access trace of "
                      "every public method on %d worlds%s" % (len(worlds), "; every deny-then-vanish/zombie, zombie-then-gone/deny pair" if thorough else "; every double fault on the smallest world, for 18 methods on two richer worlds, and for the tree walks on the cyclic tree world"))
    res.extra["driver_lines"] = batch.lines
    res.extra["worlds"] = len(worlds)


def search(ctx, res, broken):
    correspond(ctx, res)


# ------------------------------------------------------------------------------ replay / shrink

def _run_hist_input(ctx, inp):
    bw = BuiltWorld(ctx.psutil, inp["world"])
    try:
        outs, starts, trace, unk = run_history_input(ctx, bw, inp["history"], inp["plan"])
        k0 = hist_gone_from(inp["plan"], len(trace))
        m = ctx.driver().batch([dict(bw.spec, op="world"), hist_line(inp["history"], inp["plan"], outs, k0)])[1]
        return outs, starts, trace, m
    finally:
        bw.close()


def _hist_violates(inp, outs, m):
    if "bad" in m:
        return False
    names = inp["history"]
    for i, (nm, o) in enumerate(zip(names, outs)):
        if not m["spec"]["ok"][i]:
            return True
        if m["spec"]["gone_answer"][i] is False and not (nm == "exe" and o["kind"] == "ok" and any(
                n2 == "exe" and o2["kind"] == "ok" for n2, o2 in list(zip(names, outs))[:i])):
            return True
    return False


def _run_input(ctx, inp):
    ps = ctx.psutil
    bw = BuiltWorld(ps, inp["world"])
    try:
        call = dict(inp["call"])
        out, trace, unk, later = bw.run(call, inp["plan"], again=bool(inp.get("later")))
        m = ctx.driver().batch([dict(bw.spec, op="world"),
                                line_for(call, inp["plan"], later if inp.get("later") else out,
                                         None if inp.get("later") else len(trace))])[1]
        return (later if inp.get("later") else out), trace, m, bw.spec
    finally:
        bw.close()


def _violates(inp, out, m):
    if "bad" in m:
        return False
    if inp.get("later"):
        return not (out["kind"] == "exc" and out["exc"] == "NoSuchProcess")
    return (not m["spec"]["ok"]) or m["spec"].get("gone_nsp") is False or m["spec"].get("cause") is False


def replay(ctx, rp, res):
    inp = rp["input"]
    if "world" not in inp:
        return True
    if "history" in inp:
        outs, starts, trace, m = _run_hist_input(ctx, inp)
        return _hist_violates(inp, outs, m)
    out, trace, m, _ = _run_input(ctx, inp)
    return _violates(inp, out, m)


def KNOWN_IDS(ctx):
    return set(f.get("id") for f in (ctx.findings or []))


def shrink(ctx, d):
    inp = d["input"]
    if "history" in inp:
        # drop calls from the front / the back while the history still violates
        cur = dict(inp)
        changed = True
        while changed and len(cur["history"]) > 1:
            changed = False
            for cand in (cur["history"][1:], cur["history"][:-1]):
                i2 = dict(cur, history=cand)
                i2.pop("index", None)
                try:
                    outs, starts, trace, m = _run_hist_input(ctx, i2)
                except InfraError:
                    continue
                if _hist_violates(i2, outs, m):
                    cur, changed = i2, True
                    break
        if cur is not inp:
            outs, starts, trace, m = _run_hist_input(ctx, cur)
            return dict(d, input=cur, impl=outs, model=m.get("models"), spec=m.get("spec"),
                        note="shrunk history %s under %s gives %s (call starts %s); access trace %s"
                             % (cur["history"], json.dumps(cur["plan"]), json.dumps(outs), starts, trace))
        return d
    if "world" not in inp or inp.get("later"):
        return d
    ps = ctx.psutil
    # smallest worlds first; the call itself, then (for as_dict / process_iter) each named getter on its own; single
    # faults first, then every pair the double-fault generator knows (refusal -> zombie / gone, zombie -> gone / refusal)
    calls = [inp["call"]]
    if inp["call"]["method"] in ("as_dict", "as_dict_all", "process_iter"):
        calls = [{"method": a} for a in inp["call"].get("attrs", []) if a != "pid"][:30] + calls
    cands = fixed_worlds()[:2] + [inp["world"]]
    for depth in (1, 2):
        for spec in cands:
            bw = BuiltWorld(ps, spec)
            try:
                for call in calls:
                    base_out, base_trace, _, _ = bw.run(call, {})
                    plans = single_plans(base_trace)
                    if depth == 2:
                        if len(base_trace) > 12:
                            continue
                        plans = [p2 for p in plans for p2 in double_plans(p, bw.run(call, p)[1])]
                    runs = [(p,) + bw.run(call, p)[:2] for p in plans]
                    lines = [dict(bw.spec, op="world")] + [line_for(call, p, o, len(t)) for p, o, t in runs]
                    outs = ctx.driver().batch(lines)[1:]
                    for (p, o, t), m in zip(runs, outs):
                        i2 = {"world": bw.spec, "call": call, "plan": p}
                        if _violates(i2, o, m) and not in_parents_region(i2, o, m.get("spec", {})) \
                                and not (FINDING_PROBE in KNOWN_IDS(ctx) and in_probe_region(i2, o, t)):
                            return dict(d, input=i2, impl=o, model=m.get("model"), spec=m.get("spec"),
                                        note="shrunk: %s under %s gives %s; access trace %s" % (call["method"], json.dumps(p), json.dumps(o), t))
            finally:
                bw.close()
    return d


def check_finding(ctx, fnd):
    w = fnd.get("witness", {})
    if "world" not in w:
        return "unknown"
    out, trace, m, _ = _run_input(ctx, w)
    return "reproduces" if _violates(w, out, m) else "gone"
