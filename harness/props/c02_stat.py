"""C02 — seeded round 5 (C02-6): the BYTES of /proc/<pid>/stat as a dimension of C02's histories.

The identity (pid, create_time) behind ==, hash() and is_running() is PARSED from the stat line the kernel publishes,
`pid (comm) state ppid … starttime …`; comm is chosen by the process (the executable's name, prctl(PR_SET_NAME)): any
bytes — spaces, parentheses, `) `, newlines, a spelled-out fake stat tail — and it CHANGES while the process lives
(execve() of a script after fork(), a rename), as do the counters in the other fields.

Everything about the byte dimension itself is C01's round-5 machinery and is REUSED, not repeated: the translator facts
of the reader (`c01_stat.stat_facts`, called by c02.facts), the kernel-side rendering (`c01_stat.render_line` through
`c01.SimKernel.lines` / `c01.Impl.render_pid`), the kernel ops `spawn` with a line and `stat` (rewrite), the comm / field
pools (`STRUCTURED_COMMS`, `rand_comm`, `rand_line`, `same_shape`, `successor_line`, `spoof_tail`, `small_comms`) and
C01's corpus, which is run here once more under the C02 oracle.  This module adds what is C02's own: generator
families aimed at C02's clauses — `==`, `hash()`, `is_running()`, `process_iter()` handles — over that dimension
(structured scenarios + random walks + a small exhaustive sweep), with the transient read failures of c02_fault mixed
in, run by `c02_extra.Impl2` against Driver/C02.lean (Model/C02Stat.lean: `stepFB = stepF ∘ view`).  The specification
side of the driver never looks at a command name.
"""
import itertools

from harness.props import c01, c01_stat, c02_extra, c02_fault

ODD = [b"job (copy) 2.sh", b"job (a) 1", b"a) b", b"c) d", b") ", b"x) y) z", b"kworker) 0", b"a) \nb", b"(sd-pam) "]
PLAIN = [b"python3", b"worker", b"ab", b"(sd-pam)", b"foo bar )", b"tmux: server", b"bash"]


class StatPlan(c02_fault.FaultPlan):
    """FaultPlan + what each listed PID currently shows (so that a rename can keep / change the other fields)"""

    def __init__(self, rng, btime, clk):
        super().__init__(rng, btime, clk)

    def line(self, pid):
        return dict(self.k.lines.get(pid) or c01_stat.default_line(pid))

    def spawn(self, pid, line):
        return self.ev(op="spawn", pid=pid, **c01_stat.as_keys(line))

    def rename(self, pid, comm=None, fresh_fields=False):
        """the line of the living process `pid` changes: a new comm (prctl / execve), optionally new counters too"""
        rng = self.rng
        line = c01_stat.rand_line(rng, pid) if fresh_fields else self.line(pid)
        line["comm"] = comm if comm is not None else rand_name(rng)
        return self.ev(op="stat", pid=pid, **c01_stat.as_keys(line))

    def handle(self, pid):
        """an object for `pid`: Process(pid), or whatever process_iter() hands out"""
        if self.rng.random() < 0.7 or not self.k.procs:
            self.ev(op="new", pid=pid)
        else:
            self.ev(op="process_iter")

    def ask(self, i):
        r = self.rng.random()
        if r < 0.5:
            self.ev(op="is_running", i=i)
        elif r < 0.7:
            self.ev(op="hash", i=i)
        elif r < 0.9 and self.nobj:
            self.ev(op="eq", i=i, j=self.rng.randrange(self.nobj))
        elif r < 0.94:
            self.ev(op="create_time", i=i)
        elif r < 0.97:
            self.ev(op="ppid", i=i)
        elif self.k.procs:
            # (never `status` / name(): for a comm of 15 bytes or more psutil.Process.name() goes on to cmdline(), a file the
            # fake procfs does not have — str(p) is outside C02's statement, and no kernel shows a comm longer than 15 bytes;
            # the long spoofed tails are kept because the READER must cope with them)
            self.ev(op="process_iter")

    def judge_all(self):
        """every answer C02 speaks about, for every object and every pair"""
        for i in range(self.nobj):
            self.ev(op="is_running", i=i)
        for i in range(self.nobj):
            self.ev(op="hash", i=i)
        if self.nobj >= 2:
            self.ev(op="eq", i=0, j=self.nobj - 1)
            self.ev(op="eq", i=self.nobj - 1, j=0)


def rand_name(rng):
    r = rng.random()
    if r < 0.4:
        return rng.choice(ODD)
    if r < 0.55:
        return rng.choice(PLAIN)
    return c01_stat.rand_comm(rng)


def stat_history(rng, clk, n):
    """structured scenarios (n mod 8 = 0..5) and random walks (6, 7) over the byte dimension, aimed at C02's clauses"""
    P = StatPlan(rng, c01.rand_btime(rng), clk)
    kind = n % 8
    p = rng.choice(c01.PIDS)
    others = [q for q in c01.PIDS if q != p]
    if rng.random() < 0.5:
        P.tick(5)                                    # starttime != 0: a misread field that happens to be 0 shows
    if kind == 0:
        # PID reuse between two processes with odd names (the same / a same-shaped / any name; same other fields):
        # old != new, old.is_running() False for ever, hashes of the old object stable
        line = c01_stat.rand_line(rng, p)
        line["comm"] = rand_name(rng)
        P.spawn(p, line)
        P.handle(p)
        P.ev(op="hash", i=0)
        for _ in range(rng.randrange(1, 3)):
            if rng.random() < 0.3:
                P.rename(p)
            if rng.random() < 0.3:
                P.ev(op="exit", pid=p)
            P.ev(op="reap", pid=p)
            if rng.random() < 0.3:
                P.ev(op="is_running", i=0)
            P.tick()
            line = c01_stat.successor_line(rng, line, p)
            if rng.random() < 0.5:
                line["comm"] = rng.choice([line["comm"], c01_stat.same_shape(rng, line["comm"])] + ODD[:4])
            P.spawn(p, line)
            if rng.random() < 0.3:
                P.ev(op="exit", pid=p)
            P.handle(p)
            P.ev(op="eq", i=0, j=P.nobj - 1)
        P.judge_all()
    elif kind == 1:
        # a LIVE process renames itself (to / from a name with `) `) while objects exist: same process, same answers
        line = c01_stat.rand_line(rng, p)
        line["comm"] = rng.choice(PLAIN + ODD)
        P.spawn(p, line)
        P.handle(p)
        P.ev(op="hash", i=0).ev(op="is_running", i=0)
        for _ in range(rng.randrange(1, 4)):
            P.rename(p, fresh_fields=rng.random() < 0.3)
            P.ask(rng.randrange(P.nobj))
            if rng.random() < 0.6:
                P.ev(op="new", pid=p)
                P.ev(op="eq", i=0, j=P.nobj - 1)
        P.judge_all()
        if rng.random() < 0.6:
            P.ev(op="exit", pid=p)                  # still in the table as a zombie …
            if rng.random() < 0.5:
                P.rename(p)
            P.judge_all()
            P.ev(op="reap", pid=p)                  # … and gone
            P.judge_all()
    elif kind == 2:
        # process_iter() handles: cached across renames, evicted / rebuilt across a recycling with the same name
        names = {}
        for q in [p] + [x for x in others if rng.random() < 0.7]:
            line = c01_stat.rand_line(rng, q)
            line["comm"] = names[q] = rand_name(rng)
            P.spawn(q, line)
        P.ev(op="process_iter")
        victim = rng.choice(sorted(P.k.procs))
        P.rename(victim)
        P.ev(op="process_iter")
        P.judge_all()
        if rng.random() < 0.7:
            old = P.line(victim)
            P.ev(op="reap", pid=victim)
            P.tick()
            P.spawn(victim, dict(old, comm=rng.choice([old["comm"], names[victim], rand_name(rng)])))
            P.ev(op="process_iter")
            if rng.random() < 0.6:
                P.ev(op="is_running", i=rng.randrange(P.nobj))
            P.ev(op="process_iter")
            if rng.random() < 0.5:
                P.ev(op="process_iter")
        P.judge_all()
    elif kind == 3:
        # renames and recyclings while reads of the stat file fail transiently: the answer may be withheld, never wrong
        line = c01_stat.rand_line(rng, p)
        line["comm"] = rand_name(rng)
        P.spawn(p, line)
        P.ev(op="new", pid=p)
        P.fault(p)
        P.rename(p)
        P.ev(op="is_running", i=0)
        if rng.random() < 0.5:
            P.ev(op="reap", pid=p)
            P.tick()
            P.spawn(p, c01_stat.successor_line(rng, P.line(p) if p in P.k.procs else line, p))
            P.ev(op="is_running", i=0)
        P.fault(p, False)
        P.ev(op="is_running", i=0)
        if p in P.k.procs:
            P.ev(op="new", pid=p)
        P.judge_all()
    elif kind == 4:
        # the new holder spells out a stat tail in its name so that a reader stopping early reads the OLD start time
        P.spawn(p, dict(c01_stat.default_line(p), comm=rng.choice(PLAIN + ODD)))
        start = P.k.procs[p][0]
        P.handle(p)
        P.ev(op="reap", pid=p)
        P.tick()
        P.spawn(p, dict(c01_stat.default_line(p), comm=c01_stat.spoof_tail(start)))
        P.ev(op="new", pid=p)
        P.judge_all()
    elif kind == 5:
        # fork() … execve("./job (copy) 2.sh"): the object is built between the two; a bystander shows the very same line
        parent = rng.choice(PLAIN)
        line = dict(c01_stat.rand_line(rng, p), comm=parent)
        P.spawn(p, line)
        q = others[0]
        P.spawn(q, dict(line))
        P.handle(p)
        P.ev(op="new", pid=q)
        P.rename(p, comm=rng.choice(ODD))
        P.ev(op="is_running", i=0)
        P.ev(op="new", pid=p)
        P.ev(op="eq", i=0, j=P.nobj - 1)
        if rng.random() < 0.5:
            P.rename(q, comm=P.line(p)["comm"])
        P.judge_all()
    else:
        # random walk over bytes, process table, objects and (kind 7) failing reads
        for _ in range(rng.randrange(7, 16)):
            r = rng.random()
            q = rng.choice(c01.PIDS)
            if r < 0.16:
                line = c01_stat.rand_line(rng, q)
                line["comm"] = rand_name(rng)
                P.spawn(q, line)
            elif r < 0.30 and q in P.k.procs:
                P.rename(q, fresh_fields=rng.random() < 0.3)
            elif r < 0.37:
                P.ev(op="reap", pid=q)
            elif r < 0.40:
                P.ev(op="exit", pid=q)
            elif r < 0.44:
                P.tick()
            elif r < 0.50 and kind == 7:
                P.fault(q, rng.random() < 0.6)
            elif r < 0.62:
                P.ev(op="new", pid=q)
            elif r < 0.70 and P.k.procs:
                P.ev(op="process_iter")
            elif P.nobj:
                P.ask(P.any_obj())
        for q in sorted(P.F):
            P.fault(q, False)
        P.judge_all()
    return P.hist("x:stat", hyp=True)


def _ops_rename(c1, c2, pid=7, btime=1000, tick=5):
    """Props/C02.lean `witnessRename` generalised: a live process called c1, an object, the process renames itself to c2"""
    z = {"letter": 83, "ppid": 1, "pre": [0] * 17, "post": [0] * 30}
    return {"btime": btime, "family": "x:stat:corpus", "hyp": True, "ops": [
        {"op": "tick", "n": tick}, dict({"op": "spawn", "pid": pid, "comm": c1.hex()}, **z), {"op": "new", "pid": pid},
        {"op": "hash", "i": 0}, dict({"op": "stat", "pid": pid, "comm": c2.hex()}, **z), {"op": "is_running", "i": 0},
        {"op": "new", "pid": pid}, {"op": "eq", "i": 0, "j": 1}, {"op": "hash", "i": 0}, {"op": "hash", "i": 1},
        {"op": "process_iter"}, {"op": "is_running", "i": 2}, {"op": "eq", "i": 0, "j": 2},
        {"op": "exit", "pid": pid}, {"op": "is_running", "i": 1}, {"op": "reap", "pid": pid}, {"op": "is_running", "i": 1},
        {"op": "is_running", "i": 0}]}


def _ops_recycle(c1, c2, pid=7, btime=1000):
    """Props/C02.lean `witnessRecycle` generalised: PID passes from a process called c1 to a process called c2"""
    z = {"letter": 83, "ppid": 1, "pre": [0] * 17, "post": [0] * 30}
    return {"btime": btime, "family": "x:stat:corpus", "hyp": True, "ops": [
        dict({"op": "spawn", "pid": pid, "comm": c1.hex()}, **z), {"op": "new", "pid": pid}, {"op": "hash", "i": 0},
        {"op": "reap", "pid": pid}, {"op": "tick", "n": 50}, dict({"op": "spawn", "pid": pid, "comm": c2.hex()}, **z),
        {"op": "new", "pid": pid}, {"op": "eq", "i": 0, "j": 1}, {"op": "is_running", "i": 0}, {"op": "is_running", "i": 1},
        {"op": "hash", "i": 0}, {"op": "process_iter"}, {"op": "eq", "i": 0, "j": 2}, {"op": "eq", "i": 1, "j": 2},
        {"op": "is_running", "i": 0}]}


def corpus():
    """the two witnesses of C02_first_rpar_space_counterexample, every odd name as rename target / source and as the
    shared name of two holders of one PID, and C01's stat corpus under the C02 oracle"""
    hs = [_ops_rename(b"ab", b"a) b"), _ops_recycle(b"a) b", b"c) d", btime=1000)]
    for c in ODD:
        hs.append(_ops_rename(b"python3", c, pid=4242, btime=1700000000, tick=40))
        hs.append(_ops_rename(c, b"python3", pid=4242, btime=1700000000, tick=40))
        hs.append(_ops_recycle(c, c, pid=5151, btime=1700000000))
    for h in c01_stat.corpus():
        hs.append(dict(h, family="x:stat:corpus"))
    return hs


def exhaustive_stat(maxlen=2, btime=1000):
    """all pairs (c1, c2) of comms of length <= maxlen over {'(', ')', ' ', 'a'} (c01_stat.small_comms):
    (a) spawn(c1) · Process · reap · spawn(c2) · Process · is_running(0) · ==(0,1) · is_running(1);
    (b) c1 != c2: tick · spawn(c1) · Process · rename to c2 · is_running(0) · Process · ==(0,1);
    (c) c1 != c2: tick · spawn(c1) · process_iter · rename to c2 · process_iter · is_running(0) · Process · ==(0,1)"""
    p = 5
    comms = c01_stat.small_comms(maxlen)
    for c1, c2 in itertools.product(comms, repeat=2):
        yield {"btime": btime, "family": "exhaustive:stat", "hyp": True, "ops": [
            {"op": "spawn", "pid": p, "comm": c1.hex()}, {"op": "new", "pid": p}, {"op": "reap", "pid": p},
            {"op": "spawn", "pid": p, "comm": c2.hex()}, {"op": "new", "pid": p}, {"op": "is_running", "i": 0},
            {"op": "eq", "i": 0, "j": 1}, {"op": "is_running", "i": 1}]}
    for c1, c2 in itertools.product(comms, repeat=2):
        if c1 == c2:
            continue
        yield {"btime": btime, "family": "exhaustive:stat", "hyp": True, "ops": [
            {"op": "tick", "n": 3}, {"op": "spawn", "pid": p, "comm": c1.hex()}, {"op": "new", "pid": p},
            {"op": "stat", "pid": p, "comm": c2.hex()}, {"op": "is_running", "i": 0}, {"op": "new", "pid": p},
            {"op": "eq", "i": 0, "j": 1}]}
        yield {"btime": btime, "family": "exhaustive:stat", "hyp": True, "ops": [
            {"op": "tick", "n": 3}, {"op": "spawn", "pid": p, "comm": c1.hex()}, {"op": "process_iter"},
            {"op": "stat", "pid": p, "comm": c2.hex()}, {"op": "process_iter"}, {"op": "is_running", "i": 0},
            {"op": "new", "pid": p}, {"op": "eq", "i": 0, "j": 1}]}


def features(h, result):
    """which parts of the byte dimension a history spans for C02's clauses (counted in the evidence)"""
    f = set(c01_stat.stat_features(h))
    renamed = set()          # PIDs whose line was rewritten since they were spawned
    recycled = {}            # pid -> comm of the previous holder
    comm = {}
    same_name_recycled = set()
    handles = set()
    for (o, im, ie, mo, me, sp, _aux) in result["rows"]:
        k = o["op"]
        if k == "spawn":
            c = c01_stat.line_of(o)["comm"]
            if o["pid"] in recycled and recycled[o["pid"]] == c:
                same_name_recycled.add(o["pid"])
            comm[o["pid"]] = c
            renamed.discard(o["pid"])
        elif k == "stat":
            renamed.add(o["pid"])
            comm[o["pid"]] = c01_stat.line_of(o)["comm"]
        elif k == "reap":
            if o["pid"] in comm:
                recycled[o["pid"]] = comm.pop(o["pid"])
            renamed.discard(o["pid"])
        elif k == "process_iter" and im.get("kind") == "procs":
            handles |= {x[1] for x in im["v"]}
            if renamed:
                f.add("stat:sweep_after_rename")
        elif k == "is_running" and "bool" in sp:
            if renamed:
                f.add("stat:is_running_%s_after_rename" % ("true" if sp["bool"] else "false"))
            if same_name_recycled and not sp["bool"]:
                f.add("stat:is_running_false_pid_taken_by_same_name")
            if o["i"] in handles:
                f.add("stat:is_running_on_iter_handle")
            if sp.get("may_raise"):
                f.add("stat:is_running_while_read_fails")
        elif k == "eq" and "bool" in sp:
            if renamed:
                f.add("stat:eq_%s_across_rename" % ("true" if sp["bool"] else "false"))
            if recycled and not sp["bool"]:
                f.add("stat:eq_false_across_recycling")
        elif k == "hash":
            f.add("stat:hash_checked")
    return f


NONTRIVIAL = {"stat:is_running_true_after_rename", "stat:is_running_false_after_rename", "stat:eq_true_across_rename",
              "stat:eq_false_across_recycling", "stat:is_running_false_pid_taken_by_same_name", "stat:sweep_after_rename"}


def correspond_stat(ctx, res, driver_file, n_quick, n_thorough):
    impl = c02_extra.Impl2(ctx)
    try:
        hists = corpus()
        for n in range(ctx.n(n_quick, n_thorough)):
            hists.append(stat_history(ctx.rng, impl.clk, n))
        n_rand = len(hists)
        maxlen = 2 if ctx.tier == "quick" else 3
        hists.extend(exhaustive_stat(maxlen))
        CH = 3000
        for a in range(0, len(hists), CH):
            chunk = hists[a:a + CH]
            results, nl = c01.run_histories(ctx, impl, chunk, driver_file)
            res.extra["driver_lines"] = res.extra.get("driver_lines", 0) + nl
            for h, r in zip(chunk, results):
                fam = h["family"]
                if not c01.hyp_of(h):
                    h = dict(h, hyp=False)          # a line outside the kernel's format (never generated): model only
                res.count("family:" + fam.split(":corpus")[0])
                feats = features(h, r) | c02_fault.features(h, r)
                for f in feats:
                    res.count("feature:" + f)
                res.case((h["btime"], h["ops"]), nontrivial=bool(feats & NONTRIVIAL))
                pr = c02_extra.problem(h, r)
                if pr:
                    kind, nstep, im, mo, sp, why = pr
                    ops = h["ops"] if nstep is None else h["ops"][:nstep + 1]
                    inp = {"btime": h["btime"], "ops": ops, "family": fam, "hyp": h.get("hyp", True)}
                    res.disagree(kind, inp, im, mo, sp, note="step %s: %s" % (nstep, why))
        res.extra["exhaustive_stat"] = ("all %d histories over all pairs (c1, c2) of command names of length <= %d over {'(', ')', ' ', 'a'}: "
                                        "spawn(c1)·Process·reap·spawn(c2)·Process·is_running(0)·==(0,1)·is_running(1); for c1 != c2 "
                                        "spawn(c1)·Process·rename to c2·is_running(0)·Process·==(0,1) and "
                                        "spawn(c1)·process_iter()·rename to c2·process_iter()·is_running(0)·Process·==(0,1)"
                                        % (len(hists) - n_rand, maxlen))
    finally:
        impl.close()
