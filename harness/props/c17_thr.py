"""C17 seeded round 5: the THREAD dimension, on the real extension.

  mt_sched    n threads call cext.disk_partitions(), each on its OWN named pipe.  This process feeds the pipes one mounts line
              at a time — it decides when each thread's getmntent() can return — and drives a `holder` thread of the worker that
              owns the GIL while told to (a blocking read through ctypes.PyDLL).  After every step it waits until the worker is
              QUIESCENT (every thread of the worker asleep in a system call, twice in a row: /proc/<pid>/task/<tid>/syscall),
              so the interleaving is the scripted one, not the kernel's mood; the GIL switch interval is short, so a thread that
              has waited for the GIL through one quiescence wait has asked for it and gets it at the owner's next window
              (CPython's forced switch).  A step the code does not allow yet (the reader is not there: the GIL is held across
              the whole loop) just leaves the line in the pipe.  Steps:  ["line", i]  ["eof", i]  ["hold"]  ["free"].
              Sub-families: structured (hold-overlap, alternate, hold-each, serial, eof-early), random, and the exhaustive
              sweep of all well-formed 4-step scripts over two threads.
  mt_stress   k threads x r rounds of the same call started together with a 1 µs switch interval (disk_partitions: own regular
              file per thread; users(): one utmp file): every result must be the single-threaded one, which is compared with the
              independent decoding.  High-probability net for windows that do not sit on the pipe read.

Oracle (Spec/C17Thr.lean): a call returns the records of the file IT read, whatever the other threads do.
"""
import os
import time

from harness.props import c17_util as U

FN = "psutil_disk_partitions"
SWITCH = 0.0003
DWELL = 0.0012          # a quiescent worker is left alone this long: GIL waiters have then asked for the GIL
STEP_DEADLINE = 4.0


# ------------------------------------------------------------------------------- quiescence of the worker

def _sample(pid):
    """{tid: text of /proc/pid/task/tid/syscall} or None when some thread is running / vanished while looking"""
    out = {}
    try:
        tids = os.listdir("/proc/%d/task" % pid)
    except OSError:
        return None
    for tid in tids:
        try:
            with open("/proc/%d/task/%s/syscall" % (pid, tid)) as f:
                t = f.read().split()
        except OSError:
            return None
        if not t or t[0] == "running":
            return None
        out[tid] = tuple(t[:2])          # system call number + first argument (descriptor / futex word)
    return out


class Stuck(Exception):
    pass


def wait_quiescent(pid, min_tasks=0, deadline=STEP_DEADLINE):
    t_end = time.monotonic() + deadline
    t_q = None
    last = None
    while True:
        s = _sample(pid)
        now = time.monotonic()
        if s is not None and len(s) >= min_tasks and s == last:
            if t_q is None:
                t_q = now
            elif now - t_q >= DWELL:
                return len(s)
        else:
            t_q = None
        last = s
        if now > t_end:
            raise Stuck("worker not quiescent after %.1fs (last sample %r)" % (deadline, s))
        time.sleep(0.0001)


# ------------------------------------------------------------------------------- one scripted run

def mnt_escape(b):
    """a field the way the kernel prints it into a mounts file (fstab(5) octal escapes)"""
    return b"".join({32: b"\\040", 9: b"\\011", 10: b"\\012", 92: b"\\134"}.get(c, bytes([c])) for c in b)


def file_lines(entries):
    return [b" ".join(mnt_escape(x) for x in e) + b" 0 0\n" for e in entries]


def run_sched(worker, case):
    """-> (reply, note).  case = {"files": [[ [dev,dir,typ,opts] as hex … ] …], "steps": […]}"""
    files = [[tuple(bytes.fromhex(x) for x in e) for e in f] for f in case["files"]]
    lines = [file_lines(f) for f in files]
    n = len(files)
    fds_all = []
    notes = []
    try:
        # anonymous pipes made HERE; the worker re-opens the read ends through /proc/<this pid>/fd/<r> and hands
        # /proc/self/fd/<its copy> to the extension: opening a pipe that way never waits for a partner, the bytes written
        # stay in the pipe whoever comes late, and end-of-file is ours to give (we own the only write ends)
        prs = [os.pipe() for _ in range(n + 2)]
        fds_all = [fd for pr in prs for fd in pr]
        me = os.getpid()
        paths = ["/proc/%d/fd/%d" % (me, r) for r, _ in prs[:n]]
        ctl = ["/proc/%d/fd/%d" % (me, r) for r, _ in prs[n:]]
        fds = [w for _, w in prs[:n]]
        c1, c2 = prs[n][1], prs[n + 1][1]
        pos = [0] * n
        open_ = [True] * n
        state = {"held": False}

        def rest(i):
            if open_[i]:
                while pos[i] < len(lines[i]):
                    os.write(fds[i], lines[i][pos[i]])
                    pos[i] += 1
                os.close(fds[i])
                fds_all.remove(fds[i])
                open_[i] = False

        def feed(pid):
            try:
                wait_quiescent(pid, min_tasks=n + 2)
                for st in case["steps"]:
                    k = st[0]
                    if k == "line":
                        i = st[1]
                        if open_[i] and pos[i] < len(lines[i]):
                            os.write(fds[i], lines[i][pos[i]])
                            pos[i] += 1
                    elif k == "eof":
                        rest(st[1])
                    elif k == "hold" and not state["held"]:
                        os.write(c1, b"h")
                        state["held"] = True
                    elif k == "free" and state["held"]:
                        os.write(c2, b"x")
                        state["held"] = False
                    wait_quiescent(pid)
                # the rest of every file, thread after thread, still one line per rendezvous (no race decides anything)
                if state["held"]:
                    os.write(c2, b"x")
                    state["held"] = False
                    wait_quiescent(pid)
                for i in range(n):
                    while open_[i] and pos[i] < len(lines[i]):
                        os.write(fds[i], lines[i][pos[i]])
                        pos[i] += 1
                        wait_quiescent(pid)
                    rest(i)
                    wait_quiescent(pid)
            except Stuck as e:
                notes.append(str(e))
            finally:
                if state["held"]:
                    os.write(c2, b"x")
                for i in range(n):
                    rest(i)
                os.write(c1, b"q")

        rep = worker.ask({"cmd": "mt_sched", "fifos": paths, "ctl1": ctl[0], "ctl2": ctl[1], "switch": SWITCH}, during=feed)
        return rep, "; ".join(notes)
    finally:
        for fd in fds_all:
            try:
                os.close(fd)
            except OSError:
                pass


def model_sched(case):
    """the script as moves of the Lean model: a `hold` is one more thread with an empty file entering (it takes the GIL) and its
    `free` that thread's EOF (it returns); a delivered line lets its thread make the moves of one iteration"""
    n = len(case["files"])
    files = [list(f) for f in case["files"]]
    sched, holder = [], None
    for st in case["steps"]:
        if st[0] == "hold" and holder is None:
            holder = len(files)
            files.append([])
            sched.append(holder)
        elif st[0] == "free" and holder is not None:
            sched.append(holder)
            holder = None
        elif st[0] in ("line", "eof"):
            sched.extend([st[1]] * (5 if st[0] == "line" else 5 * (1 + len(case["files"][st[1]]))))
    if holder is not None:
        sched.append(holder)
    return {"op": "mt", "fn": FN, "files": files, "sched": sched}, n


def compare_sched(run, case, m):
    res = run.res
    inp = {"kind": "mt_sched", "case": case}
    want = [[list(e) for e in f] for f in case["files"]]
    # the independent decoder agrees with the entries the lines were rendered from (generator validation)
    for f, w in zip(case["files"], want):
        text = b"".join(file_lines([tuple(bytes.fromhex(x) for x in e) for e in f]))
        dec = [[x.hex() for x in e] for e in U.getmntent_decode(text)]
        if dec != w:
            res.disagree("model", inp, dec, w, None, note="mt_sched generator: rendered lines do not decode to the entries (harness bug)")
            return
    n = len(case["files"])
    spec_rows = m["spec"]["rows"][:n]
    if spec_rows != want:
        res.disagree("model", inp, None, m["model"], m["spec"], note="Lean Spec.Thr.callResult is not the thread's own file")
        return
    try:
        rep, note = run_sched(run.w, case)
    except U.Crash as c:
        run.crashes += 1
        res.count("crash:" + run.tag)
        res.disagree("spec", dict(inp, build=run.tag), {"kind": "crash", "status": c.status, "stderr_tail": c.stderr_tail[-600:]}, None,
                     {"kind": "value-or-python-exception"},
                     note="%d threads inside cext.disk_partitions() under this script: the interpreter was killed / hung (%s build)" % (n, run.tag))
        return
    res.count("mt_sched:" + case["family"])
    res.count("mt_sched_steps", len(case["steps"]))
    res.case(("mt_sched", repr(case["files"]), repr(case["steps"])), nontrivial=True)
    if note:
        res.notes.append("mt_sched: " + note)
    got = [r["rows"] if r.get("kind") == "ok" else r for r in rep["results"]]
    if got != want:
        bad = [i for i in range(n) if got[i] != want[i]]
        i = bad[0]
        res.disagree("spec", inp, {"thread": i, "rows": got[i]}, {"rows": m["model"]["rows"][:n], "relProduce": m["model"]["relProduce"],
                                                                  "relBetween": m["model"]["relBetween"]},
                     {"thread": i, "rows": want[i]},
                     note="%d threads call cext.disk_partitions() at once, each on its own mounts file, fed in this order %s: the call of thread %d "
                          "returned rows that are not the entries of ITS file (got %d rows, its file has %d)%s" % (
                              n, _steps_text(case["steps"]), i, len(got[i]) if isinstance(got[i], list) else -1, len(want[i]),
                              _whose(got[i], want, i)))
        return
    mo = m["model"]
    if not (mo["relProduce"] or mo["relBetween"]):
        if mo["rows"][:n] != want or not all(mo["finished"][:n]):
            res.disagree("model", inp, got, mo, m["spec"], note="Lean thread model (Good configuration) does not return each thread's own file")


def _steps_text(steps):
    return "[" + " ".join("%s%s" % (s[0], "" if len(s) == 1 else s[1]) for s in steps) + "]"


def _whose(rows, want, i):
    if not isinstance(rows, list):
        return ""
    for r in rows:
        for j, w in enumerate(want):
            if j != i and r in w and r not in want[i]:
                return "; e.g. %r, an entry of thread %d's file" % ([bytes.fromhex(x).decode("latin-1") for x in r], j)
    return ""


# ------------------------------------------------------------------------------- generators

def entry(i, k, rng=None):
    dev = b"/dev/t%dl%d" % (i, k)
    dirs = [b"/mnt/t%d/p%d" % (i, k), b"/mnt/t%d/with space %d" % (i, k), b"/m%d\\%d" % (i, k)]
    d = dirs[0] if rng is None else rng.choice(dirs)
    typ = (b"ext4", b"xfs", b"btrfs", b"vfat")[(i + k) % 4]
    return [dev.hex(), d.hex(), typ.hex(), (b"rw,tag=%d.%d" % (i, k)).hex()]


def mk_files(n, lens, rng=None):
    return [[entry(i, k, rng) for k in range(lens[i])] for i in range(n)]


def structured_cases():
    out = []
    for n, ln in ((2, 1), (2, 3), (3, 2)):
        files = mk_files(n, [ln] * n)
        lines_all = [["line", i] for i in range(n)]
        out.append({"family": "hold_overlap", "files": files, "steps": [["hold"]] + lines_all + [["free"]]})
        out.append({"family": "alternate", "files": files, "steps": lines_all * ln})
        out.append({"family": "hold_each", "files": files, "steps": ([["hold"]] + lines_all + [["free"]]) * ln})
        out.append({"family": "serial", "files": files, "steps": [["line", i] for i in range(n) for _ in range(ln)] + [["eof", i] for i in range(n)]})
        out.append({"family": "eof_early", "files": files, "steps": [["line", 0], ["eof", n - 1], ["hold"], ["line", 0], ["free"]] + lines_all})
        out.append({"family": "reverse", "files": files, "steps": list(reversed(lines_all)) * ln + [["hold"]] + list(reversed(lines_all)) + [["free"]]})
    return out


def gen_random_case(rng):
    n = rng.choice([2, 2, 3, 4])
    lens = [rng.randrange(0, 5) for _ in range(n)]
    if not any(lens):
        lens[0] = 2
    files = mk_files(n, lens, rng)
    steps, held = [], False
    for _ in range(rng.randrange(3, 14)):
        r = rng.random()
        if r < 0.18:
            steps.append(["free"] if held else ["hold"])
            held = not held
        elif r < 0.26:
            steps.append(["eof", rng.randrange(n)])
        else:
            steps.append(["line", rng.randrange(n)])
    return {"family": "random", "files": files, "steps": steps}


def exhaustive_cases():
    """all scripts of exactly 4 steps over {line0, line1, hold, free} with hold/free alternating (free only while held), two
    threads with two entries each"""
    files = mk_files(2, [2, 2])
    alpha = [["line", 0], ["line", 1], ["hold"], ["free"]]
    out = []

    def go(pre, held):
        if len(pre) == 4:
            out.append({"family": "exhaustive4", "files": files, "steps": list(pre)})
            return
        for a in alpha:
            if a[0] == "hold" and held or a[0] == "free" and not held:
                continue
            go(pre + [a], (a[0] == "hold") or (held and a[0] != "free"))
    go([], False)
    return out


def sched_cases(ctx):
    cs = structured_cases() + exhaustive_cases()
    for _ in range(ctx.n(60, 600)):
        cs.append(gen_random_case(ctx.rng))
    return cs


# ------------------------------------------------------------------------------- stress

def stress_cases(ctx):
    rng = ctx.rng
    out = []
    for k, ne in ((4, 200), (3, 60)):
        files = []
        for i in range(k):
            es = [tuple(bytes.fromhex(x) for x in entry(i, j, rng)) for j in range(ne + 7 * i)]
            files.append(b"".join(file_lines(es)).hex())
        out.append({"kind": "partitions", "threads": k, "rounds": ctx.n(40, 400), "files": files})
    recs = []
    for j in range(120):
        recs.append({"typ": 7 if j % 5 else 8, "pid": 1000 + j, "line": (b"pts/%d" % j).ljust(32, b"\0"), "id": b"ts%02d" % (j % 100),
                     "user": (b"user%03d" % j).ljust(32, b"\0"), "host": (b"host-%03d.example" % j).ljust(256, b"\0"), "exit": bytes(4),
                     "session": bytes(4), "sec": 1600000000 + j, "usec": bytes(4), "addr": bytes(16), "unused": bytes(20)})
    out.append({"kind": "users", "threads": 4, "rounds": ctx.n(40, 400), "files": [b"".join(U.ut_pack(r) for r in recs).hex()], "recs": len(recs)})
    return out


def compare_stress(run, c):
    res = run.res
    inp = {"kind": "mt_stress", "case": {k: v for k, v in c.items()}}
    rep = run.ask(dict(c, cmd="mt_stress"), inp)
    if rep is None:
        return
    res.count("mt_stress:" + c["kind"])
    res.case(("mt_stress", c["kind"], c["threads"], c["rounds"], tuple(c["files"])), nontrivial=True)
    single = rep.get("single")
    if not isinstance(single, list):
        res.disagree("model", inp, single, None, None, note="mt_stress: the single-threaded reference call raised")
        return
    if c["kind"] == "partitions":
        for i in range(c["threads"]):
            want = [[x.hex() for x in e] for e in U.getmntent_decode(bytes.fromhex(c["files"][i % len(c["files"])]))]
            if single[i] != want:
                res.disagree("spec", inp, single[i][:4], None, want[:4], note="single-threaded cext.disk_partitions() differs from the independent decoding")
                return
    elif len(single[0]) != sum(1 for j in range(c["recs"]) if j % 5):
        res.disagree("spec", inp, len(single[0]), None, None, note="single-threaded cext.users() does not return the USER_PROCESS records of the file")
        return
    res.count("mt_stress_calls", rep.get("calls", 0))
    if rep.get("bad"):
        b = rep["bad"][0]
        res.disagree("spec", inp, b, None, {"rows": "the single-threaded result of the same call (%d rows)" % b["n_want"]},
                     note="%d threads call cext.%s() at once (%s): in round %d the call of thread %d returned %s rows instead of %d; first wrong "
                          "entry #%d" % (c["threads"], "disk_partitions" if c["kind"] == "partitions" else "users",
                                         "each on its own mounts file" if c["kind"] == "partitions" else "one utmp file", b["round"], b["thread"],
                                         b["n_got"], b["n_want"], b["first_wrong_entry"]))


def replay_sched(run, drv, inp):
    case = inp["case"]
    line, _ = model_sched(case)
    compare_sched(run, case, drv.batch([line])[0])


def replay_stress(run, inp):
    c = dict(inp["case"])
    c["rounds"] = max(int(c["rounds"]), 300)
    compare_stress(run, c)
