"""C15 — wait() and wait_procs(): right exit status, never early, timeouts honoured.

Model: lean/PsutilModel/Model/C15.lean (+C15Gen), Spec: Spec/C15.lean, theorems: Props/C15.lean.

Correspondence: the REAL `psutil._psposix.wait_pid`, `psutil.Process.wait` (through
`_pslinux.Process.wait` and `wrap_exceptions`) and `psutil.wait_procs` run in-process over a
virtual environment: `os.waitpid`, the `_timer/_sleep/_pid_exists/_waitpid` default parameters of
`wait_pid`, `psutil._timer` and the procfs behind `Process.is_running()` are served from a
simulated kernel in which time is a `fractions.Fraction` and only `sleep` (and a blocking
`waitpid`) advance it; every sleep is logged. (Seeded round 5) The liveness probe is NOT replaced: whatever
`_pid_exists` the code hands to / defaults in `wait_pid` runs for real over the simulated kernel's `os.kill`
and over the fake procfs tree, and every environment may carry a procfs VIEW that does not list the (living)
process for a while (entry removed = hidepid, or `psutil.PROCFS_PATH` pointed at another tree). (Seeded round 5, C15-8) The CLOCKS
are not replaced by name either: there are two virtual clocks — the steady one (`World.timer`, what sleep advances and every instant
of a case is measured on) and a WALL clock (`World.wall` = steady + base + the steps made so far) — and every binding of a real clock
function inside psutil (parameter defaults, module-level names, `time.xxx()` calls through a proxy of the `time` module) is swapped
for the virtual clock of the SAME kind, so which clock each deadline computation reads is part of what is compared; every case may
carry a `wall` that is stepped forwards / backwards while the call polls. The same environment goes to the Lean driver, which
answers with the model's observation and with the Spec clauses violated by the model's and by the
implementation's observation.
"""
import ast
import os
import shutil
import subprocess
import sys
import tempfile
import time as _realtime
from fractions import Fraction as Fr

from harness.common import extract, fakeproc
from harness.common.extract import NotRecognised

PROP = "C15"
DRIVER_MODULES = ["PsutilModel.Model.C15Gen", "PsutilModel.Model.C15R2", "PsutilModel.Model.C15R3", "PsutilModel.Model.C15Probe",
                  "PsutilModel.Model.C15Clock",
                  "PsutilModel.Spec.C15"]
NEEDS_EXT = True
TRUSTED = [
    "C15 environment: system calls cost zero virtual time (only _sleep and a blocking waitpid advance the clock); an interrupted waitpid returns at once; doubles are modelled by exact rationals (a logged float sleep must be the double nearest to the model's rational)",
    "C15 wait status words follow glibc's W* macros (transcribed in Model/C15.lean, checked against os.WIF*/os.W* on all 65 536 words on every run); the set iteration order inside wait_procs is an arbitrary permutation in the theorems and is fed from the observed order in the correspondence",
    "C15 Process objects are built on a fake procfs (harness/common/fakeproc.py); Process.is_running() is the real code reading that procfs, which the simulated kernel updates when a non-child ends",
    "C15 set(procs) keeps the first inserted of several equal elements (CPython set semantics; checked on every run by the identity observations); an unhashable item is a list",
    "C15 liveness: os.kill(pid, 0) as seen by psutil/_psposix.py, psutil/__init__.py and psutil/_pslinux.py is the simulated kernel's process table (ESRCH / success / EPERM for a foreign process); the procfs tree psutil reads is a VIEW of that table which, per case, does not list a living process during [hideAt, showAt) — realised by removing its entry (hidepid) or by pointing psutil.PROCFS_PATH at a second tree (re-pointed after the object was created); a view never lists a PID the kernel does not have",
    "C15 clocks: time.monotonic / time.perf_counter (and their _ns forms) as bound anywhere in psutil/__init__.py, _psposix.py, _pslinux.py, _common.py (parameter defaults, module-level names, attribute calls on the `time` module) are the harness's steady virtual clock, time.time (time_ns) is the harness's wall clock = steady clock + base + the steps of the case, time.sleep advances the steady clock only; a clock captured any other way (functools.partial, a C extension) is not virtualised",
    "C15 psutil.Popen objects are built by the real Popen.__init__ with subprocess.Popen replaced by a stub (pid, returncode=None, spawns nothing); subprocess's own poll() is emulated by the harness (reaps the simulated child, stores WEXITSTATUS / -WTERMSIG as CPython's _handle_exitstatus does)",
]
MANIFEST = {
    "level_text": "Machine-checked Lean 4 proofs over a virtual-time model (exact rationals, fuelled loops) of _psposix.wait_pid, Process.wait, psutil.Popen.wait (psutil's wrapper only) and psutil.wait_procs incl. its argument checks, for EVERY exit instant, timeout, status word, EINTR pattern, set-iteration order and number of processes: never early, status decoding = wait(2) encoding for all exit codes 0-255 and signals 1-126 (with/without core), TimeoutExpired only at/after the deadline carrying seconds/pid and less than one 40 ms poll late, a process that ended by the deadline (in particular strictly between the last poll and the deadline) is never reported as timed out, sleep schedule min(0.1ms*2^n, 40ms), timeout=0 never sleeps, negative timeout -> ValueError, PID 0 -> ValueError with nothing cached, waiting for oneself can only time out, cached later calls, termination with a timeout (explicit fuel bound), EINTR cannot change a returned result; Popen.wait = Process.wait while returncode is unset, stores the returned status in both layers, answers from returncode at once afterwards; wait_procs partition / callback exactly once / returncode / gone-really-ended / alive-really-running at the return instant / return before deadline+40ms / termination with a timeout / ValueError then TypeError argument checks before anything else. Partial: 'TimeoutExpired only with the process still alive' is proved for calls whose last waitpid was not interrupted, with a proved counterexample (EINTR at the deadline) recorded as a known finding and a proof (C15_eintr_no_repair) that no waitpid-polling procedure can meet both clauses under persistent EINTR; the EINTR-at-the-deadline case (C15-eintr-deadline) is the one known finding left; 'negative timeout -> ValueError' for Popen.wait is proved at full strength for the code as it is now (C15_popen_wait_negative, through the obligation cfg_popen_validates_first), the code as found answered from a stored returncode first (proved counterexample C15_popen_wait_negative_counterexample; fixed in /repo by 3859330); syscalls cost zero virtual time. Second extension: wait_procs over psutil.Popen objects and mixed Process/Popen lists is PROVED to be wait_procs over Process objects in which a stored subprocess returncode sits in _exitcode (simulation theorem C15_wait_procs_mixed_is_wait_procs through every loop), so partition / callback once / returncode / gone-ended / deadline hold for them (C15_wait_procs_mixed); of several equal-but-not-identical objects set(procs) keeps the FIRST (C15_set_keeps_first: it alone is waited on, gets returncode, is called back, is returned); an unhashable item is a TypeError after the timeout validation (C15_wait_procs_arguments_unhashable); 'callback exactly once' is proved from ANY reachable intermediate state for ANY number of further passes, with or without timeout (C15_callback_once_any_passes[_no_timeout]); system calls that take time: a costed model of wait_pid (every _timer/waitpid/_pid_exists/_sleep call overshoots by cost k <= delta) equals the zero-cost model for delta = 0 (C15_costed_zero) and satisfies every bound with 40 ms replaced by 40 ms + 5*delta, never-early and not-before-the-deadline unchanged, 'still alive' weakened to 'alive delta before the raise' (C15_costed_bounds). Tied to the code by 16 translator facts (0.0001, *2, 0.04, check-before-sleep, >=, >= 0 validation, 1.0/len(alive), pid<=0 check, callable check, the three-part shape of Popen.wait, `for proc in alive` / `alive = alive - gone` in every pass, `alive = set(procs)` after the validation) feeding the proof obligations cfg_good / cfg_popen_validates_first / cfg_wait_procs_shape, by a differential run of the real functions over a virtual clock comparing result/exception fields, full sleep log, return instant, callback log, subprocess returncode, identity of the objects returned / called back / waited on, the per-call cost sequence of costed runs (400 quick / 20 000 thorough, real wait_pid vs the costed model), by an exhaustive sweep of all 65 536 status words and by the exhaustive enumeration of 2-3 processes x exit pass (1, 2, 3, never) x timeout (None, 50 ms, 3.5 s) = 196 wait_procs runs with a callback. Seeded round 5 (WHICH liveness probe is asked): the model carries a procfs VIEW per process (listed / not listed over time, independent of the kernel's truth) and a Probe (kill | procfs) derived from 3 new translator facts (the ECHILD branch polls `_pid_exists(pid)`; its default is _psposix.pid_exists whose only call is os.kill(pid, 0); _pslinux.Process.wait hands wait_pid no hook) under the obligation cfg_nonchild_probe; C15_wait_any_view / C15_never_early_any_view / C15_process_wait_any_view / C15_hidden_alive_only_times_out: for EVERY view the wait observes exactly what the view-free model observes, so every single-call theorem holds whatever procfs hides, in particular no result while the process is alive-but-hidden; C15_check_gone_any_view: one check_gone of wait_procs (whose is_running() reads procfs) is view-independent from every state satisfying the loop invariant; C15_never_early_procfs_probe_counterexample: a poll that asks the procfs view returns None at once for a live hidden process. Correspondence: the real pid_exists / whatever hook is passed runs over a simulated os.kill and a fake procfs whose entries follow per-case views (hide instant before the call / at, just before, just after a poll, the deadline, the exit; shown again or not; hidepid+EPERM, hidepid, PROCFS_PATH re-pointed) in 25 % of the single-process and 20 % of the wait_procs processes, plus an exhaustive family of 1 440 view cases through Process.wait, Popen.wait and wait_procs. Seeded round 5, C15-8 (WHICH clock each deadline computation reads): the model has TWO clocks — the steady one (virtual time of every theorem: sleep, exit instants, deadlines, return instants) and a WALL clock that is ANY function of steady time (steps forwards / backwards of any size at any moment) — and a Clock (steady | wall) for each of the four deadline computations (stop_at and the deadline check of wait_pid, deadline and deadline - now of wait_procs), derived from 4 new translator facts (the callee of each clock call followed through parameter defaults and single module-level bindings down to an attribute of the time module) under the obligation cfg_steady_clock; C15_wait_any_wall_clock / C15_timeout_honoured_any_wall_clock / C15_process_wait_any_wall_clock / C15_wait_procs_any_wall_clock / C15_wait_procs_deadline_any_wall_clock: for EVERY wall clock the wait, Process.wait, Popen.wait and the whole wait_procs (Process and Popen objects, argument checks) observe exactly what the one-clock model observes, so TimeoutExpired comes at/after the deadline and less than one poll late in STEADY time and any call with a timeout is over before start + timeout + 40 ms (new Spec clause timeoutHonoured); C15_wall_clock_forward_step_counterexample / C15_wall_clock_backward_step_counterexample: a wait whose deadline is measured on the wall clock raises 0.1 ms into a 1 s timeout after a forward step and hands back an exit code 10 ms beyond deadline + one poll after a backward step. Correspondence: two virtual clocks; every binding of a real clock function inside psutil is swapped for the virtual clock of the same kind by identity (defaults, module names) or through a proxy of the time module; 30 % of the single-process cases with a timeout and 25 % of the wait_procs cases carry a wall clock with 1-3 steps (1 us … 1 year, either direction; right after the call started / at, just before, just after a poll, the deadline, the exit / before the call / random), plus an exhaustive family of 864 one-step cases through wait_pid, Process.wait, Popen.wait and wait_procs.",
    "level_note": "Trusted: Lean kernel + {propext, Classical.choice, Quot.sound}; the translator; the correspondence harness and its simulated kernel; zero-cost syscalls; doubles = exact rationals; glibc W* macros as transcribed; subprocess.Popen replaced by a stub holding pid/returncode (its own poll() emulated as CPython's _handle_exitstatus).",
    "technique": "Lean 4 invariants over fuelled loops in virtual time (Rat) + translator-fed proof obligation + differential correspondence under a virtual clock with exhaustive status-word sweep",
    "design_ref": "DESIGN.md §5 C15",
}
ASSUMPTIONS = [
    "system calls take zero virtual time in every theorem except C15_costed_zero / C15_costed_bounds (wait_pid with per-call overshoot <= delta: 40 ms + 5*delta); wait_procs with costed calls is not modelled (its last attempt alone adds up to 4 calls per surviving process)",
    "Process.is_running() answers from the simulated kernel (a non-child that ended is gone from procfs; PID reuse is C01/C02's subject)",
    "wall clock: a function of steady time (one reading per instant: a step lands between two instants, never between two readings made at the same virtual instant); the costed model (waitPidC) has one clock; wait_procs under a stepping wall clock is modelled over the view-free stack",
    "procfs views only HIDE: the tree under PROCFS_PATH never lists a PID the kernel (kill / waitpid) does not have — a stale or foreign-namespace entry is PID reuse, C01/C02's subject; the wait_procs MODEL is view-free (proved per check_gone step, C15_check_gone_any_view; the whole real wait_procs is compared with it under hidden views on every run)",
]

FINDING_EINTR = "C15-eintr-deadline"
FINDING_POPEN_NEG = "C15-popen-negative-cached"
FINDING_EINTR_NEVER = "C15-eintr-never-existed"
FUEL = 200                      # model loop bound = harness bound on sleeps per wait call

# ------------------------------------------------------------------------------ translator


def _frac_of_const(node):
    v = extract.const(node)
    if isinstance(v, bool) or not isinstance(v, (int, float)):
        raise NotRecognised("not a number: %r" % (v,))
    f = Fr(repr(v)) if isinstance(v, float) else Fr(v)
    if f < 0:
        raise NotRecognised("negative constant %r" % (v,))
    return f


def _wait_pid_facts(tree):
    """facts about wait_pid's polling schedule. Every piece is extracted on its own: a piece that cannot be
    read is recorded under "<piece>_err" and only the facts that need it are skipped."""
    out = {}
    try:
        fn = extract.find_def(tree, "wait_pid")
    except Exception as e:  # noqa: BLE001
        for k in ("i0", "sched", "check"):
            out[k + "_err"] = "wait_pid not found: %s" % e
        return out
    # interval = 0.0001 (top level of wait_pid)
    try:
        for st in fn.body:
            if isinstance(st, ast.Assign) and len(st.targets) == 1 and extract.dotted(st.targets[0]) == "interval":
                out["i0"] = _frac_of_const(st.value)
                break
        else:
            raise NotRecognised("`interval = <const>` not found in wait_pid")
    except NotRecognised as e:
        out["i0_err"] = str(e)
    sl = None
    for st in fn.body:
        if isinstance(st, ast.FunctionDef) and st.name == "sleep":
            sl = st
    if sl is None:
        out["sched_err"] = "nested sleep() not found"
        # no nested sleep(): there is no deadline check in front of a sleep at all
        out["checkBeforeSleep"] = False
        out["check_err"] = "nested sleep() not found"
        return out
    idx_check = idx_sleep = None
    cmp_ge = None
    for i, st in enumerate(sl.body):
        if isinstance(st, ast.If) and any(isinstance(x, ast.Raise) for x in ast.walk(st)):
            raises = [x for x in ast.walk(st) if isinstance(x, ast.Raise)]
            if not any("TimeoutExpired" in extract.unparse(r) for r in raises):
                continue
            idx_check = i
            cmps = [x for x in ast.walk(st) if isinstance(x, ast.Compare) and len(x.ops) == 1
                    and "stop_at" in extract.unparse(x)]
            if len(cmps) != 1 or any(isinstance(x, ast.Call) and extract.dotted(x.func).split(".")[-1] in ("_sleep", "sleep")
                                     for x in ast.walk(st)):
                # e.g. a check that itself sleeps: the constants below are still extracted, the two
                # facts about the check are skipped (a skipped fact counts as a broken obligation)
                out["check_err"] = "deadline check of sleep() has an unknown shape: `%s`" % extract.unparse(st.test)
                continue
            c = cmps[0]
            l, r = extract.unparse(c.left), extract.unparse(c.comparators[0])
            op = c.ops[0]
            if l == "_timer()" and r == "stop_at":
                if isinstance(op, ast.GtE):
                    cmp_ge = True
                elif isinstance(op, ast.Gt):
                    cmp_ge = False
            elif l == "stop_at" and r == "_timer()":
                if isinstance(op, ast.LtE):
                    cmp_ge = True
                elif isinstance(op, ast.Lt):
                    cmp_ge = False
            if cmp_ge is None:
                out["ge_err"] = "deadline comparison is %s" % extract.unparse(c)
        if isinstance(st, ast.Expr) and isinstance(st.value, ast.Call) and \
                extract.dotted(st.value.func).split(".")[-1] in ("_sleep", "sleep"):
            idx_sleep = i
        if isinstance(st, ast.Return):
            try:
                c = st.value
                if not (isinstance(c, ast.Call) and extract.dotted(c.func) in ("_min", "min") and len(c.args) == 2):
                    raise NotRecognised("sleep() returns %s" % extract.unparse(st))
                a, b = c.args
                if not (isinstance(a, ast.BinOp) and isinstance(a.op, ast.Mult)):
                    raise NotRecognised("first argument of _min is %s" % extract.unparse(a))
                if extract.dotted(a.left) == "interval":
                    fac = _frac_of_const(a.right)
                elif extract.dotted(a.right) == "interval":
                    fac = _frac_of_const(a.left)
                else:
                    raise NotRecognised("first argument of _min is %s" % extract.unparse(a))
                if fac.denominator != 1:
                    raise NotRecognised("non-integer back-off factor %s" % fac)
                out["factor"] = int(fac)
                out["cap"] = _frac_of_const(b)
            except NotRecognised as e:
                out["sched_err"] = str(e)
    if "cap" not in out and "sched_err" not in out:
        out["sched_err"] = "sleep() has no `return _min(interval * k, cap)`"
    if idx_check is None and "check_err" not in out:
        # no TimeoutExpired check in sleep() at all: nothing is checked before sleeping
        out["checkBeforeSleep"] = False
        out["ge_err"] = "no TimeoutExpired check found in sleep()"
    elif "check_err" not in out:
        if idx_sleep is None:
            out["check_err"] = "sleep() does not call _sleep"
        else:
            out["checkBeforeSleep"] = idx_check < idx_sleep
            if cmp_ge is not None:
                out["deadlineGe"] = cmp_ge
    return out


def _piece(d, key, *errs):
    """value of one extracted piece, or NotRecognised with the reason that piece (alone) could not be read"""
    if key in d:
        return d[key]
    for e in errs:
        if e in d:
            raise NotRecognised(d[e])
    raise NotRecognised("%s not extracted" % key)


def _check_fact(d, key):
    return _piece(d, key, "check_err", "ge_err")


def _body(fn):
    """statements of a function without its docstring"""
    b = list(fn.body)
    if b and isinstance(b[0], ast.Expr) and isinstance(getattr(b[0], "value", None), ast.Constant) \
            and isinstance(b[0].value.value, str):
        b = b[1:]
    return b


def _raises(st, exc):
    return isinstance(st, ast.If) and not st.orelse and \
        any(isinstance(x, ast.Raise) and exc in extract.unparse(x) for x in ast.walk(st))


def _norm(node):
    return extract.unparse(node).replace("(", "").replace(")", "").replace(" ", "")


def _safe_pred(test, names, builtins=None):
    """compile a test expression that mentions only `names` (and constants / comparisons / boolean operators) into
    a Python predicate; None when it uses anything else"""
    ok = (ast.Compare, ast.BoolOp, ast.UnaryOp, ast.Name, ast.Constant, ast.And, ast.Or, ast.Not, ast.USub, ast.UAdd,
          ast.Load, ast.Eq, ast.NotEq, ast.Lt, ast.LtE, ast.Gt, ast.GtE, ast.Is, ast.IsNot, ast.BinOp, ast.Add, ast.Sub,
          ast.Call, ast.expr_context)
    allowed = set(names) | set(builtins or {})
    for n in ast.walk(test):
        if isinstance(n, ast.Name) and n.id not in allowed:
            return None
        if isinstance(n, ast.Call) and not (isinstance(n.func, ast.Name) and n.func.id in (builtins or {})):
            return None
        if not isinstance(n, ok):
            return None
    code = compile(ast.Expression(body=test), "<test>", "eval")

    def pred(**kw):
        return bool(eval(code, {"__builtins__": dict(builtins or {})}, kw))  # noqa: S307 — whitelisted AST only
    return pred


NEG_PIDS = [-2**31, -4001, -2, -1]
POS_PIDS = [1, 2, 4001, 2**31]


def _pid_test_facts(tree):
    """which pids the FIRST statement of wait_pid raises ValueError for: the test is evaluated on sample pids.
    Total: anything that is not such a test means `nothing is refused`."""
    out = {"zero": False, "neg": False, "pos": False, "first": False, "shape": "no pid test"}
    try:
        b = _body(extract.find_def(tree, "wait_pid"))
    except Exception as e:  # noqa: BLE001
        out["shape"] = "wait_pid not found: %s" % e
        return out
    tests = [(i, st) for i, st in enumerate(b) if _raises(st, "ValueError") and "pid" in extract.unparse(st.test)]
    if not tests:
        return out
    i, st = tests[0]
    out["shape"] = extract.unparse(st.test)
    out["first"] = i == 0
    f = _safe_pred(st.test, ["pid"])
    if f is None or i != 0:
        return out
    try:
        out["zero"] = f(pid=0)
        out["neg"] = all(f(pid=x) for x in NEG_PIDS)
        out["pos"] = any(f(pid=x) for x in POS_PIDS)
    except Exception as e:  # noqa: BLE001
        out["shape"] += " (evaluation failed: %s)" % type(e).__name__
        out["zero"] = out["neg"] = out["pos"] = False
    return out


def _pid_check_fact(tree):
    """wait_pid: the first statement is `if pid <= 0: raise ValueError` (or a test that refuses the same pids)"""
    d = _pid_test_facts(tree)
    return bool(d["first"] and d["zero"] and d["neg"] and not d["pos"])


W_CONSTS = {"os.WNOHANG": os.WNOHANG, "os.WUNTRACED": os.WUNTRACED, "os.WCONTINUED": os.WCONTINUED,
            "WNOHANG": os.WNOHANG, "WUNTRACED": os.WUNTRACED, "WCONTINUED": os.WCONTINUED}
FLAGS_UNKNOWN = 255             # "an expression the translator cannot evaluate": fails cfg_waitpid_flags


def _flags_facts(tree):
    """second argument of the `os.waitpid(pid, …)` call of wait_pid, with and without a timeout: the straight-line
    statements of wait_pid that assign `flags` are executed symbolically. Total (FLAGS_UNKNOWN when not evaluable)."""
    out = {"timeout": FLAGS_UNKNOWN, "blocking": FLAGS_UNKNOWN}
    try:
        fn = extract.find_def(tree, "wait_pid")
    except Exception:  # noqa: BLE001
        return out
    calls = [n for n in ast.walk(fn) if isinstance(n, ast.Call) and extract.dotted(n.func) in ("os.waitpid", "_waitpid")
             and len(n.args) == 2]
    if len(calls) != 1:
        return out
    arg = calls[0].args[1]

    def is_tmo_test(t):
        src = extract.unparse(t).replace("(", "").replace(")", "")
        if src == "timeout is not None":
            return True
        if src == "timeout is None":
            return False
        return None

    def ev(e, env, given):
        if isinstance(e, ast.Constant) and isinstance(e.value, int) and not isinstance(e.value, bool):
            return e.value
        if isinstance(e, (ast.Attribute, ast.Name)):
            d = extract.dotted(e)
            if d in W_CONSTS:
                return W_CONSTS[d]
            if d in env:
                return env[d]
            raise NotRecognised(d)
        if isinstance(e, ast.BinOp) and isinstance(e.op, (ast.BitOr, ast.Add)):
            l, r = ev(e.left, env, given), ev(e.right, env, given)
            return (l | r) if isinstance(e.op, ast.BitOr) else (l + r)
        if isinstance(e, ast.IfExp):
            t = is_tmo_test(e.test)
            if t is None:
                raise NotRecognised(extract.unparse(e.test))
            return ev(e.body if t == given else e.orelse, env, given)
        raise NotRecognised(extract.unparse(e))

    def run(stmts, env, given):
        for st in stmts:
            if isinstance(st, ast.Assign) and len(st.targets) == 1 and extract.dotted(st.targets[0]) == "flags":
                env["flags"] = ev(st.value, env, given)
            elif isinstance(st, ast.AugAssign) and extract.dotted(st.target) == "flags":
                if not isinstance(st.op, (ast.BitOr, ast.Add)):
                    raise NotRecognised(extract.unparse(st))
                v = ev(st.value, env, given)
                env["flags"] = (env["flags"] | v) if isinstance(st.op, ast.BitOr) else (env["flags"] + v)
            elif isinstance(st, ast.If):
                t = is_tmo_test(st.test)
                if t is None:
                    if any(isinstance(n, (ast.Assign, ast.AugAssign)) and "flags" in extract.unparse(n) for n in ast.walk(st)):
                        raise NotRecognised("flags assigned under `%s`" % extract.unparse(st.test))
                    continue
                run(st.body if t == given else st.orelse, env, given)
            elif isinstance(st, (ast.While, ast.For, ast.Try)):
                if any(isinstance(n, (ast.Assign, ast.AugAssign)) and extract.dotted(getattr(n, "target", None) or n.targets[0]) == "flags"
                       for n in ast.walk(st) if isinstance(n, (ast.Assign, ast.AugAssign))):
                    raise NotRecognised("flags assigned inside a loop")
        return env
    for key, given in (("timeout", True), ("blocking", False)):
        try:
            env = run(_body(fn), {}, given)
            v = ev(arg, env, given)
            if isinstance(v, int) and 0 <= v < FLAGS_UNKNOWN:
                out[key] = v
        except Exception:  # noqa: BLE001
            pass
    return out


def _check_gone_order(tree):
    """check_gone (nested in wait_procs): do `proc.returncode = …` and `gone.add(proc)` come before `callback(proc)`?
    Total: a statement that is missing counts as `not before`."""
    out = {"rc": False, "gone": False}
    try:
        fn = extract.find_def(tree, "wait_procs")
        cg = [st for st in fn.body if isinstance(st, ast.FunctionDef) and st.name == "check_gone"][0]
    except Exception:  # noqa: BLE001
        return out
    pos = {}
    for n in ast.walk(cg):
        at = (getattr(n, "lineno", 0), getattr(n, "col_offset", 0))
        if isinstance(n, ast.Assign) and any(extract.dotted(t).endswith(".returncode") for t in n.targets):
            pos.setdefault("rc", at)
        if isinstance(n, ast.Call) and extract.dotted(n.func) == "gone.add":
            pos.setdefault("gone", at)
        if isinstance(n, ast.Call) and extract.dotted(n.func) == "callback":
            pos["cb"] = min(pos.get("cb", at), at)
    if "cb" not in pos:
        # no callback call at all: nothing can be seen too early, but then `callback exactly once` is gone too
        return out
    out["rc"] = "rc" in pos and pos["rc"] < pos["cb"]
    out["gone"] = "gone" in pos and pos["gone"] < pos["cb"]
    return out


def _cb_check_fact(tree):
    """wait_procs: `if callback is not None and not callable(callback): raise TypeError` before the first loop (the
    test is evaluated on samples: None and a function pass, 42 and "x" are refused). Total."""
    try:
        fn = extract.find_def(tree, "wait_procs")
    except Exception:  # noqa: BLE001
        return False
    for st in _body(fn):
        if isinstance(st, (ast.While, ast.For)):
            break
        if _raises(st, "TypeError"):
            f = _safe_pred(st.test, ["callback"], {"callable": callable})
            if f is None:
                return False
            try:
                return (not f(callback=None)) and (not f(callback=len)) and f(callback=42) and f(callback="x")
            except Exception:  # noqa: BLE001
                return False
    return False


def _timeout_test_ok(test):
    """does this test refuse exactly the negative timeouts (None, 0 and positive numbers pass)? evaluated on samples"""
    f = _safe_pred(test, ["timeout"])
    if f is None:
        return False
    try:
        return not any(f(timeout=t) for t in (None, 0, 0.0, 1, 2.5, Fr(1, 1000))) and \
            all(f(timeout=t) for t in (-1, -0.001, -5, Fr(-1, 1000)))
    except Exception:  # noqa: BLE001
        return False


def _popen_facts(tree):
    """Popen.wait: [validation?] ; if self.__subproc.returncode is not None: return it ;
       ret = super().wait(timeout) ; self.__subproc.returncode = ret ; return ret.
       Three INDEPENDENT, total facts (a shape that is not recognised gives False for that fact only)."""
    out = {"validateFirst": False, "rcFirst": False, "stores": False}
    try:
        b = _body(extract.find_def(tree, "wait", cls="Popen"))
    except Exception:  # noqa: BLE001
        return out
    src = [extract.unparse(x) for x in b]
    first_rc = next((i for i, x in enumerate(src) if "returncode" in x), len(b))
    first_wait = next((i for i, x in enumerate(src) if "super().wait(" in x or ".wait(" in x), len(b))
    # validation: a ValueError test that refuses exactly the negative timeouts, before returncode is looked at
    for i, st in enumerate(b[:min(first_rc, first_wait)]):
        if _raises(st, "ValueError") and _timeout_test_ok(st.test):
            out["validateFirst"] = True
    # early return from the stored returncode, before the wait
    for st in b[:first_wait]:
        if isinstance(st, ast.If) and not st.orelse and _norm(st.test) == "self.__subproc.returncodeisnotNone" \
                and len(st.body) == 1 and extract.unparse(st.body[0]) == "return self.__subproc.returncode":
            out["rcFirst"] = True
    # the store: straight-line `ret = super().wait(timeout)` ; `self.__subproc.returncode = ret` ; `return ret`
    tail = src[first_wait:]
    out["stores"] = tail == ["ret = super().wait(timeout)", "self.__subproc.returncode = ret", "return ret"]
    return out


def _validate_fact(tree):
    """Process.wait: a ValueError test that refuses exactly the negative timeouts precedes the `_exitcode` cache and
    the platform wait. Total."""
    try:
        fn = extract.find_def(tree, "wait", cls="Process")
    except Exception:  # noqa: BLE001
        return False
    first_use = None
    for i, st in enumerate(fn.body):
        src = extract.unparse(st)
        if "_exitcode" in src or "_proc.wait" in src:
            first_use = i
            break
    if first_use is None:
        return False
    return any(_raises(st, "ValueError") and _timeout_test_ok(st.test) for st in fn.body[:first_use])


def _slice_fact(tree):
    fn = extract.find_def(tree, "wait_procs")
    for n in ast.walk(fn):
        if isinstance(n, ast.Assign) and len(n.targets) == 1 and extract.dotted(n.targets[0]) == "max_timeout":
            v = n.value
            if isinstance(v, ast.BinOp) and isinstance(v.op, ast.Div) and extract.unparse(v.right) == "len(alive)":
                f = _frac_of_const(v.left)
                if f.denominator != 1:
                    raise NotRecognised("max_timeout numerator %s" % f)
                return int(f)
            raise NotRecognised("max_timeout = %s" % extract.unparse(v))
    raise NotRecognised("max_timeout assignment not found")


def _wp_stmts(fn):
    """statements of wait_procs without the nested check_gone()"""
    return [st for st in _body(fn) if not isinstance(st, ast.FunctionDef)]


def _loops_fact(tree):
    """wait_procs: every `for proc in X` iterates `alive`; the main loop is `while alive:` and ends with
    `alive = alive - gone`; so does the last attempt (`if alive:`)"""
    fn = extract.find_def(tree, "wait_procs")
    top = _wp_stmts(fn)
    fors = [n for st in top for n in ast.walk(st) if isinstance(n, (ast.For, ast.comprehension))]
    whiles = [st for st in top if isinstance(st, ast.While)]
    if len(whiles) != 1 or not fors:
        return False                # not the shape the obligation speaks about
    wh = whiles[0]

    def refresh(st):
        src = extract.unparse(st).replace(" ", "")
        return src in ("alive=alive-gone", "alive-=gone", "alive=alive.difference(gone)", "alive.difference_update(gone)")
    ok = extract.unparse(wh.test) == "alive" and all(extract.unparse(f.iter) == "alive" for f in fors) \
        and refresh(wh.body[-1])
    tail = [st for st in top[top.index(wh) + 1:] if isinstance(st, ast.If)]
    for st in tail:
        if any(isinstance(n, ast.For) for n in ast.walk(st)):
            ok = ok and extract.unparse(st.test) == "alive" and refresh(st.body[-1])
    return ok


def _alive_set_fact(tree):
    """wait_procs: `gone = set()` and `alive = set(procs)` in front of the loops, after the timeout validation"""
    fn = extract.find_def(tree, "wait_procs")
    seen_validation = False
    alive = gone = None
    for st in _wp_stmts(fn):
        if isinstance(st, (ast.While, ast.For)):
            break
        if _raises(st, "ValueError"):
            seen_validation = True
        if isinstance(st, ast.Assign) and len(st.targets) == 1:
            t, v = extract.dotted(st.targets[0]), extract.unparse(st.value)
            if t == "alive":
                alive = (v, seen_validation)
            if t == "gone":
                gone = v
    if alive is None or gone is None:
        return False
    return alive == ("set(procs)", True) and gone == "set()"


def _probe_facts(posix, linux):
    """(seeded round 5) WHICH liveness probe the non-child poll of wait_pid asks. Three independent, total facts:
       poll    — the `except ChildProcessError:` branch is `while _pid_exists(pid): interval = sleep(interval)` ; `return None`
       default — the default of wait_pid's `_pid_exists` parameter is the module's `pid_exists`, defined once, never
                 rebound, undecorated, whose ONLY call is `os.kill(pid, 0)`
       linux   — `_pslinux.Process.wait` is `return _psposix.wait_pid(self.pid, timeout, self._name)`: no hook handed over"""
    out = {"poll": False, "default": False, "linux": False}
    try:
        fn = extract.find_def(posix, "wait_pid")
    except Exception:  # noqa: BLE001
        fn = None
    if fn is not None:
        try:
            hs = [h for n in ast.walk(fn) if isinstance(n, ast.Try) for h in n.handlers
                  if h.type is not None and "ChildProcessError" in extract.unparse(h.type)]
            if len(hs) == 1:
                b = hs[0].body
                out["poll"] = bool(
                    len(b) == 2 and isinstance(b[0], ast.While) and not b[0].orelse
                    and extract.unparse(b[0].test) == "_pid_exists(pid)"
                    and [extract.unparse(x) for x in b[0].body] == ["interval = sleep(interval)"]
                    and isinstance(b[1], ast.Return) and (b[1].value is None or extract.unparse(b[1].value) == "None"))
        except Exception:  # noqa: BLE001
            out["poll"] = False
        try:
            a = fn.args
            names = [x.arg for x in a.args]
            dflt = dict(zip(names[len(names) - len(a.defaults):], a.defaults))
            dflt.update({k.arg: v for k, v in zip(a.kwonlyargs, a.kw_defaults) if v is not None})
            d = dflt.get("_pid_exists")
            defs = [st for st in ast.walk(posix) if isinstance(st, (ast.FunctionDef, ast.AsyncFunctionDef, ast.ClassDef))
                    and st.name == "pid_exists"]
            rebound = False
            for st in ast.walk(posix):
                tg = []
                if isinstance(st, ast.Assign):
                    tg = st.targets
                elif isinstance(st, (ast.AugAssign, ast.AnnAssign)):
                    tg = [st.target]
                elif isinstance(st, (ast.Import, ast.ImportFrom)):
                    rebound = rebound or any((al.asname or al.name) == "pid_exists" for al in st.names)
                for t in tg:
                    for nm in ast.walk(t):
                        if isinstance(nm, ast.Name) and nm.id == "pid_exists":
                            rebound = True
                if isinstance(st, ast.Global) and "pid_exists" in st.names:
                    rebound = True
            if isinstance(d, ast.Name) and d.id == "pid_exists" and len(defs) == 1 and isinstance(defs[0], ast.FunctionDef) \
                    and defs[0] in posix.body and not defs[0].decorator_list and not rebound:
                calls = [extract.unparse(c) for c in ast.walk(defs[0]) if isinstance(c, ast.Call)]
                out["default"] = calls == ["os.kill(pid, 0)"]
        except Exception:  # noqa: BLE001
            out["default"] = False
    try:
        lw = extract.find_def(linux, "wait", cls="Process")
        b = _body(lw)
        if len(b) == 1 and isinstance(b[0], ast.Return) and isinstance(b[0].value, ast.Call):
            c = b[0].value
            out["linux"] = bool(
                extract.dotted(c.func) in ("_psposix.wait_pid", "wait_pid")
                and [extract.unparse(x) for x in c.args] == ["self.pid", "timeout", "self._name"][:len(c.args)]
                and len(c.args) >= 1
                and all(k.arg in ("timeout", "proc_name") for k in c.keywords)
                and not any(isinstance(x, ast.Starred) for x in c.args))
    except Exception:  # noqa: BLE001
        out["linux"] = False
    return out


STEADY_NAMES = ("monotonic", "perf_counter")       # attributes of `time` that read a clock nobody can set
WALL_NAMES = ("time",)                              # … and the one that reads the settable wall clock


def _module_bindings(tree, name):
    """every module-level statement that (re)binds `name`; plus a flag: rebound somewhere else (global / nested)"""
    top, elsewhere = [], False
    for st in tree.body:
        if isinstance(st, ast.Assign) and any(isinstance(n, ast.Name) and n.id == name for t in st.targets for n in ast.walk(t)):
            top.append(st)
        elif isinstance(st, (ast.AugAssign, ast.AnnAssign)) and any(isinstance(n, ast.Name) and n.id == name for n in ast.walk(st.target)):
            top.append(st)
        elif isinstance(st, (ast.Import, ast.ImportFrom)) and any((al.asname or al.name.split(".")[0]) == name for al in st.names):
            top.append(st)
        elif isinstance(st, (ast.FunctionDef, ast.AsyncFunctionDef, ast.ClassDef)) and st.name == name:
            top.append(st)
    for st in ast.walk(tree):
        if isinstance(st, ast.Global) and name in st.names:
            elsewhere = True
        if isinstance(st, (ast.Try, ast.If, ast.With, ast.For, ast.While)) and st in tree.body:
            for sub in ast.walk(st):
                if isinstance(sub, (ast.Import, ast.ImportFrom)) and any((al.asname or al.name.split(".")[0]) == name for al in sub.names):
                    elsewhere = True
                if isinstance(sub, ast.Assign) and any(isinstance(n, ast.Name) and n.id == name for t in sub.targets for n in ast.walk(t)):
                    elsewhere = True
    return top, elsewhere


def _is_time_module(tree, node):
    """`node` is the name `time`, bound at module level by `import time` and by nothing else"""
    if not (isinstance(node, ast.Name) and node.id == "time"):
        return False
    top, elsewhere = _module_bindings(tree, "time")
    return (not elsewhere and len(top) == 1 and isinstance(top[0], ast.Import)
            and any(al.name == "time" and al.asname in (None, "time") for al in top[0].names))


def _clock_of(tree, fns, expr, depth=0):
    """which clock the callable expression `expr` reads: "steady" | "wall" | None (cannot tell). `fns` = the function
    definitions enclosing the expression, innermost first (a name may be a parameter of any of them)."""
    if depth > 6:
        return None
    if isinstance(expr, ast.Attribute) and _is_time_module(tree, expr.value):
        return "steady" if expr.attr in STEADY_NAMES else "wall" if expr.attr in WALL_NAMES else None
    if isinstance(expr, ast.Call) and isinstance(expr.func, ast.Name) and expr.func.id == "getattr" and not expr.keywords \
            and len(expr.args) in (2, 3) and _is_time_module(tree, expr.args[0]) and isinstance(expr.args[1], ast.Constant):
        # getattr(time, 'monotonic', <fallback>): the attribute exists on every supported Python, the fallback is dead
        nm = expr.args[1].value
        return "steady" if nm in STEADY_NAMES else "wall" if nm in WALL_NAMES else None
    if isinstance(expr, ast.Name):
        for k, fn in enumerate(fns):
            a = fn.args
            params = [x.arg for x in a.posonlyargs + a.args + a.kwonlyargs] + [x.arg for x in (a.vararg, a.kwarg) if x is not None]
            assigned = any(isinstance(n, ast.Name) and n.id == expr.id and isinstance(n.ctx, (ast.Store, ast.Del))
                           for st in fn.body for n in ast.walk(st))
            declared = any(isinstance(n, (ast.Global, ast.Nonlocal)) and expr.id in n.names for st in fn.body for n in ast.walk(st))
            if assigned and not declared:
                return None             # a local (re)binding: not followed
            if declared:
                return None
            if expr.id in params:
                pos = a.posonlyargs + a.args
                dflt = dict(zip([x.arg for x in pos][len(pos) - len(a.defaults):], a.defaults))
                dflt.update({x.arg: v for x, v in zip(a.kwonlyargs, a.kw_defaults) if v is not None})
                if expr.id not in dflt:
                    return None
                # a default is evaluated in the scope the function is DEFINED in
                return _clock_of(tree, fns[k + 1:], dflt[expr.id], depth + 1)
        top, elsewhere = _module_bindings(tree, expr.id)
        if elsewhere or len(top) != 1:
            return None
        st = top[0]
        if isinstance(st, ast.Assign) and len(st.targets) == 1 and isinstance(st.targets[0], ast.Name):
            return _clock_of(tree, [], st.value, depth + 1)
        if isinstance(st, ast.ImportFrom) and st.module == "time" and st.level == 0:
            for al in st.names:
                if (al.asname or al.name) == expr.id:
                    return "steady" if al.name in STEADY_NAMES else "wall" if al.name in WALL_NAMES else None
        return None
    return None


def _timer_calls(node):
    """argument-less calls inside an expression (`_timer()`, `time.time()` …)"""
    return [c for c in ast.walk(node) if isinstance(c, ast.Call) and not c.args and not c.keywords]


def _clock_facts(posix, init):
    """(seeded round 5, C15-8) WHICH clock each of the four deadline computations reads. Four independent, total facts
    (True = the steady clock, False = the wall clock OR something the translator cannot resolve):
       stop   — wait_pid: the one clock call in `stop_at = <clock>() + timeout`
       check  — wait_pid / sleep(): the one clock call in the comparison with `stop_at` that guards `raise TimeoutExpired`
       deadline — wait_procs: the one clock call in `deadline = <clock>() + timeout`
       slice  — wait_procs: the one clock call in `timeout = min(deadline - <clock>(), max_timeout)`
    The callee is followed through parameters' defaults and single module-level bindings down to an attribute of the `time` module."""
    out = {"stop": False, "check": False, "deadline": False, "slice": False}

    def one_clock(tree, fns, node):
        cs = _timer_calls(node)
        return len(cs) == 1 and _clock_of(tree, fns, cs[0].func) == "steady"

    try:
        fn = extract.find_def(posix, "wait_pid")
    except Exception:  # noqa: BLE001
        fn = None
    if fn is not None:
        try:
            asg = [st for st in ast.walk(fn) if isinstance(st, ast.Assign)
                   and any(isinstance(t, ast.Name) and t.id == "stop_at" for t in st.targets)]
            out["stop"] = len(asg) == 1 and one_clock(posix, [fn], asg[0].value)
        except Exception:  # noqa: BLE001
            out["stop"] = False
        try:
            found = []
            def visit(node, fns):
                for ch in ast.iter_child_nodes(node):
                    if isinstance(ch, (ast.FunctionDef, ast.AsyncFunctionDef, ast.Lambda)):
                        if isinstance(ch, ast.Lambda):
                            continue
                        visit(ch, [ch] + fns)
                    else:
                        if isinstance(ch, ast.If) and any(isinstance(x, ast.Raise) and "TimeoutExpired" in extract.unparse(x)
                                                          for b in ch.body for x in ast.walk(b)):
                            found.append((ch, fns))
                        visit(ch, fns)
            visit(fn, [fn])
            # every guard of a `raise TimeoutExpired` that mentions stop_at, innermost test first
            tests = []
            for ifn, fns in found:
                if "stop_at" in extract.unparse(ifn.test):
                    tests.append((ifn.test, fns))
            out["check"] = len(tests) == 1 and one_clock(posix, tests[0][1], tests[0][0])
        except Exception:  # noqa: BLE001
            out["check"] = False
    try:
        wp = extract.find_def(init, "wait_procs")
    except Exception:  # noqa: BLE001
        wp = None
    if wp is not None:
        try:
            own = [st for st in ast.walk(wp) if isinstance(st, ast.Assign)]
            dl = [st for st in own if any(isinstance(t, ast.Name) and t.id == "deadline" for t in st.targets)]
            out["deadline"] = len(dl) == 1 and one_clock(init, [wp], dl[0].value)
            sl = [st for st in own if any(isinstance(t, ast.Name) and t.id == "timeout" for t in st.targets)
                  and "deadline" in extract.unparse(st.value)]
            out["slice"] = len(sl) == 1 and one_clock(init, [wp], sl[0].value)
        except Exception:  # noqa: BLE001
            out["deadline"] = out["slice"] = False
    return out


def facts(snap, F):
    posix = extract.parse_module(snap, "_psposix.py")
    init = extract.parse_module(snap, "__init__.py")
    d = {}

    def wp():
        if "wp" not in d:
            d["wp"] = _wait_pid_facts(posix)
        return d["wp"]

    F.try_add("interval0Num", "Nat", lambda: extract.lean_nat(_piece(wp(), "i0", "i0_err").numerator),
              "wait_pid: `interval = 0.0001` (numerator of the decimal literal)")
    F.try_add("interval0Den", "Nat", lambda: extract.lean_nat(_piece(wp(), "i0", "i0_err").denominator),
              "wait_pid: `interval = 0.0001` (denominator)")
    F.try_add("factor", "Nat", lambda: extract.lean_nat(_piece(wp(), "factor", "sched_err")),
              "sleep(): `interval * 2`")
    F.try_add("capNum", "Nat", lambda: extract.lean_nat(_piece(wp(), "cap", "sched_err").numerator),
              "sleep(): `_min(interval * 2, 0.04)` (numerator)")
    F.try_add("capDen", "Nat", lambda: extract.lean_nat(_piece(wp(), "cap", "sched_err").denominator),
              "sleep(): `_min(interval * 2, 0.04)` (denominator)")
    F.try_add("checkBeforeSleep", "Bool", lambda: extract.lean_bool(_check_fact(wp(), "checkBeforeSleep")),
              "sleep(): the TimeoutExpired check precedes `_sleep(interval)`")
    F.try_add("deadlineGe", "Bool", lambda: extract.lean_bool(_check_fact(wp(), "deadlineGe")),
              "sleep(): the check is `_timer() >= stop_at` (true) or `>` (false)")
    F.try_add("validateNonNeg", "Bool", lambda: extract.lean_bool(_validate_fact(init)),
              "Process.wait starts with `if timeout is not None and not timeout >= 0: raise ValueError`")
    F.try_add("sliceNum", "Nat", lambda: extract.lean_nat(_slice_fact(init)),
              "wait_procs: `max_timeout = 1.0 / len(alive)`")

    def pp():
        if "pp" not in d:
            d["pp"] = _popen_facts(init)
        return d["pp"]

    F.try_add("pidCheck", "Bool", lambda: extract.lean_bool(_pid_check_fact(posix)),
              "wait_pid starts with `if pid <= 0: raise ValueError`")
    F.try_add("cbCheck", "Bool", lambda: extract.lean_bool(_cb_check_fact(init)),
              "wait_procs: `if callback is not None and not callable(callback): raise TypeError` in front of the loops")
    F.try_add("popenRcFirst", "Bool", lambda: extract.lean_bool(pp()["rcFirst"]),
              "Popen.wait: `if self.__subproc.returncode is not None: return self.__subproc.returncode` comes first")
    F.try_add("popenStoresRc", "Bool", lambda: extract.lean_bool(pp()["stores"]),
              "Popen.wait: `ret = super().wait(timeout); self.__subproc.returncode = ret; return ret`")
    F.try_add("popenValidateFirst", "Bool", lambda: extract.lean_bool(pp()["validateFirst"]),
              "Popen.wait rejects a negative timeout (`timeout is not None and not timeout >= 0`) before looking at returncode")
    F.try_add("loopsOverAlive", "Bool", lambda: extract.lean_bool(_loops_fact(init)),
              "wait_procs: `while alive:`, every `for proc in alive`, each pass ends with `alive = alive - gone`")
    F.try_add("aliveIsSet", "Bool", lambda: extract.lean_bool(_alive_set_fact(init)),
              "wait_procs: `gone = set()`, `alive = set(procs)` after the timeout validation, in front of the loops")
    # third round: each fact from its own extractor, every extractor total
    F.try_add("pidRejectsZero", "Bool", lambda: extract.lean_bool(_pid_test_facts(posix)["zero"]),
              "wait_pid: its first statement raises ValueError for pid 0 (test evaluated on sample pids)")
    F.try_add("pidRejectsNeg", "Bool", lambda: extract.lean_bool(_pid_test_facts(posix)["neg"]),
              "wait_pid: its first statement raises ValueError for every negative sample pid (-1 = any child for waitpid)")
    F.try_add("pidRejectsPos", "Bool", lambda: extract.lean_bool(_pid_test_facts(posix)["pos"]),
              "wait_pid: its first statement raises ValueError for some positive sample pid")
    F.try_add("flagsTimeout", "Nat", lambda: extract.lean_nat(_flags_facts(posix)["timeout"]),
              "wait_pid: value of the flags passed to os.waitpid when a timeout is given (WNOHANG=1, WUNTRACED=2, WCONTINUED=8; 255 = not evaluable)")
    F.try_add("flagsBlocking", "Nat", lambda: extract.lean_nat(_flags_facts(posix)["blocking"]),
              "wait_pid: value of the flags passed to os.waitpid without a timeout")
    F.try_add("rcBeforeCb", "Bool", lambda: extract.lean_bool(_check_gone_order(init)["rc"]),
              "check_gone: `proc.returncode = returncode` precedes `callback(proc)`")
    F.try_add("goneBeforeCb", "Bool", lambda: extract.lean_bool(_check_gone_order(init)["gone"]),
              "check_gone: `gone.add(proc)` precedes `callback(proc)`")

    # (seeded round 5) which liveness probe the non-child poll asks; obligation cfg_nonchild_probe
    def pr():
        if "pr" not in d:
            d["pr"] = _probe_facts(posix, extract.parse_module(snap, "_pslinux.py"))
        return d["pr"]

    F.try_add("pollAsksHook", "Bool", lambda: extract.lean_bool(pr()["poll"]),
              "wait_pid: the ChildProcessError branch is `while _pid_exists(pid): interval = sleep(interval)` followed by `return None`")
    F.try_add("hookDefaultIsKill", "Bool", lambda: extract.lean_bool(pr()["default"]),
              "wait_pid: the default of `_pid_exists` is `pid_exists` of _psposix (defined once, never rebound), whose only call is `os.kill(pid, 0)`")
    F.try_add("linuxWaitPassesNoHook", "Bool", lambda: extract.lean_bool(pr()["linux"]),
              "_pslinux.Process.wait: `return _psposix.wait_pid(self.pid, timeout, self._name)` — no hook (`_pid_exists`, `_waitpid`, …) is handed over")

    # (seeded round 5, C15-8) which clock each deadline computation reads; obligation cfg_steady_clock
    def ck():
        if "ck" not in d:
            d["ck"] = _clock_facts(posix, init)
        return d["ck"]

    F.try_add("stopReadsSteady", "Bool", lambda: extract.lean_bool(ck()["stop"]),
              "wait_pid: the clock called in `stop_at = <clock>() + timeout` resolves (parameter default / module binding) to time.monotonic")
    F.try_add("checkReadsSteady", "Bool", lambda: extract.lean_bool(ck()["check"]),
              "wait_pid: the clock called in the `stop_at` comparison guarding `raise TimeoutExpired` resolves to time.monotonic")
    F.try_add("procsDeadlineSteady", "Bool", lambda: extract.lean_bool(ck()["deadline"]),
              "wait_procs: the clock called in `deadline = <clock>() + timeout` resolves to time.monotonic")
    F.try_add("procsSliceSteady", "Bool", lambda: extract.lean_bool(ck()["slice"]),
              "wait_procs: the clock called in `timeout = min(deadline - <clock>(), max_timeout)` resolves to time.monotonic")


# ------------------------------------------------------------------------------ simulated kernel


class Diverge(BaseException):
    """The implementation would block / poll for ever (cut by the harness)."""

    def __init__(self, kind):
        BaseException.__init__(self, kind)
        self.kind = kind


def real_pid(pid):
    """cases name the calling process symbolically (its PID differs from run to run)"""
    return os.getpid() if pid == "self" else pid


def to_frac(x):
    if isinstance(x, float):
        return Fr(repr(x))
    return Fr(x)


def jrat(x):
    x = to_frac(x)
    return [x.numerator, x.denominator]


class World:
    """pid -> {kind, status, exitAt, eintr, nwait, reaped}; virtual clock; logs."""

    def __init__(self):
        self.now = Fr(0)
        self.procs = {}
        self.reset_logs()

    max_sleeps = FUEL
    max_steps = 60000             # interactions per case: a loop that spins without sleeping is cut

    cost_rng = None               # thorough tier, supporting runs: every syscall takes some virtual time

    def tick(self):
        self.oscalls += 1
        self.steps += 1
        if self.steps > self.max_steps:
            raise Diverge("spin")
        if self.cost_rng is not None:
            c = self.cost_rng.choice(COSTS)
            self.cost_total += c
            self.costs.append(c)
            self.now += c

    # (seeded round 5, C15-8) the WALL clock: steady time + base + the sum of the steps made so far; `now` is the STEADY
    # clock (what sleep advances, what exit instants / deadlines / return instants are measured on)
    wall_base = Fr(0)
    wall_steps = ()

    def set_wall(self, wall):
        if not wall:
            self.wall_base, self.wall_steps = Fr(0), ()
        else:
            self.wall_base = Fr(*wall["base"])
            self.wall_steps = tuple((Fr(*a), Fr(*d)) for a, d in wall.get("steps", []))

    def wall_reading(self, t):
        return t + self.wall_base + sum((d for a, d in self.wall_steps if a <= t), Fr(0))

    def reset_logs(self):
        self.wall_reads = 0       # readings of the WALL clock the implementation made
        self.steady_reads = 0     # readings of the steady clock
        self.steps = 0
        self.cost_total = Fr(0)
        self.costs = []               # cost of every system call made, in order (costed runs)
        self.last_poll = None         # (instant, saw the process alive?) of the last waitpid/pid_exists answer
        self.sleeps = []
        self.calls = []           # (pid, timeout) of every Process.wait entered
        self.waited_ids = []      # id() of the object each of those calls was made on
        self.oscalls = 0
        self.last_wait_eintr = False
        self.hidden_polls = 0     # kill(pid, 0) answers "there" while the procfs view does not list the process
        self.probes = []          # signal numbers of every os.kill made (0 = existence probe)

    def add(self, pid, env):
        self.procs[pid] = {"kind": env["kind"], "status": env.get("status", 0),
                           "exitAt": None if env.get("exitAt") is None else Fr(*env["exitAt"]),
                           "eintr": list(env.get("eintr", [])), "eintr_tail": bool(env.get("eintrTail", False)),
                           "nwait": 0, "reaped": False,
                           # a stop / continue of the (living) child: reported by waitpid ONLY under WUNTRACED / WCONTINUED
                           "stopAt": None if env.get("stopAt") is None else Fr(*env["stopAt"]),
                           "contAt": None if env.get("contAt") is None else Fr(*env["contAt"]),
                           "stop_reported": False, "cont_reported": False}
        v = env.get("view") or None
        # (seeded round 5) what the procfs tree shows of the process: not listed during [hideAt, showAt);
        # how = "hidepid" (the entry disappears from the tree: /proc mounted hidepid=, kill says EPERM or succeeds)
        #     | "repoint" (psutil.PROCFS_PATH is pointed at another tree which does not list it)
        self.procs[pid].update(
            hideAt=None if not v else Fr(*v["hideAt"]),
            showAt=None if (not v or v.get("showAt") is None) else Fr(*v["showAt"]),
            how=(v or {}).get("how", "hidepid"), killerr=(v or {}).get("kill", "ok"))
        wc = env.get("wasChild")
        if wc:
            # a child of the caller whose exit status SOMEBODY ELSE collected before the call (another waitpid
            # caller, subprocess.poll(), SIGCHLD ignored): to wait_pid it is a PID that never existed
            self.procs[pid].update(kind="child", status=wc["status"], exitAt=Fr(*wc["exitAt"]), reaped=True)

    def ended(self, p):
        return p["exitAt"] is not None and p["exitAt"] <= self.now

    def hidden(self, p):
        """does the procfs view NOT list the process now (given that it exists)?"""
        h = p.get("hideAt")
        return h is not None and h <= self.now and (p["showAt"] is None or self.now < p["showAt"])

    # -- entry points handed to psutil
    def timer(self):
        """time.monotonic() / time.perf_counter(): the steady clock"""
        self.tick()
        self.steady_reads += 1
        return self.now

    def wall(self):
        """time.time(): the wall clock (same cost accounting as any other call)"""
        self.tick()
        self.wall_reads += 1
        return self.wall_reading(self.now)

    def timer_ns(self):
        return int(self.timer() * 10**9)

    def wall_ns(self):
        return int(self.wall() * 10**9)

    def sleep(self, x):
        self.tick()
        if len(self.sleeps) >= self.max_sleeps:
            raise Diverge("fuel")
        self.sleeps.append(to_frac(x))
        self.now += to_frac(x)
        self.sync_procfs()

    KNOWN_FLAGS = os.WNOHANG | os.WUNTRACED | os.WCONTINUED

    def waitpid(self, pid, flags):
        self.tick()
        if flags & ~self.KNOWN_FLAGS:
            raise OSError(22, "Invalid argument (waitpid flags %r)" % flags)
        if pid <= 0:
            return self.waitpid_any(flags)
        p = self.procs.get(pid)
        if p is None:
            raise ChildProcessError(10, "No child processes")
        n = p["nwait"]
        p["nwait"] += 1
        self.last_wait_eintr = False
        if p["eintr"][n] if n < len(p["eintr"]) else p["eintr_tail"]:
            self.last_wait_eintr = True
            raise InterruptedError(4, "Interrupted system call")
        if p["kind"] != "child" or p["reaped"]:
            raise ChildProcessError(10, "No child processes")
        if self.ended(p):
            p["reaped"] = self.terminal(p["status"])
            self.last_poll = (self.now, False)
            if not flags & os.WNOHANG:
                self.sync_procfs()
            return (pid, p["status"])
        # still alive: state changes other than termination, handed out only to a caller that asked for them
        word = self.pending_report(p, flags, self.now)
        if word is not None:
            self.last_poll = (self.now, True)
            return (pid, word)
        if flags & os.WNOHANG:
            self.last_poll = (self.now, True)
            return (0, 0)
        # blocking: until the next reportable event
        events = []
        if p["exitAt"] is not None:
            events.append((p["exitAt"], 0))
        if flags & os.WUNTRACED and p["stopAt"] is not None and not p["stop_reported"]:
            events.append((max(p["stopAt"], self.now), 1))
        if flags & os.WCONTINUED and p["contAt"] is not None and not p["cont_reported"]:
            events.append((max(p["contAt"], self.now), 2))
        if not events:
            raise Diverge("hang")
        at, what = min(events)
        if at > self.now:
            self.now = at
            self.sync_procfs()
        if what == 0:
            p["reaped"] = self.terminal(p["status"])
            self.sync_procfs()
            return (pid, p["status"])
        return (pid, self.pending_report(p, flags, self.now))

    @staticmethod
    def pending_report(p, flags, now):
        if flags & os.WUNTRACED and p["stopAt"] is not None and p["stopAt"] <= now and not p["stop_reported"]:
            p["stop_reported"] = True
            return 0x7f | (19 << 8)             # WIFSTOPPED, SIGSTOP
        if flags & os.WCONTINUED and p["contAt"] is not None and p["contAt"] <= now and not p["cont_reported"]:
            p["cont_reported"] = True
            return 0xffff                       # WIFCONTINUED
        return None

    def waitpid_any(self, flags):
        """waitpid(0 / -1 / -pgid): ANY child of the caller (wait_pid must never get here)"""
        kids = [(pid, p) for pid, p in sorted(self.procs.items()) if p["kind"] == "child" and not p["reaped"]]
        if not kids:
            raise ChildProcessError(10, "No child processes")
        done = [(p["exitAt"], pid, p) for pid, p in kids if self.ended(p)]
        if not done:
            if flags & os.WNOHANG:
                return (0, 0)
            will = [(p["exitAt"], pid, p) for pid, p in kids if p["exitAt"] is not None]
            if not will:
                raise Diverge("hang")
            at, pid, p = min(will, key=lambda x: (x[0], x[1]))
            self.now = at
            self.sync_procfs()
        else:
            at, pid, p = min(done, key=lambda x: (x[0], x[1]))
        p["reaped"] = self.terminal(p["status"])
        self.sync_procfs()
        return (pid, p["status"])

    @staticmethod
    def terminal(st):
        """only a termination status reaps the child (a stopped/continued report leaves it there)"""
        return os.WIFEXITED(st) or os.WIFSIGNALED(st)

    def pid_exists(self, pid):
        self.tick()
        p = self.procs.get(pid)
        if p is None or p["kind"] == "never" or p["reaped"]:
            self.last_poll = (self.now, False)
            return False
        self.last_poll = (self.now, not self.ended(p))
        if not self.ended(p) and self.hidden(p):
            self.hidden_polls += 1
        return not self.ended(p)

    def kill(self, pid, sig):
        """os.kill as psutil sees it: the kernel's own process table (the truth the property speaks about).
        ESRCH = no such process; EPERM = there, but somebody else's (then procfs may well hide it: hidepid=)."""
        self.probes.append(sig)
        there = self.pid_exists(pid)
        if not there:
            raise ProcessLookupError(3, "No such process")
        if self.procs[pid].get("killerr") == "eperm":
            raise PermissionError(1, "Operation not permitted")
        return None

    sync_procfs = staticmethod(lambda: None)


class _ModProxy:
    """Stands in for a module inside psutil._psposix; a few attributes are overridden."""

    def __init__(self, real, **over):
        self.__dict__["_real"] = real
        self.__dict__.update(over)

    def __getattr__(self, name):
        return getattr(self._real, name)


STAT_TMPL = "%d (vproc) S 1 %d %d 0 -1 4194304 0 0 0 0 0 0 0 0 20 0 1 0 %d 1000000 100 " \
            "18446744073709551615 0 0 0 0 0 0 0 0 0 0 0 0 17 0 0 0 0 0 0 0 0 0 0 0 0 0 0\n"
STATUS_TMPL = "Name:\tvproc\nUmask:\t0022\nState:\tS (sleeping)\nTgid:\t%d\nNgid:\t0\nPid:\t%d\nPPid:\t1\n" \
              "TracerPid:\t0\nUid:\t0\t0\t0\t0\nGid:\t0\t0\t0\t0\nThreads:\t1\n"
PIDS = list(range(4001, 4009))
ANY_CHILD_PID = 4001


class Impl:
    """The real psutil functions over the simulated kernel."""

    def __init__(self, ctx):
        self.ps = ps = ctx.psutil
        self.px = px = ps._psposix
        self.world = World()
        self.fp = fakeproc.FakeProc(ps, prefix="psv-c15-")
        self.fp.write("stat", "cpu  1 1 1 1 1 1 1 1 1 1\nbtime 1700000000\n")
        self.present = set()
        self.world.sync_procfs = self.sync_procfs
        w = self.world
        # wait_pid(pid, timeout=None, proc_name=None, _waitpid, _timer, _min, _sleep, _pid_exists)
        self.saved_defaults = px.wait_pid.__defaults__
        names = px.wait_pid.__code__.co_varnames[:px.wait_pid.__code__.co_argcount]
        dnames = names[len(names) - len(self.saved_defaults):]
        # (seeded round 5) the liveness probe is NOT replaced: whatever `_pid_exists` the code hands to / defaults in
        # wait_pid runs for real, over the simulated kernel's `os.kill` and over the fake procfs tree — so that WHICH
        # probe the code asks is part of what is compared
        # (seeded round 5, C15-8) the CLOCKS are not replaced by name either: whatever clock function a default
        # parameter / a module-level name of psutil is bound to is swapped for the virtual clock OF THE SAME KIND
        # (time.monotonic / perf_counter -> the steady clock, time.time -> the steppable wall clock, time.sleep ->
        # the virtual sleep), by identity of the bound object; calls written `time.xxx()` go through a proxy of the
        # `time` module with the same mapping — so that WHICH clock each deadline computation reads is part of
        # what is compared
        over = {"_waitpid": w.waitpid}
        px.wait_pid.__defaults__ = tuple(over.get(n, v) for n, v in zip(dnames, self.saved_defaults))
        self.saved = [(px, "os", px.os)]
        self.saved_fn = []
        self.bind_clocks([ps, px, getattr(ps, "_psplatform", None), getattr(ps, "_common", None)])
        px.os = _ModProxy(os, waitpid=w.waitpid, kill=w.kill)
        for mod in (ps, getattr(ps, "_psplatform", None)):
            # psutil/__init__.py and _pslinux.py see the same kernel (everything else of `os` passes through)
            if mod is not None and getattr(mod, "os", None) is os:
                self.saved.append((mod, "os", mod.os))
                mod.os = _ModProxy(os, waitpid=w.waitpid, kill=w.kill)
        # a second procfs tree which lists other processes but none of the simulated ones ("repoint")
        self.alt = tempfile.mkdtemp(prefix="psv-c15alt-")
        for rel, data in (("stat", "cpu  1 1 1 1 1 1 1 1 1 1\nbtime 1700000000\n"), ("1/stat", STAT_TMPL % (1, 1, 1, 101)),
                          ("1/status", STATUS_TMPL % (1, 1))):
            os.makedirs(os.path.dirname(os.path.join(self.alt, rel)), exist_ok=True)
            with open(os.path.join(self.alt, rel), "w") as f:
                f.write(data)
        world = w
        # psutil.Popen.__init__ runs for real; only `subprocess.Popen` (CPython's, not psutil's) is a stub
        # that spawns nothing: .pid is the simulated PID, .returncode starts as None
        impl = self
        self.next_popen_pid = None

        class StubSubprocessPopen:
            def __init__(self, *a, **k):
                self.pid = impl.next_popen_pid
                self.returncode = None
                self.args = a[0] if a else None
                self.stdin = self.stdout = self.stderr = None
        self.saved.append((ps, "subprocess", ps.subprocess))
        ps.subprocess = _ModProxy(subprocess, Popen=StubSubprocessPopen)

        class VProcess(ps.Process):
            def wait(self, timeout=None):
                world.steps += 1
                if world.steps > world.max_steps:
                    raise Diverge("spin")
                world.calls.append((self.pid, timeout))
                world.waited_ids.append(id(self))
                return super().wait(timeout)

            def is_running(self):
                world.steps += 1
                if world.steps > world.max_steps:
                    raise Diverge("spin")
                world.sync_procfs()
                return super().is_running()
        self.VProcess = VProcess

        class VPopen(ps.Popen):
            """a real psutil.Popen (real __init__ / wait / __getattribute__) over the stub subprocess"""
            def wait(self, timeout=None):
                world.steps += 1
                if world.steps > world.max_steps:
                    raise Diverge("spin")
                world.calls.append((self.pid, timeout))
                world.waited_ids.append(id(self))
                return super().wait(timeout)

            def is_running(self):
                world.steps += 1
                if world.steps > world.max_steps:
                    raise Diverge("spin")
                world.sync_procfs()
                return super().is_running()
        self.VPopen = VPopen

    def virtual_clock(self, v):
        """the virtual counterpart of a real clock function (None = `v` is no clock function)"""
        w = self.world
        t = _realtime
        table = [(t.sleep, w.sleep), (t.monotonic, w.timer), (t.perf_counter, w.timer), (t.time, w.wall),
                 (getattr(t, "monotonic_ns", None), w.timer_ns), (getattr(t, "perf_counter_ns", None), w.timer_ns),
                 (getattr(t, "time_ns", None), w.wall_ns)]
        for real, virt in table:
            if real is not None and v is real:
                return virt
        return None

    def bind_clocks(self, mods):
        import inspect
        w = self.world
        seen_fn = set()

        def fix_fn(fn):
            k = 0
            while fn is not None and k < 8:
                k += 1
                fn = getattr(fn, "__func__", fn)
                if inspect.isfunction(fn) and id(fn) not in seen_fn:
                    seen_fn.add(id(fn))
                    d, kd = fn.__defaults__, fn.__kwdefaults__
                    nd = None if d is None else tuple(self.virtual_clock(x) or x for x in d)
                    nkd = None if kd is None else {a: (self.virtual_clock(x) or x) for a, x in kd.items()}
                    if (d is not None and any(a is not b for a, b in zip(d, nd))) or \
                            (kd is not None and any(kd[a] is not nkd[a] for a in kd)):
                        self.saved_fn.append((fn, d, kd))
                        fn.__defaults__, fn.__kwdefaults__ = nd, nkd
                fn = getattr(fn, "__wrapped__", None)
        for mod in mods:
            if mod is None:
                continue
            if getattr(mod, "time", None) is _realtime:
                self.saved.append((mod, "time", mod.time))
                mod.time = _ModProxy(_realtime, monotonic=w.timer, perf_counter=w.timer, time=w.wall, sleep=w.sleep,
                                     monotonic_ns=w.timer_ns, perf_counter_ns=w.timer_ns, time_ns=w.wall_ns)
            for name, v in list(vars(mod).items()):
                virt = None
                try:
                    virt = self.virtual_clock(v)
                except Exception:  # noqa: BLE001
                    pass
                if virt is not None:
                    self.saved.append((mod, name, v))
                    setattr(mod, name, virt)
                elif inspect.isfunction(v) and getattr(v, "__module__", None) == mod.__name__:
                    fix_fn(v)
                elif inspect.isclass(v) and getattr(v, "__module__", None) == mod.__name__:
                    for _, m in list(vars(v).items()):
                        if inspect.isfunction(m) or isinstance(m, (staticmethod, classmethod)):
                            fix_fn(m)

    def close(self):
        self.px.wait_pid.__defaults__ = self.saved_defaults
        for fn, d, kd in self.saved_fn:
            if fn is not self.px.wait_pid:
                fn.__defaults__, fn.__kwdefaults__ = d, kd
        for obj, name, val in self.saved:
            setattr(obj, name, val)
        self.fp.close()
        shutil.rmtree(self.alt, ignore_errors=True)

    # -- fake procfs follows the simulated kernel
    def ensure_proc(self, pid):
        if pid not in self.present:
            self.fp.write("%d/stat" % pid, STAT_TMPL % (pid, pid, pid, 100 + pid))
            self.fp.write("%d/status" % pid, STATUS_TMPL % (pid, pid))
            self.present.add(pid)

    def sync_procfs(self):
        """the procfs tree(s) follow the simulated kernel AND each process's view: an entry is there iff the process
        exists and its view lists it now; a "repoint" view moves psutil.PROCFS_PATH to the other tree instead"""
        w = self.world
        repoint = False
        for pid, p in w.procs.items():
            gone = p["reaped"] if p["kind"] == "child" else (p["kind"] == "never" or w.ended(p))
            hidden = (not gone) and w.hidden(p)
            if hidden and p.get("how") == "repoint":
                repoint = True
                continue
            if pid in self.present and (gone or hidden):
                self.fp.remove(str(pid))
                self.present.discard(pid)
            elif pid not in self.present and not gone and not hidden:
                self.ensure_proc(pid)
        want = self.alt if repoint else self.fp.root
        if self.ps.PROCFS_PATH != want:
            self.ps.PROCFS_PATH = want

    def new_world(self, start):
        w = self.world
        w.now = Fr(start)
        w.procs = {}
        w.max_sleeps = FUEL
        w.set_wall(None)
        w.reset_logs()
        if self.ps.PROCFS_PATH != self.fp.root:
            self.ps.PROCFS_PATH = self.fp.root

    # -- observables
    def outcome(self, fn):
        try:
            v = fn()
        except Diverge as d:
            return {"kind": d.kind}
        except self.ps.TimeoutExpired as e:
            try:
                return {"kind": "timeout", "seconds": jrat(e.seconds), "pid": e.pid}
            except Exception:
                return {"kind": "timeout", "seconds": repr(e.seconds), "pid": e.pid}
        except BaseException as e:  # noqa: BLE001 — the class is the observable
            if isinstance(e, (KeyboardInterrupt, SystemExit)):
                raise
            return {"kind": "exc", "exc": type(e).__name__}
        if v is None:
            return {"kind": "none"}
        if isinstance(v, int) and not isinstance(v, bool):
            return {"kind": "code", "v": int(v)}
        return {"kind": "value", "repr": repr(v)}

    def run_wait(self, case):
        """direct `_psposix.wait_pid(pid, timeout)`"""
        self.new_world(Fr(*case["start"]))
        w = self.world
        w.set_wall(case.get("wall"))
        pid = case["pid"]
        # a pid <= 0 names no process: the environment describes a child the caller has (waitpid(-1) would reap it)
        w.add(pid if pid > 0 else ANY_CHILD_PID, case["env"])
        w.sync_procfs()                 # the procfs tree lists the (living) process unless its view hides it
        tmo = None if case["timeout"] is None else Fr(*case["timeout"])
        out = self.outcome(lambda: self.px.wait_pid(pid, tmo))
        return {"out": out, "ret": jrat(w.now), "sleeps": [jrat(s) for s in w.sleeps],
                "nwait": w.procs[pid]["nwait"] if pid in w.procs else 0,
                "last_eintr": w.last_wait_eintr, "hidden_polls": w.hidden_polls, "wall_reads": w.wall_reads,
                "steady_reads": w.steady_reads}

    def run_pwait(self, case):
        """a sequence of `Process.wait(timeout)` calls on one object"""
        first_at = Fr(*case["calls"][0]["at"])
        self.new_world(first_at)
        w = self.world
        w.set_wall(case.get("wall"))
        pid = real_pid(case["pid"])
        self.ensure_proc(pid)
        try:
            # "self": Process() without a pid = the calling process
            proc = self.VProcess() if case["pid"] == "self" else self.VProcess(pid)
        except BaseException as e:  # noqa: BLE001
            return [{"out": {"kind": "exc", "exc": "ctor:" + type(e).__name__}, "start": jrat(w.now),
                     "ret": jrat(w.now), "sleeps": [], "nwait": 0, "oscalls": 0, "last_eintr": False}]
        w.add(pid, case["env"])
        w.reset_logs()
        w.sync_procfs()
        obs = []
        for c in case["calls"]:
            at = Fr(*c["at"])
            if at > w.now:
                w.now = at
                w.sync_procfs()
            w.reset_logs()
            n0 = w.procs[pid]["nwait"]
            t_start = w.now
            tmo = None if c["timeout"] is None else Fr(*c["timeout"])
            out = self.outcome(lambda: proc.wait(tmo))
            obs.append({"out": out, "start": jrat(t_start), "ret": jrat(w.now), "sleeps": [jrat(s) for s in w.sleeps],
                        "nwait": w.procs[pid]["nwait"] - n0, "oscalls": w.oscalls,
                        "last_eintr": w.last_wait_eintr, "hidden_polls": w.hidden_polls, "wall_reads": w.wall_reads,
                        "steady_reads": w.steady_reads})
            if out["kind"] in ("hang", "fuel"):
                break
        return obs

    def run_popen(self, case):
        """a sequence of `psutil.Popen.wait(timeout)` calls on one object; before a call marked `ext`
        subprocess's own poll() runs (reaps the child and stores returncode, as CPython does)"""
        first_at = Fr(*case["calls"][0]["at"])
        self.new_world(first_at)
        w = self.world
        w.set_wall(case.get("wall"))
        pid = case["pid"]
        self.ensure_proc(pid)
        self.next_popen_pid = pid
        try:
            q = self.ps.Popen(["vproc"])
            stub = object.__getattribute__(q, "_Popen__subproc")
        except BaseException as e:  # noqa: BLE001
            return [{"out": {"kind": "exc", "exc": "ctor:" + type(e).__name__}, "start": jrat(w.now),
                     "ret": jrat(w.now), "sleeps": [], "nwait": 0, "oscalls": 0, "last_eintr": False,
                     "rc": None, "ext": None, "stored_before": None}]
        w.add(pid, case["env"])
        w.reset_logs()
        w.sync_procfs()
        obs = []
        for c in case["calls"]:
            at = Fr(*c["at"])
            if at > w.now:
                w.now = at
                w.sync_procfs()
            ext = None
            if c.get("ext"):
                p = w.procs[pid]
                st = p["status"]
                if p["kind"] == "child" and not p["reaped"] and w.ended(p) and World.terminal(st) \
                        and stub.returncode is None:
                    # subprocess.Popen.poll(): waitpid(pid, WNOHANG) -> _handle_exitstatus
                    ext = os.WEXITSTATUS(st) if os.WIFEXITED(st) else -os.WTERMSIG(st)
                    stub.returncode = ext
                    p["reaped"] = True
                    w.sync_procfs()
            w.reset_logs()
            n0 = w.procs[pid]["nwait"]
            t_start = w.now
            before = stub.returncode
            tmo = None if c["timeout"] is None else Fr(*c["timeout"])
            out = self.outcome(lambda: q.wait(tmo))
            rc = stub.returncode
            if rc is None or (isinstance(rc, int) and not isinstance(rc, bool)):
                rcj = {"v": None if rc is None else int(rc)}
            else:
                rcj = {"bad": repr(rc)}
            obs.append({"out": out, "start": jrat(t_start), "ret": jrat(w.now), "sleeps": [jrat(s) for s in w.sleeps],
                        "nwait": w.procs[pid]["nwait"] - n0, "oscalls": w.oscalls,
                        "last_eintr": w.last_wait_eintr, "hidden_polls": w.hidden_polls, "wall_reads": w.wall_reads,
                        "steady_reads": w.steady_reads, "rc": rcj, "ext": ext,
                        "stored_before": None if before is None else int(before)})
            if out["kind"] in ("hang", "fuel"):
                break
        return obs

    def run_wprocs(self, case):
        """`psutil.wait_procs(procs, timeout, callback)`; a process may be handed in as a plain Process, as a
        psutil.Popen (`popen`), twice (same object), or as two EQUAL objects ([pid, 1] = a second object);
        `unhashable` = position at which something that cannot be hashed is inserted"""
        start = Fr(*case["start"])
        self.new_world(start)
        w = self.world
        w.set_wall(case.get("wall"))
        objs = {}
        stubs = {}
        try:
            for p in case["procs"]:
                self.ensure_proc(p["pid"])
                if p.get("popen"):
                    self.next_popen_pid = p["pid"]
                    objs[p["pid"]] = self.VPopen(["vproc"])
                    stubs[p["pid"]] = object.__getattribute__(objs[p["pid"]], "_Popen__subproc")
                else:
                    objs[p["pid"]] = self.VProcess(p["pid"])
            twins = {}
            lst = []
            for item in case["list"]:
                # [pid, 0] = the object; [pid, 1] = a second, equal, object (a plain Process) for the same process
                pid, twin = item
                if twin:
                    if pid not in twins:
                        twins[pid] = self.VProcess(pid)
                    lst.append(twins[pid])
                else:
                    lst.append(objs[pid])
        except BaseException as e:  # noqa: BLE001
            return {"kind": "exc", "exc": "ctor:" + type(e).__name__}
        if case.get("unhashable") is not None:
            lst.insert(min(case["unhashable"], len(lst)), [objs[case["procs"][0]["pid"]]])
        for p in case["procs"]:
            w.add(p["pid"], p["env"])
        w.sync_procfs()
        rc0 = {}
        for p in case["procs"]:
            pid = p["pid"]
            if p.get("popen") and p.get("extpoll"):
                # subprocess.Popen.poll() ran before the call: waitpid(pid, WNOHANG) -> _handle_exitstatus
                wp = w.procs[pid]
                st = wp["status"]
                if wp["kind"] == "child" and not wp["reaped"] and w.ended(wp) and World.terminal(st):
                    stubs[pid].returncode = os.WEXITSTATUS(st) if os.WIFEXITED(st) else -os.WTERMSIG(st)
                    wp["reaped"] = True
                    w.sync_procfs()
            if p.get("popen"):
                rc0[pid] = stubs[pid].returncode
        for p in case["procs"]:
            if p.get("prewait"):
                try:
                    objs[p["pid"]].wait(0)
                except BaseException:  # noqa: BLE001
                    pass
        w.reset_logs()
        w.max_sleeps = FUEL * 8          # a whole wait_procs call may sleep more than one wait call
        pos_of = {}
        for i, o in enumerate(lst):
            if not isinstance(o, list):
                pos_of.setdefault(id(o), i)      # first position at which this very object stands
        cblog, cbpos, cbseen = [], [], []

        def on_gone(pr):
            cblog.append(pr.pid)
            cbpos.append(pos_of.get(id(pr), -1))
            # what the callback can see of its argument NOW: the `returncode` instance attribute, and whether the
            # object already is in check_gone's `gone` set (read from the calling frame; None = not found)
            d = object.__getattribute__(pr, "__dict__")
            if "returncode" in d:
                rc = d["returncode"]
                ok = rc is None or (isinstance(rc, int) and not isinstance(rc, bool))
                rcj = {"v": None if (rc is None or not ok) else int(rc)}
            else:
                rcj = None
            in_gone = None
            try:
                g = sys._getframe(1).f_locals.get("gone")
                if isinstance(g, (set, frozenset, list, tuple)):
                    in_gone = any(x is pr for x in g)
            except Exception:  # noqa: BLE001
                pass
            cbseen.append([pr.pid, rcj, in_gone])
        cb = on_gone if case["hasCb"] else None
        if case.get("cb") == "bad":
            cb = 42                     # neither None nor callable
        tmo = None if case["timeout"] is None else Fr(*case["timeout"])
        res = {}

        def call():
            res["r"] = self.ps.wait_procs(lst, timeout=tmo, callback=cb)
        out = self.outcome(call)
        flat = [pid for pid, _ in w.calls]
        if out["kind"] != "none":
            return {"kind": "raised", "out": out, "flat": flat, "oscalls": w.oscalls, "ret": jrat(w.now),
                    "rc0": rc0, "hidden_polls": w.hidden_polls, "wall_reads": w.wall_reads, "steady_reads": w.steady_reads}
        gone, alive = res["r"]
        rep = {}
        for o in list(gone) + list(alive):
            rep.setdefault(o.pid, o)
        for pid, o in objs.items():
            rep.setdefault(pid, o)
        rcs = []
        bad_attr = []
        for pid in sorted(rep):
            o = rep[pid]
            d = object.__getattribute__(o, "__dict__")
            if "returncode" in d:
                rc = d["returncode"]
                if rc is None or (isinstance(rc, int) and not isinstance(rc, bool)):
                    rcs.append([pid, {"v": None if rc is None else int(rc)}])
                else:
                    rcs.append([pid, {"v": None}])
                    bad_attr.append([pid, repr(rc)])
            else:
                rcs.append([pid, None])
        calls = []
        for pid, t in w.calls:
            calls.append([pid, t])
        # identity: of several equal objects only the first one of the list may be waited on / touched / returned
        surv = {}
        for i, o in enumerate(lst):
            if not isinstance(o, list):
                surv.setdefault(o.pid, i)
        untouched_ok = True
        touched = []
        for i, o in enumerate(lst):
            if isinstance(o, list) or lst[surv[o.pid]] is o:
                continue
            d = object.__getattribute__(o, "__dict__")
            if "returncode" in d or d.get("_exitcode", None) is not self.ps._SENTINEL or id(o) in w.waited_ids:
                untouched_ok = False
                touched.append(i)
        subs = []
        for pid in sorted(stubs):
            if pid not in surv or lst[surv[pid]] is not objs[pid]:
                continue                # an equal plain Process object stands for this process
            rc = stubs[pid].returncode
            subs.append([pid, {"v": None if rc is None else int(rc)}])
        return {"kind": "ok", "gone": [o.pid for o in gone], "alive": [o.pid for o in alive],
                "returncodes": rcs, "cbLog": cblog, "cbSeen": cbseen, "ret": jrat(w.now),
                "sleeps": [jrat(s) for s in w.sleeps], "calls": calls, "flat": flat,
                "gone_pos": [pos_of.get(id(o), -1) for o in gone], "alive_pos": [pos_of.get(id(o), -1) for o in alive],
                "cb_pos": cbpos, "waited_pos": sorted({pos_of.get(i, -1) for i in w.waited_ids}),
                "twins_untouched": untouched_ok, "touched": touched, "subs": subs, "rc0": rc0, "bad_attr": bad_attr,
                "hidden_polls": w.hidden_polls, "wall_reads": w.wall_reads, "steady_reads": w.steady_reads,
                "hidden_alive_at_return": sorted(pid for pid, q in w.procs.items()
                                                 if q["kind"] != "never" and not q["reaped"] and not w.ended(q) and w.hidden(q))}

    def run_waitc(self, case):
        """`_psposix.wait_pid(pid, timeout)` with system calls that take (virtual) time"""
        import random
        w = self.world
        w.cost_rng = random.Random(case["cost_seed"])
        try:
            ob = Impl.run_wait(self, case)
        finally:
            w.cost_rng = None
        ob["costs"] = [jrat(c) for c in w.costs]
        ob["last_poll_alive"] = None if w.last_poll is None else bool(w.last_poll[1])
        return ob


# ------------------------------------------------------------------------------ generators

I0 = Fr(1, 10000)
CAP = Fr(1, 25)
COSTS = [Fr(0), Fr(1, 10**6), Fr(1, 10**5), Fr(1, 10**4), Fr(1, 2000), Fr(1, 1000)]


def poll_offsets(n):
    """instants (relative to the start of a call) at which wait_pid polls, per the property"""
    out, t, iv = [], Fr(0), I0
    for _ in range(n):
        out.append(t)
        t += iv
        iv = min(iv * 2, CAP)
    return out


POLLS = poll_offsets(40)
EPS = [Fr(1, 10**7), Fr(1, 10**12), Fr(1, 100000)]

STATUS_FAMILIES = ["exit", "signal", "core", "stopped", "continued", "random"]


def gen_status(rng):
    f = rng.choice(["exit", "exit", "signal", "signal", "core", "stopped", "continued", "random"])
    if f == "exit":
        return rng.choice([0, 1, 2, 127, 128, 255, rng.randrange(256)]) << 8, f
    if f == "signal":
        return rng.choice([1, 2, 9, 11, 15, 31, 32, 33, 34, 64, 65, 126, rng.randrange(1, 127)]), f
    if f == "core":
        return rng.choice([3, 4, 6, 8, 11, rng.randrange(1, 127)]) | 0x80, f
    if f == "stopped":
        return 0x7f | (rng.choice([19, 20, 5]) << 8), f
    if f == "continued":
        return 0xffff, f
    return rng.randrange(65536), f


def near(rng, t):
    """exactly at / just before / just after instant t"""
    r = rng.random()
    if r < 0.4:
        return t, "at"
    e = rng.choice(EPS)
    if r < 0.7:
        return t - e, "before"
    return t + e, "after"


def gen_instant(rng, start, deadline):
    """an exit instant placed relative to the polling instants and the deadline"""
    r = rng.random()
    if r < 0.08:
        return None, "never"
    if r < 0.16:
        return start - rng.choice([Fr(0), Fr(1, 1000), Fr(5)]), "already"
    if r < 0.30 and deadline is not None and deadline > start:
        # strictly between the last poll made before the deadline and the deadline: the final
        # (up to 40 ms) slice, which only the poll made AFTER sleeping past the deadline can see
        k = max(i for i, t in enumerate(POLLS) if start + t < deadline) if start + POLLS[-1] >= deadline else None
        lo = start + POLLS[k] if k is not None else deadline - CAP
        t = lo + (deadline - lo) * Fr(rng.randrange(1, 1000), 1000)
        return t, "last-slice"
    if r < 0.55 or deadline is None:
        k = rng.randrange(0, 16 if rng.random() < 0.8 else 40)
        t, how = near(rng, start + POLLS[k])
        return t, "poll-" + how
    if r < 0.85:
        t, how = near(rng, deadline)
        return t, "deadline-" + how
    if r < 0.93:
        # just inside the one-poll-late window
        t, how = near(rng, deadline + rng.choice([CAP, CAP / 2, I0]))
        return t, "window-" + how
    return start + Fr(rng.randrange(0, 30000), 10000), "random"


def gen_timeout(rng):
    r = rng.random()
    if r < 0.12:
        return None, "none"
    if r < 0.24:
        return Fr(0), "zero"
    if r < 0.60:
        k = rng.randrange(1, 16 if rng.random() < 0.8 else 40)
        t, how = near(rng, POLLS[k])
        return max(t, Fr(0)), "poll-" + how
    if r < 0.70:
        return rng.choice([Fr(1, 100000), Fr(1, 20000), Fr(1, 10000), Fr(3, 10000)]), "tiny"
    if r < 0.80:
        return rng.choice([Fr(1, 25), Fr(2, 25), Fr(1, 10), Fr(1, 2), Fr(1), Fr(3)]), "round"
    return Fr(rng.randrange(1, 20000), 10000), "random"


def gen_eintr(rng, timeout, start, exit_at):
    r = rng.random()
    if r < 0.6:
        return [], "none"
    if r < 0.7:
        return [True], "first"
    if r < 0.78:
        return [True] * rng.randrange(2, 6), "burst"
    if r < 0.86:
        return [rng.random() < 0.4 for _ in range(rng.randrange(1, 20))], "random"
    if r < 0.94 and timeout is not None:
        # interrupt the poll made at/after the deadline (the known-finding region when the process has ended)
        k = next((i for i, t in enumerate(POLLS) if t >= timeout), len(POLLS) - 1)
        pat = [False] * k + [True]
        return pat, "at-deadline"
    return "always", "always"


VIEW_HOW = [("hidepid", "eperm"), ("hidepid", "ok"), ("repoint", "ok")]


def gen_view(rng, start, timeout, exit_at, hows=VIEW_HOW):
    """(seeded round 5) what the procfs tree shows of the process: not listed during [hideAt, showAt). hideAt is placed
    before the call, exactly at / just before / just after a polling instant, the deadline, the exit instant, or at random;
    the entry comes back (showAt) in 30 % of the views"""
    deadline = None if timeout is None else start + timeout
    r = rng.random()
    if r < 0.35:
        hide, fam = start - rng.choice([Fr(1), Fr(1, 1000), Fr(0)]), "from-start"
    elif r < 0.65:
        t, how = near(rng, start + POLLS[rng.randrange(0, 12)])
        hide, fam = t, "poll-" + how
    elif r < 0.8 and deadline is not None:
        t, how = near(rng, deadline)
        hide, fam = t, "deadline-" + how
    elif r < 0.9 and exit_at is not None:
        t, how = near(rng, exit_at)
        hide, fam = t, "exit-" + how
    else:
        hide, fam = start + Fr(rng.randrange(0, 20000), 10000), "random"
    show = None
    if rng.random() < 0.3:
        show = hide + rng.choice([I0, 3 * I0, CAP, Fr(1, 2), Fr(rng.randrange(1, 10000), 10000)])
        fam += "+shown-again"
    how, kill = rng.choice(hows)
    return {"hideAt": jrat(hide), "showAt": None if show is None else jrat(show), "how": how, "kill": kill}, fam


WALL_BASES = [Fr(0), Fr(1700000000), Fr(1700000000) + Fr(123456, 10**6), Fr(-5), Fr(86400 * 365 * 60)]
WALL_DELTAS = [Fr(1, 10**6), Fr(1, 10000), Fr(1, 1000), Fr(1, 25), Fr(1, 2), Fr(1), Fr(37), Fr(3600), Fr(86400 * 365)]


def gen_wall(rng, start, timeout, exit_at, n_polls=14):
    """(seeded round 5, C15-8) the WALL clock of the case: `base` ahead of the steady clock, then stepped 1-3 times, forwards
    or backwards, by 1 us … a year. A step is placed right after the call started (between the computation of the
    deadline and the first check), exactly at / just before / just after a polling instant, the deadline, the exit
    instant, in the one-poll-late window, before the call (harmless), or at random."""
    deadline = None if timeout is None else start + timeout
    steps, fams = [], []
    for _ in range(rng.choice([1, 1, 1, 2, 2, 3])):
        r = rng.random()
        if r < 0.25:
            at, fam = start + rng.choice(EPS + [I0 / 2]), "after-start"
        elif r < 0.55:
            t, how = near(rng, start + POLLS[rng.randrange(0, n_polls)])
            at, fam = t, "poll-" + how
        elif r < 0.75 and deadline is not None:
            t, how = near(rng, deadline - rng.choice([Fr(0), Fr(0), I0, CAP / 2]))
            at, fam = t, "deadline-" + how
        elif r < 0.85 and exit_at is not None:
            t, how = near(rng, exit_at)
            at, fam = t, "exit-" + how
        elif r < 0.9:
            at, fam = start - rng.choice([Fr(1), Fr(1, 1000)]), "before-call"
        else:
            at, fam = start + Fr(rng.randrange(0, 20000), 10000), "random"
        delta = rng.choice(WALL_DELTAS) * rng.choice([1, 1, -1, -1, -1])
        steps.append([jrat(at), jrat(delta)])
        fams.append(("fwd" if delta > 0 else "back") + "@" + fam)
    steps.sort(key=lambda x: Fr(*x[0]))
    return {"base": jrat(rng.choice(WALL_BASES)), "steps": steps}, "+".join(sorted(set(fams)))


def jenv(kind, status, exit_at, eintr):
    """`eintr` = list of booleans (calls beyond the list are not interrupted) or "always" """
    d = {"kind": kind, "status": status, "exitAt": None if exit_at is None else jrat(exit_at),
         "eintr": [] if eintr == "always" else eintr}
    if eintr == "always":
        d["eintrTail"] = True
    return d


def has_eintr(env):
    return any(env.get("eintr", [])) or bool(env.get("eintrTail"))


def gen_wait_case(rng):
    start = rng.choice([Fr(0), Fr(1), Fr(12345, 1000), Fr(rng.randrange(0, 10**6), 997)])
    timeout, tfam = gen_timeout(rng)
    kind = rng.choice(["child", "child", "child", "nonchild", "nonchild", "never"])
    status, sfam = gen_status(rng) if kind == "child" else (0, "-")
    deadline = None if timeout is None else start + timeout
    exit_at, pfam = gen_instant(rng, start, deadline)
    if kind == "never":
        exit_at, pfam = None, "never-existed"
    eintr, efam = gen_eintr(rng, timeout, start, exit_at)
    pid = rng.choice(PIDS)
    if rng.random() < 0.01:
        pid = 0
    env = jenv(kind, status, exit_at, eintr)
    fam = {"timeout": tfam, "kind": kind, "status": sfam, "place": pfam, "eintr": efam}
    r = rng.random()
    if r < 0.025:
        # (third round) a pid that names no single process: waitpid(-1) = ANY child, waitpid(-g) = a process group.
        # The caller HAS a child (the environment): a wait_pid that lets the pid through would steal its status.
        pid = rng.choice([-1, -1, -1, -2, -ANY_CHILD_PID, -2**31])
        if kind != "child" or exit_at is None:
            st, sfam = gen_status(rng)
            env = jenv("child", st, start - rng.choice([Fr(0), Fr(1)]) if rng.random() < 0.7 else start + Fr(1, 1000), [])
        fam = dict(fam, kind="pid-negative", status=sfam)
    elif r < 0.15 and kind == "child":
        # the child is stopped (and maybe continued) while alive: waitpid reports that ONLY under WUNTRACED /
        # WCONTINUED, which wait_pid does not pass — the events must stay invisible
        lo = start
        hi = exit_at if (exit_at is not None and exit_at > start) else start + Fr(1, 10)
        if hi > lo:
            stop = lo + (hi - lo) * Fr(rng.randrange(0, 900), 1000)
            env["stopAt"] = jrat(stop)
            if rng.random() < 0.5:
                env["contAt"] = jrat(stop + (hi - stop) * Fr(rng.randrange(1, 999), 1000))
            fam = dict(fam, stop="stopped" + ("+continued" if "contAt" in env else ""))
    elif r < 0.19:
        # a child whose status somebody else collected before the call (second waiter, subprocess.poll(), SIGCHLD
        # ignored): waitpid says ECHILD, the PID is gone — for wait_pid a PID that never existed
        st, _ = gen_status(rng)
        env = jenv("never", 0, None, eintr)
        env["wasChild"] = {"status": st, "exitAt": jrat(start - rng.choice([Fr(0), Fr(1, 1000), Fr(3)]))}
        fam = dict(fam, kind="reaped-elsewhere", place="never-existed", status="-")
    if pid > 0 and env["kind"] in ("child", "nonchild") and rng.random() < 0.25:
        # (seeded round 5) a procfs view that hides the (living) process: kill(pid, 0) and procfs disagree
        env["view"], vfam = gen_view(rng, start, timeout, exit_at)
        fam = dict(fam, view=vfam)
    case = {"op": "wait", "env": env, "pid": pid,
            "timeout": None if timeout is None else jrat(timeout), "start": jrat(start), "fuel": FUEL,
            "fam": fam}
    if rng.random() < (0.3 if timeout is not None else 0.1):
        # (seeded round 5, C15-8) a wall clock that is stepped while (before, after) the call polls
        case["wall"], cfam = gen_wall(rng, start, timeout, exit_at)
        case["fam"] = dict(fam, clock=cfam)
    return case


def gen_pwait_case(rng):
    c = gen_wait_case(rng)
    while c["pid"] <= 0:
        c = gen_wait_case(rng)
    start = Fr(*c["start"])
    if rng.random() < 0.05:
        # the validation clause is Process.wait's (wait_pid itself is only ever called with timeout >= 0)
        c["timeout"] = jrat(-rng.choice([Fr(1, 1000), Fr(1), Fr(5, 2)]))
        c["fam"]["timeout"] = "negative"
    r0 = rng.random()
    if r0 < 0.04:
        # Process().wait(): the calling process waiting for itself
        c["pid"] = "self"
        c["env"] = jenv("nonchild", 0, None, c["env"]["eintr"] if not c["env"].get("eintrTail") else "always")
        c["fam"] = dict(c["fam"], kind="self", place="never", status="-")
        if c["timeout"] is not None and Fr(*c["timeout"]) > 3:
            c["timeout"] = jrat(Fr(1, 2))
    elif r0 < 0.07:
        c["pid"] = 0
        c["fam"] = dict(c["fam"], kind="pid0")
    calls = [{"timeout": c["timeout"], "at": jrat(start)}]
    t = start
    for _ in range(rng.randrange(1, 4)):
        t = t + rng.choice([Fr(0), Fr(1, 1000), Fr(1, 2), Fr(3), Fr(40)])
        r = rng.random()
        if r < 0.2:
            tm = None
        elif r < 0.4:
            tm = Fr(0)
        elif r < 0.55:
            tm = -rng.choice([Fr(1, 1000), Fr(2)])
        else:
            tm = gen_timeout(rng)[0]
        calls.append({"timeout": None if tm is None else jrat(tm), "at": jrat(t)})
    # every call starts no earlier than the previous one could have ended: the harness moves the
    # clock forward only, and tells the driver the instant each call really started
    out = {"op": "pwait", "env": c["env"], "pid": c["pid"], "fuel": FUEL, "calls": calls, "fam": c["fam"]}
    if c.get("wall"):
        out["wall"] = c["wall"]
    return out


def gen_popen_case(rng):
    """calls of psutil.Popen.wait on one object; `ext` = subprocess's own poll() runs just before the call"""
    c = gen_wait_case(rng)
    while c["pid"] <= 0 or c["env"].get("wasChild"):
        c = gen_wait_case(rng)
    start = Fr(*c["start"])
    if rng.random() < 0.7 and c["env"]["kind"] != "child":
        # a Popen is a child unless somebody else reaped it
        st, sfam = gen_status(rng)
        c["env"] = dict(c["env"], kind="child", status=st)
        if c["env"]["exitAt"] is None and rng.random() < 0.7:
            c["env"]["exitAt"] = jrat(start + Fr(rng.randrange(0, 2000), 10000))
        c["fam"] = dict(c["fam"], kind="child", status=sfam)
    calls = [{"timeout": c["timeout"], "at": jrat(start)}]
    if rng.random() < 0.15:
        calls[0]["ext"] = True
    t = start
    for _ in range(rng.randrange(1, 4)):
        t = t + rng.choice([Fr(0), Fr(1, 1000), Fr(1, 2), Fr(3), Fr(40)])
        r = rng.random()
        if r < 0.15:
            tm = None
        elif r < 0.35:
            tm = Fr(0)
        elif r < 0.55:
            tm = -rng.choice([Fr(1, 1000), Fr(1), Fr(2)])
        else:
            tm = gen_timeout(rng)[0]
        call = {"timeout": None if tm is None else jrat(tm), "at": jrat(t)}
        if rng.random() < 0.25:
            call["ext"] = True
        calls.append(call)
    out = {"op": "popen", "env": c["env"], "pid": c["pid"], "fuel": FUEL, "calls": calls, "fam": c["fam"]}
    if c.get("wall"):
        out["wall"] = c["wall"]
    return out


def gen_wprocs_case(rng):
    n = rng.choice([1, 1, 2, 2, 3, 3, 4, 5])
    start = rng.choice([Fr(0), Fr(7, 2), Fr(rng.randrange(0, 10**5), 13)])
    r = rng.random()
    if r < 0.12:
        timeout, tfam = None, "none"
    elif r < 0.22:
        timeout, tfam = Fr(0), "zero"
    elif r < 0.27:
        timeout, tfam = -Fr(1, 2), "negative"
    elif r < 0.6:
        timeout, tfam = rng.choice([Fr(1, 1000), Fr(1, 25), Fr(1, 10), Fr(1, 3), Fr(1, 2), Fr(1), Fr(3, 2), Fr(5, 2)]), "round"
    else:
        timeout, tfam = Fr(rng.randrange(1, 30000), 10000), "random"
    deadline = None if timeout is None else start + timeout
    pids = rng.sample(PIDS, n)
    procs = []
    for pid in pids:
        kind = rng.choice(["child", "child", "nonchild", "never"] if rng.random() < 0.9 else ["never"])
        status, _ = gen_status(rng) if kind == "child" else (0, "-")
        if kind == "child" and rng.random() < 0.85:
            status = rng.choice([0, 256, 9, 15, 139, rng.randrange(256) << 8])
        rr = rng.random()
        if timeout is None and rr < 0.95:
            exit_at = start + Fr(rng.randrange(0, 40000), 10000) if rng.random() < 0.8 else start - 1
        elif rr < 0.15:
            exit_at = None
        elif rr < 0.3:
            exit_at = start - rng.choice([Fr(0), Fr(1)])
        elif rr < 0.6 and deadline is not None:
            exit_at = near(rng, deadline + rng.choice([Fr(0), Fr(0), CAP, -CAP, I0]))[0]
        elif rr < 0.8:
            k = rng.randrange(0, 30)
            exit_at = near(rng, start + POLLS[k] + rng.choice([Fr(0), Fr(1, n), Fr(2, n)]))[0]
        else:
            exit_at = start + Fr(rng.randrange(0, 40000), 10000)
        if kind == "never":
            exit_at = None
        eintr = []
        er = rng.random()
        if er < 0.1:
            eintr = [rng.random() < 0.3 for _ in range(rng.randrange(1, 12))]
        elif er < 0.13:
            eintr = [True] * 3
        p = {"pid": pid, "env": jenv(kind, status, exit_at, eintr)}
        if kind != "never" and rng.random() < 0.2:
            # (seeded round 5) per-process procfs view (hidepid: the entry itself disappears; PROCFS_PATH stays)
            p["env"]["view"], _ = gen_view(rng, start, timeout, exit_at, hows=VIEW_HOW[:2])
        if exit_at is not None and exit_at <= start and rng.random() < 0.3:
            p["prewait"] = True
        procs.append(p)
    for p in procs:
        # the object handed in is a psutil.Popen (its wait() answers from subprocess's returncode first)
        if rng.random() < 0.3:
            p["popen"] = True
            if p["env"]["kind"] == "child" and rng.random() < 0.4:
                p["extpoll"] = True     # subprocess's own poll() ran before the call
    lst = [[p["pid"], 0] for p in procs]
    dup = rng.random()
    if dup < 0.15:
        lst.append(list(rng.choice(lst)))
    elif dup < 0.25:
        lst.append([rng.choice(lst)[0], 1])
        for p in procs:
            if p["pid"] == lst[-1][0]:
                p.pop("prewait", None)
                p.pop("extpoll", None)
    rng.shuffle(lst)
    case = {"op": "wprocs", "procs": procs, "list": lst,
            "timeout": None if timeout is None else jrat(timeout), "start": jrat(start),
            "hasCb": rng.random() < 0.75, "fuel": FUEL,
            "fam": {"timeout": tfam, "n": n}}
    if any(p["env"].get("view") for p in procs):
        case["fam"]["view"] = True
    if rng.random() < (0.25 if timeout is not None else 0.05):
        # (seeded round 5, C15-8) the wall clock is stepped while wait_procs slices its deadline
        exits = [Fr(*p["env"]["exitAt"]) for p in procs if p["env"].get("exitAt") is not None]
        case["wall"], cfam = gen_wall(rng, start, timeout if (timeout is None or timeout >= 0) else None,
                                      rng.choice(exits) if exits else None, n_polls=24)
        case["fam"]["clock"] = cfam
    if rng.random() < 0.06:
        # callback that is neither None nor callable (a negative timeout is still reported first)
        case["hasCb"] = True
        case["cb"] = "bad"
        case["fam"]["cb"] = "bad"
    if rng.random() < 0.05:
        # something that cannot be hashed among the processes: TypeError from set(procs), after the timeout validation
        case["unhashable"] = rng.randrange(0, len(lst) + 1)
        case["fam"]["unhashable"] = True
    return case


# ---- exhaustive family (second extension): every combination of
#      2-3 processes x the pass in which each one exits (1, 2, 3, never) x timeout (None, short, long), with a callback.
#      A pass of wait_procs lasts 1 s in total (1/len(alive) s per process), so "exits in pass k" = exits at k - 1/2 s.
EXIT_PASS = {1: Fr(1, 4), 2: Fr(5, 4), 3: Fr(9, 4), None: None}
ENUM_TIMEOUTS = {"none": None, "short": Fr(1, 20), "long": Fr(7, 2)}


def enum_cases():
    import itertools
    out = []
    for n in (2, 3):
        for passes in itertools.product([1, 2, 3, None], repeat=n):
            for tname, tmo in ENUM_TIMEOUTS.items():
                if tmo is None and None in passes:
                    continue            # would never return
                procs = []
                for i, k in enumerate(passes):
                    ex = EXIT_PASS[k]
                    kind = "child" if i % 2 == 0 else "nonchild"
                    procs.append({"pid": PIDS[i], "env": jenv(kind, [0, 9, 256][i % 3] if kind == "child" else 0, ex, [])})
                    if i == 1:
                        procs[-1]["popen"] = True
                out.append({"op": "wprocs", "procs": procs, "list": [[p["pid"], 0] for p in procs],
                            "timeout": None if tmo is None else jrat(tmo), "start": [0, 1], "hasCb": True, "fuel": FUEL,
                            "fam": {"timeout": "enum-" + tname, "n": n, "enum": True,
                                    "passes": ",".join("-" if k is None else str(k) for k in passes)}})
    return out


# ---- exhaustive family (seeded round 5): a procfs view that hides the process, through Process.wait / Popen.wait / wait_procs
#      kind x exit instant x hide instant x shown again? x timeout x (how the view comes about, what kill answers)
def view_enum_cases():
    import itertools
    out = []
    start = Fr(0)
    exits = {"never": None, "before-hide": Fr(1, 20000), "while-hidden": Fr(1, 4000), "later": Fr(1, 200)}
    hides = {"from-start": Fr(-1), "poll1": POLLS[1], "poll3": POLLS[3]}
    shows = {"never": None, "2-polls": Fr(1, 5000)}
    tmos = {"zero": Fr(0), "1ms": Fr(1, 1000), "50ms": Fr(1, 20), "none": None}
    for op, kind, (en, ex), (hn, hide), (sn, dshow), (tn, tmo), (how, kill) in itertools.product(
            ("pwait", "popen", "wprocs"), ("nonchild", "child"), exits.items(), hides.items(), shows.items(), tmos.items(), VIEW_HOW):
        if tmo is None and ex is None:
            continue                    # would never return
        if op == "wprocs" and how == "repoint":
            continue
        view = {"hideAt": jrat(hide), "showAt": None if dshow is None else jrat(max(hide, start) + dshow), "how": how, "kill": kill}
        env = dict(jenv(kind, 9 if kind == "child" else 0, ex, []), view=view)
        fam = {"timeout": "view-enum-" + tn, "kind": kind, "status": "signal" if kind == "child" else "-", "place": "view-enum-" + en,
               "eintr": "none", "view": "enum-" + hn + ("+shown-again" if dshow is not None else ""), "view_enum": True}
        jt = None if tmo is None else jrat(tmo)
        if op == "wprocs":
            out.append({"op": "wprocs", "procs": [{"pid": 4002, "env": env}], "list": [[4002, 0]], "timeout": jt,
                        "start": jrat(start), "hasCb": True, "fuel": FUEL, "fam": {"timeout": "view-enum-" + tn, "n": 1, "view": True,
                                                                                "view_enum": True}})
        else:
            out.append({"op": op, "env": env, "pid": 4002, "fuel": FUEL,
                        "calls": [{"timeout": jt, "at": jrat(start)}, {"timeout": [0, 1], "at": jrat(start + Fr(1, 10))}], "fam": fam})
    return out


# ---- exhaustive family (seeded round 5, C15-8): ONE step of the wall clock, through every entry point
#      entry point x kind x exit (never, before the deadline, after deadline + one poll) x direction x size x step instant x timeout
def clock_enum_cases():
    import itertools
    out = []
    start = Fr(0)
    tmos = {"1ms": Fr(1, 1000), "50ms": Fr(1, 20), "1s": Fr(1)}
    sizes = {"1ms": Fr(1, 1000), "1h": Fr(3600)}
    ats = {"after-start": lambda tmo: start + I0 / 2, "3rd-poll": lambda tmo: start + POLLS[3],
           "before-deadline": lambda tmo: start + tmo - I0 / 4}
    exits = {"never": lambda tmo: None, "before-deadline": lambda tmo: start + tmo / 2,
             "late": lambda tmo: start + tmo + CAP + Fr(1, 100)}
    for op, kind, (en, ex), sign, (zn, size), (an, at), (tn, tmo) in itertools.product(
            ("wait", "pwait", "popen", "wprocs"), ("child", "nonchild"), exits.items(), (1, -1), sizes.items(), ats.items(), tmos.items()):
        wall = {"base": jrat(Fr(1700000000)), "steps": [[jrat(at(tmo)), jrat(sign * size)]]}
        env = jenv(kind, 7 << 8 if kind == "child" else 0, ex(tmo), [])
        cfam = ("fwd" if sign > 0 else "back") + "-" + zn + "@" + an
        fam = {"timeout": "clock-enum-" + tn, "kind": kind, "status": "exit" if kind == "child" else "-", "place": "clock-enum-" + en,
               "eintr": "none", "clock": "enum:" + cfam, "clock_enum": True}
        if op == "wprocs":
            out.append({"op": "wprocs", "procs": [{"pid": 4003, "env": env}], "list": [[4003, 0]], "timeout": jrat(tmo),
                        "start": jrat(start), "hasCb": True, "fuel": FUEL, "wall": wall,
                        "fam": {"timeout": "clock-enum-" + tn, "n": 1, "clock": "enum:" + cfam, "clock_enum": True}})
        elif op == "wait":
            out.append({"op": "wait", "env": env, "pid": 4003, "timeout": jrat(tmo), "start": jrat(start), "fuel": FUEL,
                        "wall": wall, "fam": fam})
        else:
            out.append({"op": op, "env": env, "pid": 4003, "fuel": FUEL, "wall": wall,
                        "calls": [{"timeout": jrat(tmo), "at": jrat(start)}, {"timeout": [0, 1], "at": jrat(start + 2)}], "fam": fam})
    return out


CORPUS = [
    # child killed by SIGKILL between the 4th and 5th poll, timeout 10 ms
    {"op": "wait", "env": jenv("child", 9, Fr(1, 1000), []), "pid": 4001, "timeout": jrat(Fr(1, 100)),
     "start": [0, 1], "fuel": FUEL, "fam": {"timeout": "corpus", "kind": "child", "status": "signal", "place": "corpus", "eintr": "none"}},
    # exit exactly at the deadline which is exactly a polling instant: the poll comes first → exit code
    {"op": "wait", "env": jenv("child", 3 << 8, POLLS[5], []), "pid": 4002, "timeout": jrat(POLLS[5]),
     "start": [0, 1], "fuel": FUEL, "fam": {"timeout": "corpus", "kind": "child", "status": "exit", "place": "deadline-at", "eintr": "none"}},
    # the witness of the known finding: already dead, timeout 0, the only poll is interrupted
    {"op": "wait", "env": jenv("child", 0, Fr(0), [True]), "pid": 4003, "timeout": [0, 1],
     "start": [1, 1], "fuel": FUEL, "fam": {"timeout": "zero", "kind": "child", "status": "exit", "place": "already", "eintr": "at-deadline"}},
    # never existed
    {"op": "wait", "env": jenv("never", 0, None, []), "pid": 4004, "timeout": None,
     "start": [0, 1], "fuel": FUEL, "fam": {"timeout": "none", "kind": "never", "status": "-", "place": "never-existed", "eintr": "none"}},
    # Lean `ex_late`: exit(1) at 0.2 ms, strictly between the last poll before the deadline (0.1 ms) and the
    # deadline (0.25 ms): the poll made after sleeping past the deadline (0.3 ms) must return 1
    {"op": "wait", "env": jenv("child", 1 << 8, Fr(1, 5000), []), "pid": 4005, "timeout": jrat(Fr(1, 4000)),
     "start": [0, 1], "fuel": FUEL, "fam": {"timeout": "corpus", "kind": "child", "status": "exit", "place": "last-slice", "eintr": "none"}},
    # the same in the capped regime: timeout 1 s, exit 10 ms before the deadline
    {"op": "wait", "env": jenv("nonchild", 0, Fr(99, 100), []), "pid": 4006, "timeout": [1, 1],
     "start": [0, 1], "fuel": FUEL, "fam": {"timeout": "corpus", "kind": "nonchild", "status": "-", "place": "last-slice", "eintr": "none"}},
    # witness of C15-popen-negative-cached: returncode 0 stored by the first wait, then wait(-1)
    {"op": "popen", "env": jenv("child", 0, Fr(0), []), "pid": 4007, "fuel": FUEL,
     "calls": [{"timeout": [0, 1], "at": [1, 1]}, {"timeout": [-1, 1], "at": [2, 1]}],
     "fam": {"timeout": "zero", "kind": "child", "status": "exit", "place": "already", "eintr": "none"}},
    # the calling process waiting for itself
    {"op": "pwait", "env": jenv("nonchild", 0, None, []), "pid": "self", "fuel": FUEL,
     "calls": [{"timeout": [3, 10000], "at": [0, 1]}, {"timeout": [0, 1], "at": [1, 1]}],
     "fam": {"timeout": "tiny", "kind": "self", "status": "-", "place": "never", "eintr": "none"}},
    # Process(0).wait()
    {"op": "pwait", "env": jenv("nonchild", 0, None, []), "pid": 0, "fuel": FUEL,
     "calls": [{"timeout": None, "at": [0, 1]}, {"timeout": [1, 100], "at": [1, 1]}, {"timeout": [-1, 1], "at": [1, 1]}],
     "fam": {"timeout": "none", "kind": "pid0", "status": "-", "place": "never", "eintr": "none"}},
    # (third round) wait_pid(-1): the caller has a dead child; nothing may be waited for, ValueError at once
    {"op": "wait", "env": jenv("child", 3 << 8, Fr(0), []), "pid": -1, "timeout": None,
     "start": [1, 1], "fuel": FUEL, "fam": {"timeout": "none", "kind": "pid-negative", "status": "exit", "place": "already", "eintr": "none"}},
    {"op": "wait", "env": jenv("child", 9, Fr(0), []), "pid": -1, "timeout": [1, 100],
     "start": [1, 1], "fuel": FUEL, "fam": {"timeout": "round", "kind": "pid-negative", "status": "signal", "place": "already", "eintr": "none"}},
    # witness of C15-eintr-never-existed (Lean: neverEintrEnv): never existed, first waitpid interrupted -> one sleep
    {"op": "wait", "env": jenv("never", 0, None, [True]), "pid": 4007, "timeout": None,
     "start": [0, 1], "fuel": FUEL, "fam": {"timeout": "none", "kind": "never", "status": "-", "place": "never-existed", "eintr": "first"}},
    # a child stopped at 1 ms, continued at 2 ms, exit(0) at 5 ms; timeout 10 ms: the stop must stay invisible
    {"op": "wait", "env": dict(jenv("child", 0, Fr(5, 1000), []), stopAt=[1, 1000], contAt=[2, 1000]), "pid": 4002,
     "timeout": [1, 100], "start": [0, 1], "fuel": FUEL,
     "fam": {"timeout": "round", "kind": "child", "status": "exit", "place": "random", "eintr": "none", "stop": "stopped+continued"}},
    # … and a child stopped for good, no timeout given: the blocking waitpid must not come back with the stop
    {"op": "wait", "env": dict(jenv("child", 15, Fr(1, 2), []), stopAt=[1, 10]), "pid": 4003,
     "timeout": None, "start": [0, 1], "fuel": FUEL,
     "fam": {"timeout": "none", "kind": "child", "status": "signal", "place": "random", "eintr": "none", "stop": "stopped"}},
    # a child somebody else reaped before the call
    {"op": "wait", "env": dict(jenv("never", 0, None, []), wasChild={"status": 0, "exitAt": [0, 1]}), "pid": 4004,
     "timeout": [1, 2], "start": [1, 1], "fuel": FUEL,
     "fam": {"timeout": "round", "kind": "reaped-elsewhere", "status": "-", "place": "never-existed", "eintr": "none"}},
    # (seeded round 5) witness of the round: some other process, alive for ever, which the procfs tree does not list
    # (PROCFS_PATH pointed elsewhere after the object was made / hidepid + EPERM): wait() can only time out
    {"op": "pwait", "env": dict(jenv("nonchild", 0, None, []), view={"hideAt": [-1, 1], "showAt": None, "how": "repoint", "kill": "ok"}),
     "pid": 4003, "fuel": FUEL, "calls": [{"timeout": [0, 1], "at": [0, 1]}, {"timeout": [1, 5], "at": [0, 1]}],
     "fam": {"timeout": "zero", "kind": "nonchild", "status": "-", "place": "never", "eintr": "none", "view": "from-start"}},
    {"op": "wprocs", "procs": [{"pid": 4004, "env": dict(jenv("nonchild", 0, None, []),
                                                       view={"hideAt": [-1, 1], "showAt": None, "how": "hidepid", "kill": "eperm"})}],
     "list": [[4004, 0]], "timeout": [1, 10], "start": [0, 1], "hasCb": True, "fuel": FUEL,
     "fam": {"timeout": "round", "n": 1, "view": True}},
    # (seeded round 5, C15-8) witnesses of the round (Lean: fwdWall / backWall): the wall clock is stepped by an hour 0.05 ms
    # after the call started. Forward: some other process that never ends, wait(1 s) must raise after 1 s, not after 0.1 ms;
    # backward: a child that ends at 50 ms, wait(1 ms) must raise TimeoutExpired at ~1 ms, not hand back the code at 51 ms
    {"op": "pwait", "env": jenv("nonchild", 0, None, []), "pid": 4005, "fuel": FUEL,
     "wall": {"base": [1700000000, 1], "steps": [[[1, 20000], [3600, 1]]]},
     "calls": [{"timeout": [1, 1], "at": [0, 1]}],
     "fam": {"timeout": "round", "kind": "nonchild", "status": "-", "place": "never", "eintr": "none", "clock": "fwd@after-start"}},
    {"op": "pwait", "env": jenv("child", 0, Fr(1, 20), []), "pid": 4006, "fuel": FUEL,
     "wall": {"base": [1700000000, 1], "steps": [[[1, 20000], [-3600, 1]]]},
     "calls": [{"timeout": [1, 1000], "at": [0, 1]}],
     "fam": {"timeout": "round", "kind": "child", "status": "exit", "place": "random", "eintr": "none", "clock": "back@after-start"}},
    {"op": "wprocs", "procs": [{"pid": 4006, "env": jenv("child", 0, Fr(3, 2), [])}], "list": [[4006, 0]],
     "wall": {"base": [0, 1], "steps": [[[1, 20000], [-3600, 1]]]},
     "timeout": [3, 10], "start": [0, 1], "hasCb": True, "fuel": FUEL, "fam": {"timeout": "round", "n": 1, "clock": "back@after-start"}},
    # wait_procs with a callback that is not callable
    {"op": "wprocs", "procs": [{"pid": 4001, "env": jenv("child", 0, Fr(0), [])}], "list": [[4001, 0]],
     "timeout": [1, 10], "start": [0, 1], "hasCb": True, "cb": "bad", "fuel": FUEL, "fam": {"timeout": "round", "n": 1, "cb": "bad"}},
]


# ------------------------------------------------------------------------------ comparison


def strip(case):
    return {k: v for k, v in case.items() if k != "fam"}


def in_eintr_region(case_env, timeout, obs):
    """known finding region: a timeout was raised right after an interrupted waitpid"""
    return timeout is not None and obs.get("last_eintr") and obs["out"].get("kind") == "timeout" \
        and has_eintr(case_env)


def representable(out):
    if out["kind"] in ("code", "none", "hang", "fuel"):
        return True
    if out["kind"] == "timeout":
        return isinstance(out.get("seconds"), list) and isinstance(out.get("pid"), int) and out["pid"] >= 0
    if out["kind"] == "exc":
        return out["exc"] == "ValueError"
    return False


def obs_line(ob):
    return {"out": ob["out"], "ret": ob["ret"], "sleeps": ob["sleeps"]}


def same_single(ob, m):
    """implementation observation vs model observation of one wait call"""
    if ob["out"]["kind"] in ("fuel", "hang") and ob["out"]["kind"] == m["out"]["kind"]:
        return True
    return ob["out"] == m["out"] and ob["ret"] == m["ret"] and ob["sleeps"] == m["sleeps"] \
        and ob["nwait"] == m["nwait"]


def close_rat(a, b):
    a, b = Fr(*a), Fr(*b)
    return abs(a - b) <= Fr(1, 10**12) * max(1, abs(b))


def same_wprocs(ob, m):
    if ob["kind"] != m["kind"]:
        return False
    if ob["kind"] == "raised":
        return ob["out"] == m["out"]
    if sorted(ob["gone"]) != sorted(m["gone"]) or sorted(ob["alive"]) != sorted(m["alive"]):
        return False
    if len(set(ob["gone"])) != len(ob["gone"]) or len(set(ob["alive"])) != len(ob["alive"]):
        return False
    if ob["returncodes"] != sorted(m["returncodes"]):
        return False
    if ob["cbLog"] != m["cbLog"] or ob["ret"] != m["ret"] or ob["sleeps"] != m["sleeps"]:
        return False
    # what each callback invocation saw (returncode attribute; membership in `gone` when it could be read)
    ms = m.get("cbSeen", [])
    if [[p, rc] for p, rc, _ in ob["cbSeen"]] != [[p, rc] for p, rc, _ in ms]:
        return False
    if any(g is not None and bool(g) != bool(mg) for (_, _, g), (_, _, mg) in zip(ob["cbSeen"], ms)):
        return False
    if len(ob["calls"]) != len(m["calls"]):
        return False
    for (p1, t1), (p2, t2) in zip(ob["calls"], m["calls"]):
        if p1 != p2 or not close_rat(t1, t2):
            return False
    return True


def wprocs_line(case, ob):
    """driver line for a wait_procs case, with the implementation's observation"""
    rc0 = ob.get("rc0") or {}
    procs = []
    first_twin = {}
    for pid, twin in case["list"]:
        first_twin.setdefault(pid, twin)
    for p in case["procs"]:
        q = {k: v for k, v in p.items() if k not in ("extpoll", "popen")}
        if p.get("popen") and not first_twin.get(p["pid"], 0):
            # the Popen object is the one that stands for the process (an equal plain Process does not come first)
            q["popen"] = True
            q["rc0"] = {"v": rc0.get(p["pid"])}
        procs.append(q)
    # identity of each element = the first position at which that very object stands
    first_pos, oids = {}, []
    for i, (pid, twin) in enumerate(case["list"]):
        first_pos.setdefault((pid, twin), i)
        oids.append(first_pos[(pid, twin)])
    line = {"op": "wprocs", "procs": procs, "list": [pid for pid, _ in case["list"]], "oids": oids,
            "timeout": case["timeout"], "start": case["start"], "hasCb": case["hasCb"],
            "flat": ob.get("flat", []), "fuel": case["fuel"]}
    if case.get("unhashable") is not None:
        line["hashable"] = False
    if case.get("wall"):
        line["wall"] = case["wall"]
    if case.get("cb"):
        line["cb"] = case["cb"]
    if ob["kind"] == "ok":
        line["obs"] = {"gone": ob["gone"], "alive": ob["alive"], "returncodes": ob["returncodes"],
                       "cbLog": ob["cbLog"], "ret": ob["ret"],
                       # (third round) what each callback invocation saw; inGone unknown -> not judged (sent as true)
                       "cbSeen": [[p, rc, True if g is None else bool(g)] for p, rc, g in ob["cbSeen"]]}
    return line


def canon_calls(ob):
    if ob.get("kind") == "ok":
        ob = dict(ob)
        ob["calls"] = [[pid, jrat(t)] for pid, t in ob["calls"]]
    return ob


def evaluate(ctx, impl, cases, res, source="generated"):
    """Run implementation and model on `cases`; record disagreements. Returns the number found."""
    lines, observed = [], []
    for case in cases:
        if case["op"] == "wait":
            ob = impl.run_wait(case)
            line = strip(case)
            if representable(ob["out"]):
                line["obs"] = obs_line(ob)
        elif case["op"] == "waitc":
            ob = impl.run_waitc(case)
            line = {k: v for k, v in strip(case).items() if k not in ("cost_seed", "wall")}
            line["costs"] = ob["costs"]
            if representable(ob["out"]):
                line["obs"] = obs_line(ob)
        elif case["op"] == "popen":
            ob = impl.run_popen(case)
            line = strip(case)
            calls = []
            for i, c in enumerate(case["calls"][:len(ob)]):
                c = {"timeout": c["timeout"], "at": ob[i]["start"]}
                if ob[i]["ext"] is not None:
                    c["ext"] = ob[i]["ext"]
                if representable(ob[i]["out"]) and ob[i]["rc"] is not None and "v" in ob[i]["rc"]:
                    c["obs"] = obs_line(ob[i])
                    c["oscalls"] = ob[i]["oscalls"]
                    c["rc"] = ob[i]["rc"]
                calls.append(c)
            line["calls"] = calls
        elif case["op"] == "pwait":
            ob = impl.run_pwait(case)
            line = strip(case)
            line["pid"] = real_pid(case["pid"])
            calls = []
            for i, c in enumerate(case["calls"][:len(ob)]):
                c = dict(c, at=ob[i]["start"])      # the instant the call really started
                if representable(ob[i]["out"]):
                    c["obs"] = obs_line(ob[i])
                    c["oscalls"] = ob[i]["oscalls"]
                calls.append(c)
            line["calls"] = calls
        else:
            ob = canon_calls(impl.run_wprocs(case))
            line = wprocs_line(case, ob)
        lines.append(line)
        observed.append(ob)
    outs = ctx.driver().batch(lines) if lines else []
    res.extra["driver_lines"] = (res.extra.get("driver_lines") or 0) + len(lines)
    found = 0
    for case, ob, ans in zip(cases, observed, outs):
        inp = {"case": strip(case), "source": source}
        if "bad" in ans:
            raise RuntimeError("driver rejected %r: %s" % (strip(case), ans))
        m, sp = ans["model"], ans["spec"]
        if case["op"] == "wait":
            found += judge_single(res, inp, case["env"], case["timeout"], ob, m, sp)
        elif case["op"] == "waitc":
            found += judge_costed(res, inp, ob, m, sp)
        elif case["op"] == "popen":
            for i, o in enumerate(ob):
                n = judge_popen(res, dict(inp, call=i), case["env"], case["calls"][i]["timeout"], o, m[i], sp[i])
                found += n
                if n or o["out"]["kind"] in ("hang", "fuel"):
                    break
        elif case["op"] == "pwait":
            for i, o in enumerate(ob):
                n = judge_single(res, dict(inp, call=i), case["env"], case["calls"][i]["timeout"], o, m[i], sp[i])
                found += n
                if n or o["out"]["kind"] in ("hang", "fuel"):
                    break
        else:
            found += judge_wprocs(res, inp, ob, m, sp)
    return found


def judge_single(res, inp, env, timeout, ob, m, sp):
    if not representable(ob["out"]):
        res.disagree("spec", inp, ob, m, sp, note="implementation raised/returned something the property does not allow: %r" % (ob["out"],))
        return 1
    iv = sp["impl_violations"]
    if iv:
        # the implementation's own observation breaks a clause of the Spec: a failing input
        fid = FINDING_EINTR if (iv == ["timeoutSound"] and in_eintr_region(env, timeout, ob)) else None
        if fid:
            res.known_seen[fid] = res.known_seen.get(fid, 0) + 1
        res.disagree("spec", inp, ob, m, sp, note="implementation violates Spec clauses %s" % iv, finding=fid)
        if not fid:
            return 1
    full = [c for c in (sp.get("impl_full") or []) if c not in (iv or [])]
    if full:
        # a clause that fails only at FULL strength over the stated quantifier (EINTR on any waitpid call)
        fid = FINDING_EINTR_NEVER if (full == ["neverExistedAtOnce"] and env.get("kind") == "never" and has_eintr(env)) else None
        if fid:
            res.known_seen[fid] = res.known_seen.get(fid, 0) + 1
        res.disagree("spec", inp, ob, m, sp, note="implementation violates Spec clauses %s (full strength: EINTR on any call)" % full,
                     finding=fid)
        if not fid:
            return 1
    if sp["model_violations"]:
        # the model itself breaks a clause (proved impossible for the good configuration): only
        # inside the known-finding region, or when the translator changed the configuration
        if not (sp["model_violations"] == ["timeoutSound"] and has_eintr(env)):
            res.disagree("model", inp, ob, m, sp, note="the MODEL violates Spec clauses %s" % sp["model_violations"])
            return 1
    if not same_single(ob, m):
        res.disagree("model", inp, ob, m, sp, note="implementation and model observations differ (Spec clauses hold)")
        return 1
    return 0


def judge_costed(res, inp, ob, m, sp):
    """wait_pid with system calls that take time: the clauses with 40 ms + 5*delta (delta = the largest cost in
    the run, theorem C15_costed_bounds), and implementation = costed model fed with the same costs"""
    if not representable(ob["out"]):
        res.disagree("spec", inp, ob, m, sp, note="implementation raised/returned something the property does not allow: %r" % (ob["out"],))
        return 1
    if sp["impl_violations"]:
        res.disagree("spec", inp, ob, m, sp, note="with system calls taking up to delta=%s s the implementation violates %s"
                     % (Fr(*sp["delta"]), sp["impl_violations"]))
        return 1
    if sp["model_violations"]:
        res.disagree("model", inp, ob, m, sp, note="the costed MODEL violates %s" % sp["model_violations"])
        return 1
    if ob["out"]["kind"] in ("fuel", "hang") and ob["out"]["kind"] == m["out"]["kind"]:
        return 0
    if ob["out"] != m["out"] or ob["ret"] != m["ret"] or ob["sleeps"] != m["sleeps"] or len(ob["costs"]) != m["nsys"]:
        res.disagree("model", inp, ob, m, sp, note="implementation and costed model differ (same per-call costs)")
        return 1
    return 0


def judge_popen(res, inp, env, timeout, ob, m, sp):
    """one Popen.wait call: as judge_single, plus subprocess.Popen.returncode after the call"""
    if not representable(ob["out"]) or ob["rc"] is None or "v" not in ob["rc"]:
        res.disagree("spec", inp, ob, m, sp, note="Popen.wait raised/returned/stored something the property does not allow: %r / returncode %r" % (ob["out"], ob["rc"]))
        return 1
    neg = timeout is not None and Fr(*timeout) < 0
    in_region = neg and ob["stored_before"] is not None
    iv = sp["impl_violations"]
    if iv:
        fid = FINDING_POPEN_NEG if (iv == ["negativeIsValueError"] and in_region and ob["out"] == {"kind": "code", "v": ob["stored_before"]}) else None
        if fid is None and iv == ["timeoutSound"] and in_eintr_region(env, timeout, ob):
            fid = FINDING_EINTR
        if fid:
            res.known_seen[fid] = res.known_seen.get(fid, 0) + 1
        res.disagree("spec", inp, ob, m, sp, note="implementation violates Spec clauses %s" % iv, finding=fid)
        if not fid:
            return 1
    mv = sp["model_violations"]
    if mv and not (mv == ["timeoutSound"] and has_eintr(env)) and not (mv == ["negativeIsValueError"] and in_region):
        res.disagree("model", inp, ob, m, sp, note="the MODEL violates Spec clauses %s" % mv)
        return 1
    if not same_single(ob, m) or ob["rc"] != m["rc"]:
        res.disagree("model", inp, ob, m, sp, note="implementation and model observations differ (Spec clauses hold)")
        return 1
    return 0


def judge_wprocs(res, inp, ob, m, sp):
    if ob["kind"] == "exc":
        res.disagree("model", inp, ob, m, sp, note="could not build the Process objects")
        return 1
    refusal = (sp or {}).get("refusal")
    if refusal is not None:
        # the arguments must be refused with exactly this exception, before anything else happens
        want = {"kind": "exc", "exc": refusal}
        if ob["kind"] == "raised" and ob["out"] == want and not ob["flat"] and ob.get("oscalls", 0) == 0 \
                and ob.get("ret") == inp["case"]["start"]:
            if m.get("kind") == "raised" and m["out"] == want:
                return 0
            res.disagree("model", inp, ob, m, sp, note="the model does not refuse these arguments with %s" % refusal)
            return 1
        res.disagree("spec", inp, ob, m, sp, note="wait_procs must refuse these arguments with %s before doing anything; it %s"
                     % (refusal, "raised %r after %d OS calls" % (ob["out"], ob.get("oscalls", 0)) if ob["kind"] == "raised" else "returned"))
        return 1
    if ob["kind"] == "raised":
        k = ob["out"]["kind"]
        tmo = inp["case"]["timeout"]
        neg = tmo is not None and Fr(*tmo) < 0
        if k == "exc" and ob["out"]["exc"] == "ValueError":
            # allowed for a negative timeout, or when a process reports a non-termination status word
            ok = neg or (m.get("kind") == "raised" and m["out"] == ob["out"])
        elif k in ("fuel", "hang"):
            # never coming back is allowed only without a timeout
            ok = tmo is None and m.get("kind") == "raised" and m["out"]["kind"] in ("fuel", "hang")
        else:
            ok = False
        if not ok:
            spec_level = m.get("kind") == "ok" or (tmo is not None and k in ("fuel", "hang")) or \
                not (k == "exc" and ob["out"]["exc"] == "ValueError")
            res.disagree("spec" if spec_level else "model", inp, ob, m, sp, note="wait_procs raised %r" % (ob["out"],))
            return 1
        return 0
    tmo = inp["case"]["timeout"]
    if tmo is not None and Fr(*tmo) < 0:
        res.disagree("spec", inp, ob, m, sp, note="wait_procs accepted a negative timeout")
        return 1
    iv = sp["impl_violations"]
    if iv:
        res.disagree("spec", inp, ob, m, sp, note="implementation violates Spec clauses %s" % iv)
        return 1
    if sp["model_violations"]:
        res.disagree("model", inp, ob, m, sp, note="the MODEL violates Spec clauses %s" % sp["model_violations"])
        return 1
    # (second extension) which objects: of several equal objects the first of the list stands for the process
    want = sorted(m.get("survivors", []))
    got = sorted([pid, pos] for pid, pos in zip(ob["gone"] + ob["alive"], ob["gone_pos"] + ob["alive_pos"]))
    if got != want or not ob["twins_untouched"] or any(p not in ob["gone_pos"] for p in ob["cb_pos"]) \
            or any(p not in [x[1] for x in want] for p in ob["waited_pos"]) or ob["bad_attr"]:
        res.disagree("spec", inp, ob, m, sp, note="wait_procs must wait on / set returncode on / call back / return the FIRST of "
                     "several equal objects and leave the others alone: returned (pid, position) %r, expected %r, positions "
                     "called back %r, waited on %r, later equal objects touched: %r, returncode attributes of a wrong type: %r"
                     % (got, want, ob["cb_pos"], ob["waited_pos"], ob["touched"], ob["bad_attr"]))
        return 1
    # a gone Popen: subprocess's returncode and the returncode attribute agree on an exit status
    rcd = {pid: v for pid, v in ob["returncodes"]}
    for pid, sv in ob["subs"]:
        if pid in ob["gone"] and rcd.get(pid) is not None and rcd[pid]["v"] is not None and sv != rcd[pid]:
            res.disagree("spec", inp, ob, m, sp, note="gone Popen %d: subprocess returncode %r but wait_procs set returncode %r"
                         % (pid, sv, rcd[pid]))
            return 1
    if not same_wprocs(ob, m) or ob["subs"] != sorted(m.get("subs", [])):
        res.disagree("model", inp, ob, m, sp, note="implementation and model observations differ (Spec clauses hold)")
        return 1
    return 0


# ------------------------------------------------------------------------------ exhaustive status sweep


def status_sweep(ctx, impl, res):
    """all 65 536 status words: real wait_pid (patched waitpid) vs model decode vs Spec table vs os.W*"""
    drv = ctx.driver()
    lines = [{"op": "causes"}] + [{"op": "decode", "lo": lo, "hi": lo + 4096} for lo in range(0, 65536, 4096)]
    outs = drv.batch(lines)
    res.extra["driver_lines"] = (res.extra.get("driver_lines") or 0) + len(lines)
    table = {st: v for st, v in outs[0]}
    model = [o for chunk in outs[1:] for o in chunk]
    w = impl.world
    bad = 0
    for st in range(65536):
        impl.new_world(Fr(0))
        w.add(4001, {"kind": "child", "status": st, "exitAt": [0, 1], "eintr": []})
        flags_tmo = Fr(0) if st % 2 == 0 else None     # WNOHANG path and blocking path alternate
        out = impl.outcome(lambda: impl.px.wait_pid(4001, flags_tmo))
        # reference decoding with the interpreter's own macros
        if os.WIFEXITED(st):
            ref = {"kind": "code", "v": os.WEXITSTATUS(st)}
        elif os.WIFSIGNALED(st):
            ref = {"kind": "code", "v": -os.WTERMSIG(st)}
        else:
            ref = {"kind": "exc", "exc": "ValueError"}
        case = {"op": "wait", "env": jenv("child", st, Fr(0), []), "pid": 4001,
                "timeout": None if flags_tmo is None else [0, 1], "start": [0, 1], "fuel": FUEL}
        if st in table and out != {"kind": "code", "v": table[st]}:
            bad += 1
            if bad <= 3:
                res.disagree("spec", {"case": case, "source": "status-sweep"}, out, model[st], {"expected_value": table[st]},
                             note="status word 0x%04x: implementation does not return the value of the cause it encodes" % st)
        elif out != model[st] or ref != model[st] or w.sleeps:
            bad += 1
            if bad <= 3:
                res.disagree("model" if out == ref else "spec", {"case": case, "source": "status-sweep"}, out, model[st],
                             {"os_macros": ref},
                             note="status word 0x%04x: implementation / model / os.W* macros differ" % st)
    res.count("status-sweep:words", 65536)
    res.count("status-sweep:termination-words", len(table))
    res.evaluations += 65536
    return bad


POLLS_IV = [min(I0 * 2 ** k, CAP) for k in range(FUEL + 1)]


# ------------------------------------------------------------------------------ correspondence


def clock_features(case, obs, start):
    """(seeded round 5, C15-8) what the wall-clock family exercised in this case"""
    f = ["clock:" + case["op"] + " cases with a stepping wall clock"]
    steps = [(Fr(*a), Fr(*d)) for a, d in case["wall"]["steps"]]
    ends = [Fr(*o["ret"]) for o in obs if isinstance(o, dict) and o.get("ret") is not None]
    end = max(ends) if ends else start
    landed = [(a, d) for a, d in steps if start < a <= end]
    if landed:
        f.append("clock:step landed while the call was polling")
        if any(d > 0 for _, d in landed):
            f.append("clock:forward step while polling")
        if any(d < 0 for _, d in landed):
            f.append("clock:backward step while polling")
        if any(abs(d) >= 1 for _, d in landed):
            f.append("clock:step of >= 1 s while polling")
        if any(isinstance(o, dict) and (o.get("out") or {}).get("kind") == "timeout" for o in obs):
            f.append("clock:TimeoutExpired in a run during which the wall clock was stepped")
    for x in str(case["fam"].get("clock", "?")).split("+"):
        f.append("clock:step=" + x)
    if any(isinstance(o, dict) and o.get("wall_reads") for o in obs):
        f.append("clock:the implementation READ the wall clock")
    if any(isinstance(o, dict) and o.get("steady_reads") for o in obs):
        f.append("clock:deadline computations read the steady clock (>=1 reading)")
    if case["fam"].get("clock_enum"):
        f.append("clock:enum")
    return f


def features(case, ob):
    f = []
    if case["op"] == "wprocs":
        f.append("wprocs:n=%d" % case["fam"]["n"])
        f.append("wprocs:timeout=" + case["fam"]["timeout"])
        if ob.get("kind") == "ok":
            f.append("wprocs:gone=%d" % len(ob["gone"]))
            f.append("wprocs:passes~%d" % min(9, len(ob["calls"]) // max(1, case["fam"]["n"])))
            if any(t for _, t in case["list"]) or len(case["list"]) != case["fam"]["n"]:
                f.append("wprocs:duplicates")
            clean_alive = [p for p in case["procs"] if p["pid"] in ob["alive"] and not has_eintr(p["env"])]
            if clean_alive:
                f.append("wprocs:alive-running clause evaluated on >=1 process")
        else:
            f.append("wprocs:" + ob.get("kind", "?") + ":" + str(ob.get("out", {}).get("kind")))
            if ob.get("out", {}).get("exc") == "TypeError":
                f.append("wprocs:refused TypeError (callback not callable)")
        if case.get("cb") == "bad":
            f.append("wprocs:cb=bad")
        if case.get("unhashable") is not None:
            f.append("wprocs:unhashable item")
        if any(p.get("popen") for p in case["procs"]):
            f.append("wprocs:popen objects" + (" mixed with Process objects" if not all(p.get("popen") for p in case["procs"]) else ""))
            if ob.get("kind") == "ok":
                gp = [p["pid"] for p in case["procs"] if p.get("popen") and p["pid"] in ob["gone"]]
                if gp:
                    f.append("wprocs:gone Popen")
                if any(v is not None for v in (ob.get("rc0") or {}).values()):
                    f.append("wprocs:Popen with returncode stored before the call")
        if any(t for _, t in case["list"]):
            f.append("wprocs:equal-not-identical objects")
        if ob.get("kind") == "ok" and ob.get("cbSeen"):
            f.append("wprocs:callback-time view recorded (returncode%s)" % (
                " + gone membership" if all(g is not None for _, _, g in ob["cbSeen"]) else ""))
        if case["fam"].get("view"):
            f.append("view:wprocs cases with a process the procfs tree hides")
            if ob.get("hidden_polls"):
                f.append("view:wprocs kill says alive while procfs hides (>=1 poll)")
            if ob.get("kind") == "ok" and set(ob.get("hidden_alive_at_return", [])) & set(ob["alive"]):
                f.append("view:wprocs alive-but-hidden process reported alive")
            if case["fam"].get("view_enum"):
                f.append("view:enum")
        if case.get("wall"):
            f.extend(clock_features(case, [ob], Fr(*case["start"])))
        if case["fam"].get("enum"):
            f.append("wprocs:enum")
            if ob.get("kind") == "ok":
                f.append("wprocs:enum passes~%d" % min(9, max([ob["flat"].count(p["pid"]) for p in case["procs"]] + [0])))
        return f
    fam = case["fam"]
    obs = [ob] if case["op"] in ("wait", "waitc") else ob
    if case["op"] == "waitc":
        f.append("costed:runs")
        f.append("costed:syscalls=" + ("1-3" if len(ob["costs"]) < 4 else "4-20" if len(ob["costs"]) <= 20 else "21+"))
        if any(c != [0, 1] for c in ob["costs"]):
            f.append("costed:some call took time")
    if case["op"] == "popen":
        for o in obs:
            if o.get("ext") is not None:
                f.append("popen:returncode stored by subprocess's own poll()")
            if o.get("stored_before") is not None:
                f.append("popen:wait with returncode already stored")
                if o["out"].get("kind") == "code" and not o["sleeps"] and o["oscalls"] == 0:
                    f.append("popen:cached answer, no OS call")
            elif o["out"].get("kind") == "code":
                f.append("popen:wait stored a returncode")
            elif o["out"].get("kind") == "none":
                f.append("popen:wait returned None (returncode stays unset)")
    if fam.get("stop"):
        f.append(case["op"] + ":child " + fam["stop"] + " while alive (invisible without WUNTRACED/WCONTINUED)")
    if case["env"].get("view"):
        v = case["env"]["view"]
        f.append("view:" + case["op"] + " cases")
        f.append("view:hide=" + str(fam.get("view", "?")))
        f.append("view:how=%s kill=%s" % (v.get("how"), v.get("kill")))
        if any(o.get("hidden_polls") for o in obs):
            f.append("view:kill says alive while procfs hides (>=1 poll)")
            if any(o.get("hidden_polls") and o["out"]["kind"] == "timeout" for o in obs):
                f.append("view:hidden-alive process -> TimeoutExpired")
        if fam.get("view_enum"):
            f.append("view:enum")
    if case.get("wall"):
        st0 = Fr(*case["start"]) if "start" in case else Fr(*case["calls"][0]["at"])
        f.extend(clock_features(case, obs, st0))
    f.append(case["op"] + ":kind=" + fam["kind"])
    f.append(case["op"] + ":timeout=" + fam["timeout"])
    f.append(case["op"] + ":place=" + fam["place"])
    f.append(case["op"] + ":eintr=" + fam["eintr"])
    if fam["kind"] == "child":
        f.append("status=" + fam["status"])
    for o in obs:
        f.append(case["op"] + ":out=" + o["out"]["kind"])
        n = len(o["sleeps"])
        f.append("sleeps=" + ("0" if n == 0 else "1-9" if n < 10 else "10+ (capped interval reached)"))
    return f


def nontrivial(case, ob):
    if case["op"] == "wprocs":
        return ob.get("kind") == "ok" and (len(ob["calls"]) > 1 or bool(ob["sleeps"]))
    obs = [ob] if case["op"] in ("wait", "waitc") else ob
    return any(o["sleeps"] or o["out"]["kind"] == "timeout" for o in obs) or has_eintr(case["env"]) \
        or len(obs) > 1 or case["pid"] == "self" or case["pid"] <= 0 or bool(case["env"].get("stopAt"))


def correspond(ctx, res, sweep=True):
    impl = Impl(ctx)
    try:
        res.rule = ("environments (kind, status word, exit instant, EINTR pattern, timeout, start) from clause-directed "
                    "families: exit instants exactly at / just before / just after every polling instant, the deadline "
                    "and the one-poll-late window, and strictly inside the last slice before the deadline; four entry "
                    "points (wait_pid, Process.wait call sequences incl. Process() = the caller itself and Process(0), "
                    "psutil.Popen.wait call sequences with subprocess's own poll() interleaved, wait_procs with 1-5 "
                    "processes incl. a non-callable callback); non-trivial = the call slept, timed out, was interrupted, "
                    "was repeated on the same object, addressed PID 0 / the caller, or (wait_procs) made more than one "
                    "wait call; distinct = distinct canonical cases; plus all 65 536 status words; (seeded round 5) a quarter of "
                    "the living processes get a procfs view that does not list them from an instant placed before the call / "
                    "at a poll / the deadline / the exit (kill(pid, 0) and procfs disagree), realised as hidepid or a re-pointed "
                    "PROCFS_PATH, the liveness probe being whatever the real code asks; (seeded round 5, C15-8) 30 % of the "
                    "single-process cases with a timeout and 25 % of the wait_procs cases run under a WALL clock that is stepped 1-3 "
                    "times (1 us … 1 year, forwards or backwards; right after the call started, at / around a poll, the deadline, the "
                    "exit, before the call, at random), the clocks read being whatever the real code reads")
        n = ctx.n(5000, 150000)
        cases = list(CORPUS)
        for i in range(n):
            r = i % 10
            if r < 3:
                cases.append(gen_wait_case(ctx.rng))
            elif r < 6:
                cases.append(gen_pwait_case(ctx.rng))
            elif r < 7:
                cases.append(gen_popen_case(ctx.rng))
            else:
                cases.append(gen_wprocs_case(ctx.rng))
        # run + judge, measuring the distribution on the implementation's observations
        CH = 1500
        for a in range(0, len(cases), CH):
            chunk = cases[a:a + CH]
            evaluate_and_count(ctx, impl, chunk, res, "generated")
        # system calls that take time (theorem C15_costed_bounds: 40 ms + 5*delta), real wait_pid vs the costed model
        costed = []
        for i in range(ctx.n(400, 20000)):
            c = gen_wait_case(ctx.rng)
            while c["pid"] <= 0:
                c = gen_wait_case(ctx.rng)
            c.pop("wall", None)     # the costed model has one clock (a costed two-clock model is not built)
            c["fam"].pop("clock", None)
            costed.append(dict(c, op="waitc", cost_seed=ctx.rng.randrange(1 << 30)))
        for a in range(0, len(costed), CH):
            evaluate_and_count(ctx, impl, costed[a:a + CH], res, "generated (system calls take 0-1 ms)")
        # exhaustive: 2-3 processes x exit pass of each (1, 2, 3, never) x timeout (None, short, long), callback given
        en = enum_cases()
        evaluate_and_count(ctx, impl, en, res, "enumerated")
        res.count("enum:cases", len(en))
        # exhaustive (seeded round 5): procfs views hiding the process x kind x exit x hide instant x timeout x realisation
        ven = view_enum_cases()
        for a in range(0, len(ven), CH):
            evaluate_and_count(ctx, impl, ven[a:a + CH], res, "enumerated (procfs views)")
        res.count("view:enum cases", len(ven))
        # exhaustive (seeded round 5, C15-8): one step of the wall clock x entry point x kind x exit x direction x size x instant x timeout
        cen = clock_enum_cases()
        for a in range(0, len(cen), CH):
            evaluate_and_count(ctx, impl, cen[a:a + CH], res, "enumerated (wall-clock steps)")
        res.count("clock:enum cases", len(cen))
        if sweep:
            status_sweep(ctx, impl, res)
            res.exhaustive = ("all 65 536 16-bit wait status words through the real wait_pid (WNOHANG and blocking paths) "
                              "against the model's decode, the Spec's cause table and os.WIFEXITED/WEXITSTATUS/WIFSIGNALED/"
                              "WTERMSIG (stopped/continued/garbage words included); wait_procs with a callback for every combination of 2-3 "
                              "processes x the pass in which each exits (1, 2, 3, never) x timeout (None, 50 ms, 3.5 s): 196 cases; "
                              "procfs views hiding the process: entry point (Process.wait, Popen.wait, wait_procs) x child/non-child x exit "
                              "(never, before the hide, while hidden, later) x hide instant (before the call, 2nd poll, 4th poll) x shown "
                              "again or not x timeout (0, 1 ms, 50 ms, None) x realisation (hidepid+EPERM, hidepid, PROCFS_PATH re-pointed): "
                              "%d cases; " % len(ven) +
                              "one step of the wall clock: entry point (wait_pid, Process.wait, Popen.wait, wait_procs) x child/non-child x "
                              "exit (never, before the deadline, after deadline + one poll) x forward/backward x size (1 ms, 1 h) x instant "
                              "(right after the call started, 4th poll, just before the deadline) x timeout (1 ms, 50 ms, 1 s): %d cases; "
                              % len(cen) +
                              "other environments are samples")
    finally:
        impl.close()


def evaluate_and_count(ctx, impl, cases, res, source):
    """evaluate() plus distribution / non-triviality accounting (re-observes nothing: the observation
    made for the comparison is the one counted)."""
    orig_run = (impl.run_wait, impl.run_pwait, impl.run_wprocs, impl.run_popen, impl.run_waitc)
    seen = []

    def wrap(fn):
        def g(case):
            ob = fn(case)
            seen.append((case, ob))
            return ob
        return g
    impl.run_wait, impl.run_pwait, impl.run_wprocs, impl.run_popen, impl.run_waitc = (wrap(f) for f in orig_run)
    try:
        evaluate(ctx, impl, cases, res, source)
    finally:
        impl.run_wait, impl.run_pwait, impl.run_wprocs, impl.run_popen, impl.run_waitc = orig_run
    for k, (case, ob) in enumerate(seen):
        for f in features(case, ob):
            res.count(f)
        sample = None
        if len(res.samples) < 6 and k % 7 == 3:
            sample = {"case": strip(case), "impl": ob if case["op"] != "wprocs" else {kk: vv for kk, vv in ob.items() if kk != "sleeps"}}
        res.case(strip(case), nontrivial=nontrivial(case, ob), sample=sample)


def search(ctx, res, broken):
    correspond(ctx, res, sweep=True)


# ------------------------------------------------------------------------------ shrink / replay / findings


def _case_fails(ctx, impl, case):
    r = _Res()
    evaluate(ctx, impl, [case], r, "replay")
    return [d for d in r.disagreements if d["kind"] == "spec" and not d.get("finding")]


class _Res:
    def __init__(self):
        self.disagreements = []
        self.known_seen = {}
        self.extra = {}
        self.evaluations = 0

    def disagree(self, kind, inp, impl, model, spec=None, note="", finding=None):
        self.disagreements.append({"kind": kind, "input": inp, "impl": impl, "model": model, "spec": spec,
                                   "note": note, "finding": finding})

    def count(self, *a, **k):
        pass


def _candidates(case):
    """smaller variants of a failing case"""
    fam = {"timeout": "?", "kind": "?", "status": "?", "place": "?", "eintr": "?", "n": 0}
    best = dict(case, fam=fam)
    cands = []
    wl = case.get("wall")
    if wl:
        cands.append({k: x for k, x in best.items() if k != "wall"})
        if len(wl["steps"]) > 1:
            for i in range(len(wl["steps"])):
                cands.append(dict(best, wall=dict(wl, steps=[wl["steps"][i]])))
        if wl["base"] != [0, 1]:
            cands.append(dict(best, wall=dict(wl, base=[0, 1])))
    if case["op"] in ("wait", "waitc", "pwait", "popen"):
        v = case["env"].get("view")
        if v:
            cands.append(dict(best, env={k: x for k, x in case["env"].items() if k != "view"}))
            if v.get("showAt") is not None:
                cands.append(dict(best, env=dict(case["env"], view=dict(v, showAt=None))))
            if v.get("kill") != "ok" or v.get("how") != "hidepid":
                cands.append(dict(best, env=dict(case["env"], view=dict(v, kill="ok", how="hidepid"))))
        if has_eintr(case["env"]):
            cands.append(dict(best, env=dict(case["env"], eintr=[], eintrTail=False)))
        if case["op"] in ("pwait", "popen"):
            for k in range(1, len(case["calls"])):
                cands.append(dict(best, calls=case["calls"][:k]))
            if len(case["calls"]) > 2:
                cands.append(dict(best, calls=[case["calls"][0], case["calls"][-1]]))
        elif case["start"] != [0, 1] and case["env"].get("exitAt") is None:
            cands.append(dict(best, start=[0, 1]))
    else:
        for i in range(len(case["procs"])):
            if len(case["procs"]) > 1:
                pid = case["procs"][i]["pid"]
                c = dict(best, procs=[p for p in case["procs"] if p["pid"] != pid],
                         list=[x for x in case["list"] if x[0] != pid])
                if c["list"]:
                    cands.append(c)
        for i, p in enumerate(case["procs"]):
            v = p["env"].get("view")
            if v:
                def with_env(e, i=i):
                    return dict(best, procs=[dict(q, env=e) if j == i else q for j, q in enumerate(case["procs"])])
                cands.append(with_env({k: x for k, x in p["env"].items() if k != "view"}))
                if v.get("showAt") is not None:
                    cands.append(with_env(dict(p["env"], view=dict(v, showAt=None))))
        if case["hasCb"]:
            cands.append(dict(best, hasCb=False))
        for i, p in enumerate(case["procs"]):
            if p.get("extpoll"):
                cands.append(dict(best, procs=[dict((k, v) for k, v in q.items() if not (j == i and k == "extpoll"))
                                              for j, q in enumerate(case["procs"])]))
            elif p.get("popen"):
                cands.append(dict(best, procs=[dict((k, v) for k, v in q.items() if not (j == i and k == "popen"))
                                              for j, q in enumerate(case["procs"])]))
        if len(case["list"]) > len(case["procs"]):
            seen, lst = set(), []
            for x in case["list"]:
                if x[0] not in seen:
                    seen.add(x[0])
                    lst.append([x[0], 0])
            cands.append(dict(best, list=lst))
    return cands


def shrink(ctx, d):
    case = d["input"].get("case")
    if not case or d["input"].get("source") == "status-sweep":
        return d
    impl = Impl(ctx)
    try:
        cur, cur_d = case, None
        for _ in range(12):
            progressed = False
            for c in _candidates(cur):
                try:
                    f = _case_fails(ctx, impl, c)
                except Exception:
                    continue
                if f:
                    cur, cur_d, progressed = strip(c), f[0], True
                    break
            if not progressed:
                break
        if cur_d is not None:
            return dict(d, input=cur_d["input"], impl=cur_d["impl"], model=cur_d["model"], spec=cur_d["spec"],
                        note=cur_d["note"] + " (shrunk)")
    finally:
        impl.close()
    return d


def replay(ctx, rp, res):
    case = rp["input"].get("case")
    if not case:
        return True
    impl = Impl(ctx)
    try:
        case = dict(case, fam={"timeout": "?", "kind": "?", "status": "?", "place": "?", "eintr": "?", "n": 0})
        if rp["input"].get("source") == "status-sweep":
            r = _Res()
            # re-run the one status word through the sweep's comparison
            st = case["env"]["status"]
            outs = ctx.driver().batch([{"op": "causes"}, {"op": "decode", "lo": st, "hi": st + 1}])
            table = {s: v for s, v in outs[0]}
            ob = impl.run_wait(case)
            if st in table:
                return ob["out"] != {"kind": "code", "v": table[st]}
            return ob["out"] != outs[1][0]
        return bool(_case_fails(ctx, impl, case))
    finally:
        impl.close()


def check_finding(ctx, fnd):
    if fnd.get("id") == FINDING_POPEN_NEG:
        impl = Impl(ctx)
        try:
            r = _Res()
            evaluate(ctx, impl, [dict(fnd["witness"]["case"], fam={})], r, "finding")
            if any(d.get("finding") == FINDING_POPEN_NEG for d in r.disagreements):
                return "reproduces"
            return "gone"
        finally:
            impl.close()
    if fnd.get("id") == FINDING_EINTR_NEVER:
        impl = Impl(ctx)
        try:
            case = dict(fnd["witness"]["case"], fam={})
            ob = impl.run_wait(case)
            ans = ctx.driver().batch([dict(strip(case), obs=obs_line(ob))])[0]
            if ob["out"]["kind"] == "none" and ob["sleeps"] and "neverExistedAtOnce" in (ans["spec"].get("impl_full") or []):
                return "reproduces"
            return "gone"
        finally:
            impl.close()
    if fnd.get("id") != FINDING_EINTR:
        return "unknown"
    impl = Impl(ctx)
    try:
        case = dict(fnd["witness"]["case"], fam={})
        ob = impl.run_wait(case)
        ans = ctx.driver().batch([dict(strip(case), obs=obs_line(ob))])[0]
        if ob["out"]["kind"] == "timeout" and "timeoutSound" in (ans["spec"]["impl_violations"] or []):
            return "reproduces"
        return "gone"
    finally:
        impl.close()
