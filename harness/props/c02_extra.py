"""C02 — additions of round 3 that are C02's own (the shared machinery stays in harness/props/c01.py):

* translator facts about `Process.__eq__` / `__ne__` / `__hash__` and about every store to the attributes identity
  rests on (`_ident`, `_hash`, `_gone`, `_pid_reused`, `_create_time`), each a TOTAL extractor (a description of the
  shape found, never NotRecognised) consumed by an obligation of Props/C02.lean;
* an `Impl` that can also build objects of a `Process` SUBCLASS and `psutil.Popen` objects (without spawning anything:
  `Popen.__new__` + `_init(pid, _ignore_nsp=True)` on a listed PID) and run module-level calls (`pids()`,
  `pid_exists()`, `wait_procs()`, …) in the middle of a history;
* extra families judged by the C02 oracle: objects of mixed classes, module-level calls, `hash()` taken right after
  construction and compared with `hash()` at the end of the history (stability), hash classes compared with the
  model's BOTH ways (model level), and the `btime 0` histories judged by the SPECIFICATION (the histories of the former
  finding C02-boottime-zero, fixed in /repo 29257b1: no tolerance, a disagreement there is a violation).
"""
import ast
import errno
import os

from harness.common import extract
from harness.common.shrink import ddmin
from harness.props import c01

FINDING_BT0 = "C02-boottime-zero"

# ------------------------------------------------------------------------------ translator (total extractors)

IDENT_ATTRS = ("_ident", "_hash", "_gone", "_pid_reused", "_create_time")


def _process_class(init):
    for n in ast.walk(init):
        if isinstance(n, ast.ClassDef) and n.name == "Process":
            return n
    return None


def _method_shape(init, name):
    """the statements of `Process.<name>` (docstring dropped), each unparsed on one line; a block that is executed on
    OpenBSD/NetBSD only is reduced to its test.  Total: 'absent' when there is no such method."""
    cls = _process_class(init)
    if cls is None:
        return ["absent: class Process"]
    fns = [n for n in cls.body if isinstance(n, ast.FunctionDef) and n.name == name]
    alias = [n for n in cls.body if isinstance(n, ast.Assign) and any(isinstance(t, ast.Name) and t.id == name for t in n.targets)]
    if alias:
        return ["alias: " + " ".join(ast.unparse(alias[-1]).split())]
    if len(fns) != 1:
        return ["absent" if not fns else "defined %d times" % len(fns)]
    out = []
    for st in fns[0].body:
        if isinstance(st, ast.Expr) and isinstance(st.value, ast.Constant) and isinstance(st.value.value, str):
            continue
        if isinstance(st, ast.If) and {x.id for x in ast.walk(st.test) if isinstance(x, ast.Name)} <= {"OPENBSD", "NETBSD"} \
                and not st.orelse:
            out.append("if %s: <not Linux>" % ast.unparse(st.test))
            continue
        out.append(" ".join(ast.unparse(st).split()))
    deco = [ast.unparse(d) for d in fns[0].decorator_list]
    args = ast.unparse(fns[0].args)
    return ["def(%s)%s" % (args, "".join(" @" + d for d in deco))] + out


def _identity_stores(init):
    """every store (assignment of any kind, `del`, setattr/__dict__ tricks) to one of IDENT_ATTRS on any object, anywhere in
    psutil/__init__.py, as 'function: target = value' in source order"""
    out = []

    def visit(node, where):
        for ch in ast.iter_child_nodes(node):
            w = ch.name if isinstance(ch, (ast.FunctionDef, ast.AsyncFunctionDef)) else where
            if isinstance(ch, (ast.Assign, ast.AugAssign, ast.AnnAssign, ast.Delete)):
                tg = ch.targets if isinstance(ch, (ast.Assign, ast.Delete)) else [ch.target]
                for t in tg:
                    for x in ast.walk(t):
                        if isinstance(x, ast.Attribute) and x.attr in IDENT_ATTRS:
                            val = getattr(ch, "value", None)
                            out.append("%s: %s %s %s" % (where, ast.unparse(x),
                                                         "del" if isinstance(ch, ast.Delete) else
                                                         (ast.unparse(ch.op) + "=" if isinstance(ch, ast.AugAssign) else "="),
                                                         " ".join(ast.unparse(val).split()) if val is not None else ""))
            if isinstance(ch, ast.Call) and extract.dotted(ch.func).split(".")[-1] in ("setattr", "__setattr__", "update", "__setitem__") \
                    and any(isinstance(a, ast.Constant) and a.value in IDENT_ATTRS for a in ast.walk(ch)):
                out.append("%s: %s" % (where, " ".join(ast.unparse(ch).split())))
            visit(ch, w)
    visit(init, "<module>")
    return out


def facts(snap, F):
    init = extract.parse_module(snap, "__init__.py")
    sl = lambda xs: extract.lean_list(xs, extract.lean_str)
    F.try_add("eqShape", "List String", lambda: sl(_method_shape(init, "__eq__")),
              "Process.__eq__: signature + statements (the OpenBSD/NetBSD-only block reduced to its test)")
    F.try_add("neShape", "List String", lambda: sl(_method_shape(init, "__ne__")),
              "Process.__ne__: signature + statements")
    F.try_add("hashShape", "List String", lambda: sl(_method_shape(init, "__hash__")),
              "Process.__hash__: signature + statements")
    F.try_add("identityStores", "List String", lambda: sl(_identity_stores(init)),
              "every store to _ident / _hash / _gone / _pid_reused / _create_time in psutil/__init__.py (function: target = value)")


# ------------------------------------------------------------------------------ implementation side

class _NoSubproc:
    """stands for the `subprocess.Popen` object inside a `psutil.Popen` that was not spawned by the harness"""
    def __init__(self, pid):
        self.pid = pid
        self.stdout = self.stderr = self.stdin = None
        self.returncode = None


GLOBAL_CALLS = {
    "g:pids": lambda ps, p, impl: ps.pids(),
    "g:pid_exists": lambda ps, p, impl: [ps.pid_exists(q) for q in (p.pid, 5, 7, 9, 11)],
    "g:cpu_percent": lambda ps, p, impl: p.cpu_percent(interval=None),
    "g:memory_info": lambda ps, p, impl: p.memory_info(),
    "g:cmdline": lambda ps, p, impl: p.cmdline(),
    "g:ne": lambda ps, p, impl: [p != q for q in impl.objs],
    "g:eq_foreign": lambda ps, p, impl: [p == 1, p == None, p == (p.pid, None), p == p._ident],    # noqa: E711
    "g:set": lambda ps, p, impl: len(set(impl.objs)),
    "g:dict_key": lambda ps, p, impl: {q: 1 for q in impl.objs}.get(p),
}
# (process_iter(attrs=…) / process_iter.cache_clear() change the sweep cache — C04's subject — and parent()/parents()
#  shortcut on pids()[0] before the guard — C05's subject: not drawn.  wait_procs() is NOT the identity either: its
#  check_gone() runs `proc.is_running()` on every object whose wait() returned None, i.e. it sets the sticky flags and
#  `_pids_reused` exactly as an explicit is_running() would — found by this family in round 3 (seeds 2, 3, 12345: model
#  drift only, later process_iter()/str() differ); the model has no arm for it, so it is not drawn)
GLOBAL_NAMES = sorted(GLOBAL_CALLS)


# transient errors of open()/read() on /proc/<pid>/stat that say nothing about the process (seeded round 5): fd
# exhaustion in the caller, kernel memory pressure, an I/O error — plus two that CPython maps to OSError subclasses
FAULT_ERRNOS = ("EMFILE", "ENFILE", "ENOMEM", "EIO", "EAGAIN", "ETIMEDOUT")
OSERROR_CLASSES = ("OSError", "InterruptedError", "BlockingIOError", "TimeoutError")


class _FailingRead:
    """an opened /proc/<pid>/stat whose read() fails (the error comes from the kernel's seq_file read, not from open)"""

    def __init__(self, f, err):
        self._f, self._err = f, err

    def __enter__(self):
        return self

    def __exit__(self, *a):
        self._f.close()
        return False

    def close(self):
        self._f.close()

    def _fail(self, *a, **kw):
        raise OSError(self._err, os.strerror(self._err))

    read = readline = readlines = __iter__ = __next__ = _fail


class Impl2(c01.Impl):
    def __init__(self, ctx):
        super().__init__(ctx)
        self.Sub = type("SubProcess", (self.ps.Process,), {"extra_attribute": 1})
        self.faulty = {}     # pid -> (errno name, "open" | "read"): reads of /proc/<pid>/stat fail transiently

    def reset(self, btime):
        super().reset(btime)
        self.faulty = {}

    def _open(self, fname, *a, **kw):
        """on top of c01.Impl._open (unreadable stat files): the content of /proc/<pid>/stat of a FAULTY pid cannot be
        obtained right now — open() fails with the errno, or (at == "read", file present) open() succeeds and read() fails"""
        m = self._stat_re.match(os.fsdecode(fname)) if isinstance(fname, (str, bytes)) else None
        if m and int(m.group(1)) in self.faulty:
            name, at = self.faulty[int(m.group(1))]
            e = getattr(errno, name)
            if at == "read" and os.path.exists(fname):
                return _FailingRead(open(fname, *a, **kw), e)
            raise OSError(e, os.strerror(e), os.fsdecode(fname))
        return super()._open(fname, *a, **kw)

    def do(self, op):
        if op["op"] == "fault":
            if op["on"]:
                self.faulty[op["pid"]] = (op.get("e", "EMFILE"), op.get("at", "open"))
            else:
                self.faulty.pop(op["pid"], None)
            self.last_aux = None
            return {"kind": "unit"}, []
        out, effs = super().do(op)
        if op["op"] == "process_iter" and out.get("kind") == "exc":
            # a sweep that was cut short handed nothing to its caller, but the objects it had built are cached and
            # will be yielded by a later sweep: they are objects of the history from now on (model: appended to `objs`
            # by the loop before it stopped) — registered in PID order, the order they were built in
            pm = getattr(self.ps, "_pmap", None)
            if isinstance(pm, dict):
                for pid in sorted(pm):
                    self._handle(pm[pid])
        if out.get("kind") == "exc" and out.get("exc") in OSERROR_CLASSES:
            # the transient error itself reached the caller (whatever subclass CPython made of the errno)
            out = {"kind": "exc", "exc": "OSError", "cls": out["exc"]}
        return out, effs

    def _call(self, op):
        k = op["op"]
        if k == "new" and op.get("cls") in ("sub", "popen"):
            self.cur = None
            try:
                if op["cls"] == "sub":
                    p = self.Sub(op["pid"])
                else:
                    if op["pid"] not in self.kern.procs:
                        # `_ignore_nsp` would build a `(pid, None)` object flagged `_gone` for an unlisted PID: outside the
                        # model (stated limit); the generators only ask for a Popen object over a listed PID
                        raise c01.BadCall()
                    p = self.ps.Popen.__new__(self.ps.Popen)
                    p._Popen__subproc = _NoSubproc(op["pid"])
                    p._init(op["pid"], _ignore_nsp=True)
            except c01.BadCall:
                return {"kind": "exc", "exc": "badCall"}
            return {"kind": "obj", "i": self._handle(p)}
        if k == "other" and op["what"] in GLOBAL_CALLS:
            try:
                p = self._obj(op["i"])
            except c01.BadCall:
                return {"kind": "exc", "exc": "badCall"}
            self.in_other = True
            try:
                GLOBAL_CALLS[op["what"]](self.ps, p, self)
            except BaseException as e:
                if isinstance(e, (KeyboardInterrupt, SystemExit)):
                    raise
            finally:
                self.in_other = False
            return {"kind": "other"}
        return super()._call(op)


# ------------------------------------------------------------------------------ oracles on top of c01.first_problem

def bt0_region(hist):
    """some psutil call runs while the published boot time is 0 (that is when `BOOT_TIME = 0.0` can be captured): the
    histories in which the former finding C02-boottime-zero showed.  Coverage feature only — nothing is tolerated there"""
    bt = hist["btime"]
    for o in hist["ops"]:
        if o["op"] == "setbtime":
            bt = o["b"]
        elif o["op"] not in c01.KERNEL_OPS and bt == 0:
            return True
    return False


def judged_by_spec(hist):
    """the C02 clauses are claimed for this history: readable stat files (`hyp` is cleared by the generators of the
    unreadable-stat families only; any boot time, 0 included, is inside the theorems: x:btime0 always is judged)"""
    if any(o["op"] == "hide" and o["on"] for o in hist["ops"]):
        return False
    return bool(hist.get("hyp", True)) or hist.get("family", "").startswith("x:btime0")


def hash_problem(hist, result):
    """hash() of an object never changes: every value a `hash` op returned equals the value at the end of the history;
    (model level) two objects hash alike exactly when the model's identities are equal — the specification promises
    only `equal ⇒ same hash`; the converse is NOT a clause of C02 (a hash may collide), it is compared with the model,
    whose hash is the identity itself, so a collision shows up as model drift, never as a violation"""
    ip, mp, sp = result["pairs"]
    final = ip["hash"]
    for n, (o, im, ie, mo, me, spc, _aux) in enumerate(result["rows"]):
        if o["op"] == "hash" and im.get("kind") == "hash":
            i = o["i"]
            if i < len(final) and final[i] != im["v"]:
                return ("spec", None, {"hash_at_step": [n, im["v"]], "hash_at_end": final[i]}, mp, sp,
                        "hash() of object %d changed during the history (step %d vs end)" % (i, n))
    n = len(final)
    if judged_by_spec(hist) and len(mp.get("hash", [])) == n:
        for a in range(n):
            for b in range(a + 1, n):
                if final[a] == final[b] and mp["hash"][a] != mp["hash"][b]:
                    return ("model", None, ip, mp, sp,
                            "objects %d,%d hash alike although the model's identities differ (hash no longer a function of _ident?)" % (a, b))
    return None


def withheld_answers(result):
    """while reads of the object's PID fail (spec: "may_raise") `is_running()` may leave with the OS error instead of
    answering — the clause then only says that an answer which IS given is the right one.  Such a row keeps its model
    comparison (the model says exactly when the error comes) and loses its spec-level `bool`."""
    rows = []
    for (o, im, ie, mo, me, sp, aux) in result["rows"]:
        if sp.get("may_raise") and im.get("kind") == "exc" and im.get("exc") == "OSError" and not ie:
            sp = {k: v for k, v in sp.items() if k != "bool"}
        rows.append((o, im, ie, mo, me, sp, aux))
    return dict(result, rows=rows)


def problem(hist, result):
    # histories with unreadable stat files: the clauses proved over `HistOKb` ("C02h", see c01.judge_as)
    prop = "C02" if judged_by_spec(hist) else c01.judge_as(hist, "C02")
    result = withheld_answers(result)
    pr = c01.first_problem(result, prop)
    if pr and pr[0] == "spec":
        return pr
    hp = hash_problem(hist, result)
    if hp and (hp[0] == "spec" or pr is None):
        return hp
    return pr


# ------------------------------------------------------------------------------ generators

BASE_FAMILIES = ["mixed", "multi_recycle", "clock_step", "reuse_noquery", "reuse_zombie", "iter_mixed", "iter_handles",
                 "gone_path", "live", "coincidence"]


def _track(ops):
    """(kernel, SimPs) after ops — the generators' twin, never an oracle"""
    k = c01.SimKernel(1)
    sp = c01.SimPs()
    for o in ops:
        if o["op"] in c01.KERNEL_OPS:
            k.apply(o)
        else:
            sp.apply(k, o)
    return k, sp


def extra_history(rng, clk, n):
    kind = ["classes", "globals", "hashes", "btime0"][n % 4]
    if kind == "btime0":
        return btime0_history(rng, clk)
    h = c01.gen_history(rng, BASE_FAMILIES[(n // 4) % len(BASE_FAMILIES)], clk)
    ops = h["ops"]
    out = []
    k = c01.SimKernel(1)
    sp = c01.SimPs()
    for o in ops:
        o = dict(o)
        if o["op"] == "new" and o["pid"] >= 0 and kind in ("classes", "hashes"):
            r = rng.random()
            if r < 0.35:
                o["cls"] = "sub"
            elif r < 0.6 and o["pid"] in k.procs:
                o["cls"] = "popen"
        before = len(sp.objs)
        if o["op"] in c01.KERNEL_OPS:
            k.apply(o)
        else:
            sp.apply(k, o)
        out.append(o)
        if kind == "hashes":
            for i in range(before, len(sp.objs)):
                if rng.random() < 0.8:
                    out.append({"op": "hash", "i": i})          # taken right after construction (memoised in `_hash`)
        if kind == "globals" and sp.objs and rng.random() < 0.3:
            out.append({"op": "other", "i": rng.randrange(len(sp.objs)), "what": rng.choice(GLOBAL_NAMES)})
    if kind == "hashes" and sp.objs:
        for i in range(len(sp.objs)):
            out.append({"op": "hash", "i": i})
    return {"btime": h["btime"], "ops": out, "family": "x:" + kind, "hyp": h.get("hyp", True)}


def blind_history(rng, clk):
    """x:blind — objects built while /proc/<pid>/stat did not open (`_ident = (pid, None)`: hidepid mount, LSM, a transient
    refusal), by Process(pid) or by a process_iter() sweep, next to objects with a start time (built before the refusal or
    after it ended); the refusal ends with the same process still there or after the PID went to another process (live,
    zombie, nobody; 0-2 recyclings); in between any queries on any object (create_time(), as_dict(['create_time']), hash,
    ==, is_running, str, ppid, Process(pid), process_iter()); at the end is_running() and hash() of every object and == of
    every pair.  Judged "C02h": C02_not_running_after_gone_readable, C02_eq_any_readability, hash stability."""
    P = c01.Plan(rng, c01.rand_btime(rng), clk)
    p = rng.choice(c01.PIDS)
    P.ev(op="spawn", pid=p)
    P.tick()
    if rng.random() < 0.4:
        P.ev(op="new", pid=p)                                    # a sibling with a start time
    P.ev(op="hide", pid=p, on=True)
    P.ev(op="new", pid=p) if rng.random() < 0.7 else P.ev(op="process_iter")
    u = P.nobj - 1
    if rng.random() < 0.7:
        P.ev(op="hash", i=u)                                     # memoised in `_hash` from now on

    def between():
        i = u if rng.random() < 0.7 else rng.randrange(P.nobj)
        r = rng.random()
        if r < 0.35:
            P.ev(op="create_time", i=i)
        elif r < 0.5:
            P.ev(op="other", i=i, what=rng.choice(["as_dict_ct", "as_dict_ct", "as_dict", "name", "eq_self", "str", "hash"]))
        elif r < 0.6:
            P.ev(op="hash", i=i)
        elif r < 0.66:
            P.ev(op="status", i=i)
        elif r < 0.72:
            P.ev(op="ppid", i=i)
        elif r < 0.82:
            P.ev(op="eq", i=i, j=rng.randrange(P.nobj))
        elif r < 0.88 and P.k.procs:
            P.ev(op="process_iter")
        elif r < 0.94:
            P.ev(op="new", pid=p)
        else:
            P.ev(op="is_running", i=rng.randrange(P.nobj))
    if rng.random() < 0.35:
        P.ev(op="hide", pid=p, on=False)                         # the refusal was transient: same process, readable now
    for _ in range(rng.randrange(0, 3)):
        between()
    for _ in range(rng.choice([0, 1, 1, 1, 2])):
        if rng.random() < 0.3:
            P.ev(op="exit", pid=p)
        P.ev(op="reap", pid=p)
        P.tick()
        if rng.random() < 0.85:
            P.ev(op="spawn", pid=p)
            if rng.random() < 0.2:
                P.ev(op="exit", pid=p)
        if rng.random() < 0.8:
            P.ev(op="hide", pid=p, on=False)
        for _ in range(rng.randrange(0, 4)):
            between()
        if rng.random() < 0.6:
            P.ev(op="new", pid=p)                                # an object for whoever holds the PID now
        if rng.random() < 0.25 and p in P.k.procs:
            P.ev(op="hide", pid=p, on=True)
            P.ev(op="new", pid=p)                                # another blind object, on the new holder
            u = P.nobj - 1 if rng.random() < 0.5 else u
    n = min(P.nobj, 5)
    for i in range(n):
        P.ev(op="is_running", i=i)
        P.ev(op="hash", i=i)
    for i in range(n):
        for j in range(n):
            if i != j:
                P.ev(op="eq", i=i, j=j)
    h = P.hist("x:blind", hyp=False)
    return h


def exhaustive_blind(maxlen, btime=1000):
    """object 0 is built while the stat file of PID 5 does not open; all well-indexed histories head · w, 1 <= |w| <= maxlen,
    head = spawn·hide·Process(5) or spawn·hide·Process(5)·reap·spawn (already recycled), over {stat readable, unreadable,
    create_time(0), is_running(0), Process(5), ==(0,1), reap, spawn} that make the stat file readable at some point and ask
    is_running(0) or ==(0,1)"""
    import itertools
    p = 5
    alphabet = [
        {"op": "hide", "pid": p, "on": False}, {"op": "hide", "pid": p, "on": True}, {"op": "create_time", "i": 0},
        {"op": "is_running", "i": 0}, {"op": "new", "pid": p}, {"op": "eq", "i": 0, "j": 1},
        {"op": "reap", "pid": p}, {"op": "spawn", "pid": p},
    ]
    h1 = [{"op": "spawn", "pid": p}, {"op": "hide", "pid": p, "on": True}, {"op": "new", "pid": p}]
    h2 = h1 + [{"op": "reap", "pid": p}, {"op": "spawn", "pid": p}]
    for head in (h1, h2):
        for n in range(1, maxlen + 1):
            for combo in itertools.product(alphabet, repeat=n):
                if not any(o["op"] == "hide" and not o["on"] for o in combo):
                    continue
                if not any(o["op"] in ("is_running", "eq") for o in combo):
                    continue
                ops = [dict(o) for o in head] + [dict(o) for o in combo]
                if not c01.well_indexed(ops):
                    continue
                yield {"btime": btime, "ops": ops, "family": "exhaustive:blind", "hyp": False}


def blind_corpus():
    p = 7
    head = [{"op": "spawn", "pid": p}, {"op": "hide", "pid": p, "on": True}, {"op": "new", "pid": p}, {"op": "hash", "i": 0}]
    recycled = head + [{"op": "reap", "pid": p}, {"op": "spawn", "pid": p}, {"op": "hide", "pid": p, "on": False},
                       {"op": "create_time", "i": 0}, {"op": "new", "pid": p}, {"op": "eq", "i": 0, "j": 1},
                       {"op": "is_running", "i": 0}, {"op": "hash", "i": 0}]
    transient = head + [{"op": "hide", "pid": p, "on": False}, {"op": "other", "i": 0, "what": "as_dict_ct"},
                        {"op": "new", "pid": p}, {"op": "eq", "i": 0, "j": 1}, {"op": "hash", "i": 0}, {"op": "hash", "i": 1}]
    return [{"btime": 1000, "ops": recycled, "family": "x:blind:corpus", "hyp": False},
            {"btime": 1000, "ops": transient, "family": "x:blind:corpus", "hyp": False}]


def blind_features(h, result):
    f = set()
    if c01.judge_as(h, "C02") != "C02h":
        return f
    for (o, im, ie, mo, me, sp, aux) in result["rows"]:
        if o["op"] == "is_running" and "bool" in sp:
            if sp.get("readable") and not sp["bool"]:
                f.add("blind:is_running_after_gone_stat_opens")
            elif not sp["bool"]:
                f.add("blind:is_running_after_gone_stat_unreadable(clause silent)")
        if o["op"] == "eq" and im == {"kind": "bool", "v": True} and sp.get("known"):
            f.add("blind:eq_true_with_known_start")
        if o["op"] == "eq" and "known" in sp and not sp["known"] and sp.get("same_pid"):
            f.add("blind:eq_both_unknown")
    return f


def btime0_history(rng, clk):
    """a machine that boots at the epoch (published btime 0) and whose clock is stepped later: INSIDE C02's quantifier and
    inside the theorems (C02_any_boot_full), judged by the specification"""
    P = c01.Plan(rng, 0, clk)
    p = rng.choice(c01.PIDS)
    P.ev(op="spawn", pid=p)
    if rng.random() < 0.3:
        P.ev(op="boot_time")
    if rng.random() < 0.8:
        P.ev(op="new", pid=p)
    else:
        P.ev(op="process_iter")
    for _ in range(rng.randrange(1, 4)):
        r = rng.random()
        if r < 0.5:
            P.ev(op="setbtime", b=rng.choice([0, 5, 1700000000]))
        elif r < 0.7:
            P.ev(op="boot_time")
        else:
            P.tick()
    P.ev(op="new", pid=p)
    if rng.random() < 0.4:
        P.ev(op="reap", pid=p).ev(op="spawn", pid=p).ev(op="new", pid=p)
    for i in range(P.nobj):
        P.ev(op="is_running", i=i)
    if P.nobj >= 2:
        P.ev(op="eq", i=0, j=P.nobj - 1)
    if P.nobj:
        P.effect_call(0)
    return P.hist("x:btime0", hyp=True)


def corpus():
    w = {"btime": 0, "family": "x:btime0:witness", "hyp": True, "ops": [
        {"op": "spawn", "pid": 8}, {"op": "new", "pid": 8}, {"op": "setbtime", "b": 5}, {"op": "new", "pid": 8},
        {"op": "eq", "i": 0, "j": 1}, {"op": "is_running", "i": 0}]}
    harmless = {"btime": 3, "family": "x:btime-later-0", "hyp": True, "ops": [        # only the FIRST capture matters
        {"op": "spawn", "pid": 8}, {"op": "new", "pid": 8}, {"op": "setbtime", "b": 7}, {"op": "boot_time"},
        {"op": "new", "pid": 8}, {"op": "eq", "i": 0, "j": 1}, {"op": "is_running", "i": 0}]}
    classes = {"btime": 1000, "family": "x:classes:corpus", "hyp": True, "ops": [
        {"op": "spawn", "pid": 8}, {"op": "new", "pid": 8, "cls": "popen"}, {"op": "new", "pid": 8},
        {"op": "new", "pid": 8, "cls": "sub"}, {"op": "hash", "i": 0}, {"op": "eq", "i": 0, "j": 1}, {"op": "eq", "i": 1, "j": 0},
        {"op": "eq", "i": 2, "j": 0}, {"op": "is_running", "i": 0}, {"op": "is_running", "i": 2},
        {"op": "other", "i": 0, "what": "g:eq_foreign"}, {"op": "other", "i": 0, "what": "g:set"},
        {"op": "reap", "pid": 8}, {"op": "spawn", "pid": 8}, {"op": "new", "pid": 8, "cls": "sub"},
        {"op": "is_running", "i": 3}, {"op": "is_running", "i": 0}, {"op": "eq", "i": 0, "j": 3}, {"op": "hash", "i": 0}]}
    return [w, harmless, classes]


# ------------------------------------------------------------------------------ correspondence / replay

def correspond_extra(ctx, res, driver_file, n_quick, n_thorough):
    impl = Impl2(ctx)
    try:
        hists = corpus() + blind_corpus()
        for n in range(ctx.n(n_quick, n_thorough)):
            hists.append(extra_history(ctx.rng, impl.clk, n))
        for n in range(ctx.n(n_quick // 3, n_thorough // 3)):
            hists.append(blind_history(ctx.rng, impl.clk))
        sweep = list(exhaustive_blind(4 if ctx.tier == "quick" else 5))
        hists.extend(sweep)
        res.extra["exhaustive_blind"] = (
            "all %d well-indexed histories head.w, 1 <= |w| <= %d, head = spawn.unreadable.Process(5) or "
            "spawn.unreadable.Process(5).reap.spawn (object 0 has no start time), over {stat readable, unreadable, create_time(0), "
            "is_running(0), Process(5), ==(0,1), reap, spawn} with a readable phase and an is_running(0) or ==(0,1) (judged by "
            "C02_not_running_after_gone_readable / C02_eq_any_readability)" % (len(sweep), 4 if ctx.tier == "quick" else 5))
        CH = 3000
        for a in range(0, len(hists), CH):
            chunk = hists[a:a + CH]
            results, nl = c01.run_histories(ctx, impl, chunk, driver_file)
            res.extra["driver_lines"] = res.extra.get("driver_lines", 0) + nl
            for h, r in zip(chunk, results):
                fam = h["family"]
                res.count("family:" + fam.split(":corpus")[0])
                feats = c01.features(h, r) | blind_features(h, r)
                for o in h["ops"]:
                    if o.get("cls"):
                        feats.add("object_class:" + o["cls"])
                    if o["op"] == "other" and o["what"] in GLOBAL_CALLS:
                        feats.add("other:" + o["what"])
                    if o["op"] == "hash":
                        feats.add("hash_stability_checked")
                in_region = bt0_region(h)
                if in_region:
                    feats.add("btime0_call_while_btime_is_0")
                for f in feats:
                    res.count("feature:" + f)
                res.case((h["btime"], h["ops"]), nontrivial=bool(feats & c01.NONTRIVIAL) or in_region)
                pr = problem(h, r)
                if pr:
                    kind, nstep, im, mo, sp, why = pr
                    ops = h["ops"] if nstep is None else h["ops"][:nstep + 1]
                    inp = {"btime": h["btime"], "ops": ops, "family": fam, "hyp": h.get("hyp", True)}
                    res.disagree(kind, inp, im, mo, sp, note="step %s: %s" % (nstep, why))
    finally:
        impl.close()


def fails(ctx, impl, hist, driver_file):
    results, _ = c01.run_histories(ctx, impl, [hist], driver_file)
    pr = problem(hist, results[0])
    return pr if (pr and pr[0] == "spec") else None


def shrink(ctx, d, driver_file):
    inp = d["input"]
    ops = inp.get("ops")
    if not ops:
        return d
    impl = Impl2(ctx)
    try:
        small = ddmin(ops, lambda o: fails(ctx, impl, dict(inp, ops=o), driver_file) is not None, max_tests=40)
        pr = fails(ctx, impl, dict(inp, ops=small), driver_file)
        if pr:
            kind, nstep, im, mo, sp, why = pr
            cut = small if nstep is None else small[:nstep + 1]
            fam = inp.get("family", "")
            return dict(d, input=dict(inp, ops=cut, family=(fam if fam.startswith("x:btime0") else "shrunk")), impl=im, model=mo,
                        spec=sp, note="step %s: %s" % (nstep, why))
    finally:
        impl.close()
    return d


def replay(ctx, rp, driver_file):
    inp = rp.get("input") or {}
    if not inp.get("ops"):
        return True
    impl = Impl2(ctx)
    try:
        return fails(ctx, impl, inp, driver_file) is not None
    finally:
        impl.close()


def check_finding(ctx, fnd, driver_file):
    # C02-boottime-zero is FIXED (/repo 29257b1) and no longer listed; kept so that a re-listed entry would be replayed
    if fnd.get("id") != FINDING_BT0:
        return "unknown"
    impl = Impl2(ctx)
    try:
        pr = fails(ctx, impl, fnd["witness"]["case"], driver_file)
        return "reproduces" if pr else "gone"
    finally:
        impl.close()
