"""C14 — open_files(), num_fds() and io_counters() reflect the descriptor table exactly.

Model: lean/PsutilModel/Model/C14.lean + Model/C14Io.lean (+C14Gen), Spec: Spec/C14.lean + Spec/C14Io.lean, theorems: Props/C14.lean.

Correspondence: the real front-end methods `psutil.Process(pid).open_files() / num_fds() /
io_counters()` run in-process over a fake procfs:
  * `/proc/<pid>/fd/<n>` are real symlinks whose targets are the link texts the Lean renderer
    printed for the descriptor table, `/proc/<pid>/fdinfo/<n>` and `/proc/<pid>/io` hold the bytes
    the Lean renderer printed; regular-file targets are real files in a temp dir (so
    `isfile_strict` / `path_exists_strict` do real `os.stat` calls; the model's file-system
    predicate is the harness's own `os.stat` of the same names);
  * descriptors that close during the scan: `os.readlink` / `open` raise ENOENT / ESRCH for the
    chosen descriptors (ENOENT on fdinfo is a really missing file); a process that dies at scan
    index k: the whole `/proc/<pid>` tree is removed just before the k-th readlink;
  * `os.listdir` answers the names in table order (the kernel's order is the scan order);
  * permission: `os.readlink` / `open` / `os.listdir` raise EACCES for the chosen descriptors / the
    fd directory / the io file, `os.stat` raises EACCES for every path under `<root>/sec/` (a
    directory the monitor may not search); a zombie is a `/proc/<pid>/stat` whose state is `Z`;
  * call MODES (chosen per case, exhaustively on the corpus): plain call; inside a fresh
    `with p.oneshot():`; inside a oneshot block in which stat/status based methods AND the method
    itself were already called on a different (decoy) descriptor table / io file before the world
    changed to the case's one (none of the three is block-cached: the answer must be the current
    world's); via `p.as_dict(attrs=[name], ad_value=…)` (AccessDenied / ZombieProcess become the
    ad_value, NoSuchProcess propagates); on the object yielded by `psutil.process_iter()` (first
    and second iteration = cached object); second call on an object that already answered once.
    The model side is the same function of the file contents in every mode.
The same case goes to the Lean driver, which prints model(x) and spec(x).
"""
import contextlib
import errno
import os
import shutil
import stat as stat_mod
import tempfile

from harness.common.fakeproc import FakeProc, patched, reset_psutil_state
from harness.common.shrink import ddmin
from harness.props import c14_facts

PROP = "C14"
DRIVER_MODULES = ["PsutilModel.Model.C14Gen", "PsutilModel.Spec.C14", "PsutilModel.Spec.C14Io"]
NEEDS_EXT = True
TRUSTED = [
    "C14 kernel formats (Spec/C14.lean): link texts of /proc/pid/fd (path, path+' (deleted)', socket:[i], pipe:[i], anon_inode:x), fdinfo = 'pos:\\t%lli\\nflags:\\t0%o\\n'+further lines, /proc/pid/io = 'name: %llu' lines; O_ACCMODE = flags mod 4, O_APPEND = 0o2000 (asm-generic ABI)",
    "C14 model of CPython: int(bytes) base 10 for /proc/pid/io values = blanks, optional sign, digits with single '_' between digits (pyIntZ; the 4300-digit limit of CPython is not modelled) — shared by model and specification as the definition of 'a number'; int() of the fdinfo tokens on (blank-padded) plain digit strings only (no sign, '_' or 0o prefix: the kernel prints %lli / 0%o); bytes.split/strip/replace, dict as newest-first association list; surrogateescape decoding of link texts modelled as identity on bytes",
    "C14 world: os.stat of a target answers regular file / something else / nothing (ENOENT) / EACCES (EPERM is the same PermissionError class) / any other errno, raised as the OSError subclass CPython picks for it (ENOTDIR, ELOOP and ENAMETOOLONG are also produced by the REAL file system of the run: a file where a directory was, a symlink loop, a 300-byte component; the other errnos are injected per name by the harness); a process is running, a zombie (state Z in /proc/pid/stat) or gone; EACCES is injected at os.readlink, os.stat, open, os.listdir by the harness (not produced by a real permission check)",
]
ASSUMPTIONS = [
    "well-formed tables: a link text ending in ' (deleted)' is not ambiguous (no file literally carries that name next to an unlinked one), device/other absolute paths are not regular files, relative targets do not start with '/'; os.stat of a non-absolute link text (relative to the monitor's cwd) is never refused; a device path 'x (deleted)' whose 'x' cannot be stat'ed cannot be stat'ed itself; a name whose os.stat fails (with whatever errno) is neither a regular file nor existing (the same os.stat cannot both fail and succeed: Spec.StatCoherent, checked by the driver on every case)",
    "permission: a refusal (EACCES/EPERM) while listing /proc/pid/fd or inspecting any descriptor met while the process is still there is answered with AccessDenied(pid) (psutil's documented contract) — the reading 'an uninspectable descriptor is skipped' is refuted as a theorem (C14_uninspectable_not_skipped) and documented, not counted as a violation",
    "io: EVERY content has a promised answer (Spec/C14Io.lean): a counter line is, blanks removed, NAME ': ' NUMBER with exactly one separator and a NUMBER Python's int() reads; every other line is ignored; names are compared byte for byte ('syscr ' is another name); a repeated name: the last line counts; a negative NUMBER is reported as it is (the kernel prints %llu: characterisation, not a violation). The round-1 item-level theorems (names without ':', distinct, junk without ': ') are an instance (C14_io_specs_agree)",
]
MANIFEST = {
    "level_text": "Machine-checked Lean 4 proofs over a model of _pslinux.Process.open_files/num_fds/io_counters, readlink() and file_flags_to_mode(): the mode string is the documented function of O_ACCMODE x O_APPEND for EVERY flag word (other bits proved irrelevant, total including access mode 3), open_files over the kernel-rendered descriptor table equals the list of still-open regular absolute descriptors for ALL tables (induction; pos decimal, flags octal round trip for all naturals), closing descriptors (before readlink, before the open of fdinfo, or after it at the first/second read; ENOENT/ESRCH; any subset) never fail a live process, a vanished process gives NoSuchProcess, refusals (EACCES at the readlink, at the os.stat of the target through isfile_strict/path_exists_strict, at the open of fdinfo, at listing /proc/pid/fd) give AccessDenied(pid) and never a bare PermissionError or a silently shortened list, only a successfully stat'ed regular absolute target ever yields an entry (relative targets are never stat'ed), a target whose os.stat fails with ANY other errno / exception class (ENOTDIR, ELOOP, ENAMETOOLONG, ESTALE, EIO, …: FS.statErr) is left out and never fails the call (C14_unstatable_left_out) and the table of stat failures never changes the answer of any process (C14_stat_errno_never_matters; refuted for a helper that only catches FileNotFoundError: C14_unstatable_needs_catch_all), a zombie with an empty table gives [] / 0 and ENOENT/ESRCH about a zombie is ZombieProcess, num_fds = table length, io_counters returns the six kernel counters under the documented names for all values and is exact on EVERY file content (C14_io_any_content: any bytes; counter line = NAME ': ' NUMBER with one separator and a NUMBER int() reads, sign and '_' included; every other line ignored; last line of a name counts; RuntimeError without any counter line, ValueError when one of the six is missing), inserting any non-counter line anywhere or any counter of another name never changes the answer; num_fds() and open_files() are consistent on a live inspectable process (every listed descriptor was counted, num_fds - len(open_files) = number of descriptors that are not still-open regular files) and len(open_files) <= num_fds in every world. Tied to the code by 48 translator facts (incl. the ordered except-clause lists of isfile_strict / path_exists_strict) (incl. filterExact: the listing filter has no clause about the path besides startswith('/')) (incl. the PermissionError rows of isfile_strict, path_exists_strict, the loop's handlers and wrap_exceptions) consumed by the proof obligations cfg_good_* and by a differential run of the real front-end methods on a fake procfs in seven call modes (plain, oneshot, warm oneshot after a world change, as_dict, process_iter object first/cached, second call) (exhaustive over all 4096 low flag words, both through file_flags_to_mode and end to end; all modes x methods on the corpus; every /proc/pid/io line of up to 3 (quick) / 4 (thorough) tokens of a 9-token alphabet appended to / put before / replacing the kernel's own line; num_fds/open_files/num_fds on one object and one table).",
    "level_note": "Trusted: Lean kernel + {propext, Classical.choice, Quot.sound}; the translator; the correspondence harness; kernel formats as written in Spec/C14.lean; CPython int/split/strip/replace as modelled; EACCES and the zombie state are injected by the harness, not produced by a real kernel permission check.",
    "technique": "Lean 4 proofs (finite case analysis on flags via bit lemmas, list induction over tables, round trip of decimal/octal renderers) + translator-fed proof obligation + differential correspondence on a fake procfs",
    "design_ref": "DESIGN.md §5 C14",
}

PID = 4242
facts = c14_facts.facts

O_APPEND = 0o2000
HIGH_BITS = [0o10000, 0o40000, 0o100000, 0o200000, 0o400000, 0o1000000, 0o2000000, 0o10000000, 0o20000000]


# ------------------------------------------------------------------------------ paths

def P(rel):
    """a path under the per-run file-system root (symbolic, so that replays are relocatable)"""
    if isinstance(rel, str):
        rel = rel.encode()
    return ["R", rel.hex()]


def A(p):
    if isinstance(p, str):
        p = p.encode()
    return ["A", p.hex()]


def enc_path(sym, root):
    kind, hx = sym
    b = bytes.fromhex(hx)
    if kind == "R":
        return os.fsencode(root) + b"/" + b
    return b               # "A" (absolute) and "T" (literal text)


DEL = b" (deleted)"

# real files created once per run under the root
POOL_FILES = [b"f0", b"data.log", b"with space", b"x (deleted)", b"sub/inner.txt", b"caf\xc3\xa9",
              b"raw\xff\xfe", b"amb", b"amb (deleted)", b"tab\there", b"f0 (deleted) (deleted)", b"new\nline", b"sub/nl\n"]
POOL_DIRS = [b"dir", b"sub", b"dir (deleted)"]
POOL_FIFOS = [b"fifo"]
POOL_MISSING = [b"gone.txt", b"gone (deleted)", b"sub/none", b"dir/inside"]
# every path under <root>/sec/ cannot be stat'ed by the monitor (os.stat → EACCES)
SEC = b"sec/"
POOL_DENIED = [b"sec/hidden.txt", b"sec/unlinked", b"sec/x (deleted)", b"sec/deep/er"]

# The KIND of a target is what the scripted os.stat answers, never its name: every (prefix, kind)
# below is a path whose os.stat is answered with the stat of a real regular file / directory /
# FIFO / character device of the pool, or ENOENT ("none"). Regular files live under /dev/ (POSIX
# shared memory in /dev/shm, anything on that tmpfs), /proc/, /sys/, /run/ and under
# device-looking names; device nodes live outside /dev.
V_PREFIXES = [b"/dev/", b"/dev/shm/", b"/dev/pts/", b"/proc/", b"/sys/", b"/run/", b"/"]
V_KINDS = ["file", "dir", "fifo", "chr", "none"]
VIRTUAL = {pre + b"psv-c14-" + k.encode(): k for pre in V_PREFIXES for k in V_KINDS}
VIRTUAL.update({b"/dev/sda1": "file", b"/dev/tty7": "file", b"/dev/shm/x": "file", b"/dev/urandom0": "file",
                b"/dev/shm/sem.psv (deleted)": "file", b"/proc/1/psv-c14-mem": "file",
                b"/dev/psv-c14-unlinked": "none"})
V_ROOT_NODES = {b"nodes/chr": "chr", b"nodes/null": "chr", b"dev/null": "chr"}     # device nodes outside /dev
V_FILES = sorted(k for k, v in VIRTUAL.items() if v == "file")
V_OTHERS = sorted(k for k, v in VIRTUAL.items() if v in ("dir", "fifo", "chr"))
V_NONE = sorted(k for k, v in VIRTUAL.items() if v == "none")

# seeded round 5 — names whose os.stat fails with an errno that is neither ENOENT nor EACCES / EPERM.
# REAL ones (the real os.stat of the harness and of psutil answers; nothing scripted): `notdir` is a regular file, so
# everything "under" it is ENOTDIR (a directory that was removed and whose name was taken by a file); `loop` is a
# symlink to itself (ELOOP); a 300-byte component is ENAMETOOLONG.
LONG_NAME = b"L" * 300
POOL_UNSTATABLE = [b"notdir/f", b"notdir/sub/deep", b"loop/g", LONG_NAME, LONG_NAME + b"/x"]
# SCRIPTED ones: a case may carry "stat_fail": [[path-sym, errno], …] — os.stat of exactly these names fails with that
# errno in this case, whatever the name (a pool file, a virtual name, a non-absolute link text)
STAT_ERRNOS = [errno.ENOTDIR, errno.ELOOP, errno.ENAMETOOLONG, errno.ESTALE, errno.EIO, errno.ENOTCONN, errno.EOVERFLOW,
               errno.ENOMEM, errno.ETIMEDOUT, errno.EBUSY, errno.ENXIO, errno.EINTR, errno.ENODEV, errno.EHOSTDOWN]
ALL_STAT_ERRNOS = sorted(e for e in errno.errorcode if e not in (errno.ENOENT, errno.EACCES, errno.EPERM))


def T(text):
    """a literal (possibly non-absolute) name, for "stat_fail" entries"""
    return ["T", bytes(text).hex()]


def err_cls(en):
    """the OSError subclass CPython raises for an errno"""
    return type(OSError(en, "x")).__name__


MODES = ["plain", "oneshot", "warm", "as_dict", "iter", "iter2", "second"]
DECOY_MODES = ("warm", "second")
AD_VALUE = "<<ad_value>>"


def pick_mode(rng):
    return "plain" if rng.random() < 0.4 else rng.choice(MODES[1:])


def adapt(mode, obs):
    """what the promised observable becomes in this call mode (only as_dict changes anything:
    AccessDenied / ZombieProcess are replaced by the ad_value)"""
    if mode == "as_dict" and obs is not None and obs.get("kind") == "exc" and obs.get("exc") in ("AccessDenied", "ZombieProcess"):
        return {"kind": "ad_value"}
    return obs


# ------------------------------------------------------------------------------ implementation side

class Impl:
    def __init__(self, ctx):
        self.ps = ctx.psutil
        self.plat = self.ps._psplatform
        self.common = self.ps._common
        self.fp = FakeProc(self.ps, prefix="psv-c14-proc-")
        self.root = tempfile.mkdtemp(prefix="psv-c14-fs-")
        self.fp.write("stat", "cpu  1 2 3 4 5 6 7 8 9 10\nbtime 1700000000\n")
        for d in POOL_DIRS:
            os.makedirs(os.fsencode(self.root) + b"/" + d, exist_ok=True)
        for f in POOL_FILES:
            p = os.fsencode(self.root) + b"/" + f
            os.makedirs(os.path.dirname(p), exist_ok=True)
            with open(p, "wb") as fh:
                fh.write(b"x")
        for f in POOL_FIFOS:
            os.mkfifo(os.fsencode(self.root) + b"/" + f)
        self.sec = os.fsencode(self.root) + b"/" + SEC
        rootb = os.fsencode(self.root)
        with open(rootb + b"/notdir", "wb") as fh:       # a FILE where a directory used to be: <root>/notdir/f → ENOTDIR
            fh.write(b"x")
        os.symlink(b"loop", rootb + b"/loop")            # a symlink to itself: <root>/loop/g → ELOOP
        self.stat_fail = {}
        backing = {"file": rootb + b"/f0", "dir": rootb + b"/dir", "fifo": rootb + b"/fifo", "chr": b"/dev/null"}
        self.virtual = {k: backing.get(v) for k, v in VIRTUAL.items()}
        self.virtual.update({rootb + b"/" + k: backing[v] for k, v in V_ROOT_NODES.items()})
        self.real_readlink = os.readlink
        self.real_listdir = os.listdir
        self.stat_cache = {}
        # round 3: the non-absolute names os.stat refuses in the current case (an unsearchable cwd of the monitor)
        self.rel_refused = frozenset()

    def set_case(self, case, texts):
        """per-case file-system switches: with `rel_denied` every NON-absolute link text of the case (NUL-cut, with and
        without the ' (deleted)' marker) is refused by os.stat"""
        ref = set()
        if case.get("rel_denied"):
            for t in texts:
                t = t.split(b"\x00")[0]
                for c in (t, t[:-len(DEL)] if t.endswith(DEL) else t):
                    if c and not c.startswith(b"/"):
                        ref.add(c)
        self.rel_refused = frozenset(ref)
        # seeded round 5: the names whose os.stat fails with another errno in this case
        self.stat_fail = {enc_path(sym, self.root): int(en) for sym, en in case.get("stat_fail") or []}

    def scripted_stat(self, path_bytes, real_stat):
        """os.stat as the monitor sees it: refused under sec/, failing with the case's errno for the names of
        `stat_fail`, scripted for the virtual names"""
        if path_bytes.startswith(self.sec) or path_bytes in self.rel_refused:
            raise OSError(errno.EACCES, os.strerror(errno.EACCES), os.fsdecode(path_bytes))
        if path_bytes in self.stat_fail:
            en = self.stat_fail[path_bytes]
            raise OSError(en, os.strerror(en), os.fsdecode(path_bytes))
        if path_bytes in self.virtual:
            b = self.virtual[path_bytes]
            if b is None:
                raise OSError(errno.ENOENT, os.strerror(errno.ENOENT), os.fsdecode(path_bytes))
            return real_stat(b)
        return None

    def close(self):
        self.fp.close()
        shutil.rmtree(self.root, ignore_errors=True)

    # ---- ground truth about the file system, by the harness's own os.stat
    def classify(self, path_bytes):
        if path_bytes in self.rel_refused:
            return "denied"
        if path_bytes in self.stat_fail and not path_bytes.startswith(self.sec):
            return ("fail", self.stat_fail[path_bytes])
        if path_bytes in self.stat_cache:
            return self.stat_cache[path_bytes]
        r = "none"
        if path_bytes.startswith(self.sec):
            r = "denied"
        elif b"\x00" not in path_bytes and path_bytes:
            try:
                st = self.scripted_stat(path_bytes, os.stat) or os.stat(path_bytes)
                r = "file" if stat_mod.S_ISREG(st.st_mode) else "other"
            except PermissionError:
                r = "denied"
            except OSError as e:
                # ENOENT: nothing there. Any other errno (ENOTDIR, ELOOP, ENAMETOOLONG … from the REAL os.stat): the
                # name cannot be stat'ed — its own answer in the model's file system (FS.statErr)
                r = "none" if e.errno == errno.ENOENT else ("fail", e.errno)
        self.stat_cache[path_bytes] = r
        return r

    def fs_view(self, texts):
        """files / others lists for the driver: every name the code could possibly stat"""
        files, others, denied, stat_err = [], [], [], []
        seen = set()
        for t in texts:
            cands = [t, t.split(b"\x00")[0]]
            for c in list(cands):
                if c.endswith(DEL):
                    cands.append(c[:-len(DEL)])
            for c in cands:
                if c in seen:
                    continue
                seen.add(c)
                k = self.classify(c)
                if k == "file":
                    files.append(c.hex())
                elif k == "other":
                    others.append(c.hex())
                elif k == "denied":
                    denied.append(c.hex())
                elif isinstance(k, tuple):
                    stat_err.append({"p": c.hex(), "en": k[1], "cls": err_cls(k[1]).encode().hex()})
        return files, others, denied, stat_err

    # ---- fake /proc/<pid>
    def stat_line(self, zombie=False):
        tail = " ".join(["0"] * 32)
        return "%d (psv c14) %s 1 %d %d 0 -1 4194560 100 0 0 0 5 3 0 0 20 0 1 0 12345 1000000 100 %s\n" % (
            PID, "Z" if zombie else "S", PID, PID, tail)

    STATUS = ("Name:\tpsv c14\nState:\tS (sleeping)\nTgid:\t%d\nPid:\t%d\nPPid:\t1\nUid:\t0\t0\t0\t0\n"
              "Gid:\t0\t0\t0\t0\nThreads:\t1\nvoluntary_ctxt_switches:\t1\nnonvoluntary_ctxt_switches:\t2\n") % (PID, PID)

    def build_decoy(self):
        """a different world for the same pid: one regular descriptor 999, other io numbers"""
        fp = self.fp
        fp.remove(str(PID))
        fp.write("%d/stat" % PID, self.stat_line())
        fp.write("%d/status" % PID, self.STATUS)
        fp.mkdir("%d/fd" % PID)
        fp.mkdir("%d/fdinfo" % PID)
        base = fp.path("%d" % PID)
        os.symlink(os.fsencode(self.root) + b"/f0", os.fsencode("%s/fd/999" % base))
        fp.write("%d/fdinfo/999" % PID, b"pos:\t77\nflags:\t0100002\n")
        fp.write("%d/io" % PID, b"rchar: 91\nwchar: 92\nsyscr: 93\nsyscw: 94\nread_bytes: 95\nwrite_bytes: 96\n"
                                b"cancelled_write_bytes: 97\n")

    def decoy_ok(self, what, obs):
        if what == "open_files":
            return obs.get("kind") == "ok" and [x["fd"] for x in obs["value"]] == [999]
        if what == "num_fds":
            return obs == {"kind": "ok", "value": 1}
        return obs.get("kind") == "ok" and [v for _, v in obs["value"]] == [93, 94, 95, 96, 91, 92]

    def build_proc(self, entries, io=None, zombie=False):
        """entries: the driver's rendering [{name, link:{ok|err}, info:{ok|err}}]"""
        fp = self.fp
        fp.remove(str(PID))
        fp.write("%d/stat" % PID, self.stat_line(zombie))
        fp.write("%d/status" % PID, self.STATUS)
        fp.mkdir("%d/fd" % PID)
        fp.mkdir("%d/fdinfo" % PID)
        plan = {"readlink_err": {}, "readlink_text": {}, "open_err": {}, "read_err": {}, "order": []}
        base = fp.path("%d" % PID)
        for e in entries:
            name = bytes.fromhex(e["name"]).decode("utf-8", "surrogateescape")
            plan["order"].append(name)
            fdpath = "%s/fd/%s" % (base, name)
            link = e["link"]
            if "ok" in link:
                text = bytes.fromhex(link["ok"])
                if b"\x00" in text or text == b"" or len(text) > 4000:
                    # not representable as a symlink target: os.readlink answers it
                    os.symlink("placeholder", fdpath)
                    plan["readlink_text"][fdpath] = text.decode("utf-8", "surrogateescape")
                else:
                    os.symlink(text, os.fsencode(fdpath))
            elif "other" in link:
                os.symlink("placeholder", fdpath)
                plan["readlink_err"][fdpath] = int(link["other"])
            else:
                if link["err"] == "EINVAL":
                    with open(fdpath, "wb"):
                        pass                        # a real non-link: the kernel answers EINVAL
                else:
                    os.symlink("placeholder", fdpath)
                    plan["readlink_err"][fdpath] = getattr(errno, link["err"])
            info = e["info"]
            infopath = "%s/fdinfo/%s" % (base, name)
            if "ok" in info:
                with open(infopath, "wb") as f:
                    f.write(bytes.fromhex(info["ok"]))
                if info.get("read_err"):
                    # the file opens; its 1st / 2nd read fails (descriptor closed after the open)
                    plan["read_err"][infopath] = (1 if info["read_err"]["second"] else 0,
                                                  getattr(errno, info["read_err"]["errno"]))
            elif "other" in info:
                with open(infopath, "wb") as f:
                    f.write(b"pos:\t0\nflags:\t00\n")
                plan["open_err"][infopath] = int(info["other"])
            elif info["err"] in ("ESRCH", "EACCES"):
                with open(infopath, "wb") as f:
                    f.write(b"pos:\t0\nflags:\t00\n")
                plan["open_err"][infopath] = getattr(errno, info["err"])
            # ENOENT: the file really is not there
        if io is not None:
            if "ok" in io:
                fp.write("%d/io" % PID, bytes.fromhex(io["ok"]))
                if io.get("read_err"):
                    plan["read_err"]["%s/io" % base] = (int(io["read_err"].get("at", 0)), getattr(errno, io["read_err"]["errno"]))
            elif io["err"] in ("ESRCH", "EACCES"):
                fp.write("%d/io" % PID, b"")
                plan["open_err"]["%s/io" % base] = getattr(errno, io["err"])
        return plan

    def canon(self, what, r):
        if what == "open_files":
            val = [{"path": os.fsencode(x.path).hex(), "fd": x.fd, "position": x.position,
                    "mode": x.mode.encode().hex(), "flags": x.flags} for x in r]
            if not all(isinstance(x.fd, int) and isinstance(x.position, int) and isinstance(x.flags, int)
                       for x in r):
                return {"kind": "wrong-type", "value": repr(r)}
            return {"kind": "ok", "value": val}
        if what == "num_fds":
            return {"kind": "ok", "value": r} if type(r) is int else {"kind": "wrong-type", "value": repr(r)}
        if what == "io_counters":
            return {"kind": "ok", "value": [[k.encode().hex(), v] for k, v in r._asdict().items()]}
        raise ValueError(what)

    def observe(self, proc, what, mode):
        """one front-end call → observable; every exception is an observable"""
        ps = self.ps
        if what == "pair":
            # num_fds(), open_files(), num_fds() on the SAME object and the same world
            return {"kind": "pair", "num_fds": self.observe(proc, "num_fds", "plain"),
                    "open_files": self.observe(proc, "open_files", "plain"),
                    "num_fds_after": self.observe(proc, "num_fds", "plain")}
        try:
            if mode == "as_dict":
                r = proc.as_dict(attrs=[what], ad_value=AD_VALUE)[what]
                if r is AD_VALUE:
                    return {"kind": "ad_value"}
            else:
                r = getattr(proc, what)()
            return self.canon(what, r)
        except BaseException as e:  # noqa: BLE001 — every exception is an observable
            if isinstance(e, (KeyboardInterrupt, SystemExit)):
                raise
            d = {"kind": "exc", "exc": type(e).__name__}
            if isinstance(e, OSError) and not isinstance(e, (FileNotFoundError, ProcessLookupError, PermissionError)):
                d["exc"] = "OSError"      # the model's `Exc.osError`: an OSError none of the code's handlers names
            if isinstance(e, ps.Error) and getattr(e, "pid", PID) != PID:
                d["wrong_pid"] = e.pid
            return d

    def obtain(self, mode):
        ps = self.ps
        if mode in ("iter", "iter2"):
            got = None
            for _ in range(2 if mode == "iter2" else 1):
                got = None
                for p in ps.process_iter():
                    if p.pid == PID:
                        got = p
            if got is None:
                raise RuntimeError("process_iter() did not yield pid %d" % PID)
            return got
        return ps.Process(PID)

    def call(self, what, build, dies_at=None, gone_before=False, listdir_err=None, gone_after=False, mode="plain",
             dies_after_link=False):
        """Run one front-end method in call mode `mode`, with the OS entry points patched according
        to the plan returned by `build()` (which lays the case's world down under /proc/<pid>)."""
        ps = self.ps
        reset_psutil_state(ps)
        base = self.fp.path("%d" % PID)
        fd_dir = base + "/fd"
        decoy = mode in DECOY_MODES
        try:
            if decoy:
                self.build_decoy()
            else:
                plan = build()
            proc = self.obtain(mode)
        except BaseException as e:  # noqa: BLE001
            return {"kind": "harness-error", "detail": "setup(%s): %s %s" % (mode, type(e).__name__, e)}
        state = {"reads": 0}
        real_readlink, real_listdir = self.real_readlink, self.real_listdir
        real_open = open
        sec = self.sec

        def fake_readlink(path, *a, **kw):
            sp = os.fsdecode(path) if isinstance(path, bytes) else path
            if isinstance(sp, str) and sp.startswith(fd_dir + "/"):
                kill_now = dies_at is not None and state["reads"] == dies_at
                if kill_now and not dies_after_link:
                    shutil.rmtree(base, ignore_errors=True)
                state["reads"] += 1
                try:
                    if os.path.lexists(base):
                        if sp in plan["readlink_err"]:
                            en = plan["readlink_err"][sp]
                            raise OSError(en, os.strerror(en), sp)
                        if sp in plan["readlink_text"]:
                            return plan["readlink_text"][sp]
                    return real_readlink(path, *a, **kw)
                finally:
                    if kill_now and dies_after_link:
                        # the process goes away right AFTER this link was answered
                        shutil.rmtree(base, ignore_errors=True)
            return real_readlink(path, *a, **kw)

        def fake_listdir(path=".", *a, **kw):
            r = real_listdir(path, *a, **kw)
            if path == fd_dir:
                if listdir_err is not None:
                    raise OSError(listdir_err, os.strerror(listdir_err), path)
                order = {n: i for i, n in enumerate(plan["order"])}
                if set(r) != set(order):
                    raise RuntimeError("fake fd dir does not hold the planned names: %r vs %r" % (r, plan["order"]))
                r = sorted(r, key=lambda n: order[n])
            return r

        real_stat = os.stat

        def fake_stat(path, *a, **kw):
            # `_raise_if_not_alive` looks at /proc/<pid>: the process is reaped right before
            if gone_after and path in (base, base + "/stat"):
                shutil.rmtree(base, ignore_errors=True)
            if isinstance(path, (str, bytes)):
                st = self.scripted_stat(os.fsencode(path), real_stat)
                if st is not None:
                    return st
            return real_stat(path, *a, **kw)

        def fake_open(file, *a, **kw):
            if isinstance(file, str) and file in plan["open_err"] and os.path.lexists(base):
                en = plan["open_err"][file]
                raise OSError(en, os.strerror(en), file)
            f = real_open(file, *a, **kw)
            if isinstance(file, str) and file in plan["read_err"] and os.path.lexists(base):
                k, en = plan["read_err"][file]
                return FaultyFile(f, k, en, file)
            return f

        block = proc.oneshot() if mode in ("oneshot", "warm") else contextlib.nullcontext()
        try:
            with block:
                if decoy:
                    # state left behind by earlier calls on the SAME object, on another world
                    for warm in ("name", "ppid", "status", "cpu_times", "create_time", "uids", "num_threads"):
                        try:
                            getattr(proc, warm)()
                        except Exception:  # noqa: BLE001
                            pass
                    first = self.observe(proc, what, "plain")
                    if not self.decoy_ok(what, first):
                        return {"kind": "harness-error", "detail": "decoy world answered %r" % (first,)}
                    plan = build()          # the world changes
                if gone_before:
                    self.fp.remove(str(PID))
                self.common.open = fake_open
                try:
                    with patched(os, "readlink", fake_readlink), patched(os, "listdir", fake_listdir), \
                            patched(os, "stat", fake_stat):
                        return self.observe(proc, what, mode)
                finally:
                    try:
                        del self.common.open
                    except AttributeError:
                        pass
        except BaseException as e:  # noqa: BLE001 — leaving the oneshot block must not raise
            if isinstance(e, (KeyboardInterrupt, SystemExit)):
                raise
            return {"kind": "exc", "exc": "oneshot-exit:" + type(e).__name__}


class FaultyFile:
    """An opened procfs file whose k-th read operation (0-based; readline / read / readlines /
    iteration step alike) fails with `en`, as the kernel does once the descriptor / task behind
    an already opened /proc file is gone. Everything else is the real file object."""

    def __init__(self, f, k, en, name):
        self._f, self._k, self._en, self._name, self._n = f, k, en, name, 0

    def _tick(self):
        n = self._n
        self._n += 1
        if n >= self._k:
            raise OSError(self._en, os.strerror(self._en), self._name)

    def readline(self, *a):
        self._tick()
        return self._f.readline(*a)

    def read(self, *a):
        self._tick()
        return self._f.read(*a)

    def readlines(self, *a):
        self._tick()
        return self._f.readlines(*a)

    def __iter__(self):
        return self

    def __next__(self):
        self._tick()
        return next(self._f)

    def __enter__(self):
        self._f.__enter__()
        return self

    def __exit__(self, *exc):
        return self._f.__exit__(*exc)

    def __getattr__(self, name):
        return getattr(self._f, name)


# ------------------------------------------------------------------------------ cases → driver lines

def kind_texts(kind, root):
    """names the code may stat for this kind (for the fs view)"""
    t = kind["t"]
    if t == "regular":
        p = enc_path(kind["path"], root)
        return [p, p + DEL]
    if t == "device":
        return [enc_path(kind["path"], root)]
    if t == "relative":
        return [rel_target(kind, root)]
    return []


def rel_target(kind, root):
    """a relative link text; `target_sym` = a pool file addressed relatively to the cwd"""
    if "target_sym" in kind:
        return os.fsencode(os.path.relpath(enc_path(kind["target_sym"], root), os.fsencode(os.getcwd())))
    return bytes.fromhex(kind["target"])


def table_line(impl, case):
    root = impl.root
    fds = []
    texts = []
    for d in case["fds"]:
        k = dict(d["kind"])
        texts += kind_texts(k, root)
        if k["t"] in ("regular", "device"):
            k["path"] = enc_path(k["path"], root).hex()
        if k["t"] == "relative":
            k = {"t": "relative", "target": rel_target(k, root).hex()}
        fds.append({"n": d["n"], "kind": k, "pos": d["pos"], "flags": d["flags"], "tail": d.get("tail", ""),
                    "closes": d.get("closes"), "denied": d.get("denied")})
    for d in fds:      # the texts the kernel prints for the non-path kinds (refusable when `rel_denied`)
        k = d["kind"]
        if k["t"] == "anon":
            texts.append(b"anon_inode:" + bytes.fromhex(k["name"]))
        elif k["t"] in ("socket", "pipe"):
            texts.append(b"%s:[%d]" % (k["t"].encode(), k["ino"]))
    impl.set_case(case, texts)
    files, others, denied, stat_err = impl.fs_view(texts)
    return {"op": "table", "fds": fds, "files": files, "others": others, "denied": denied, "stat_err": stat_err,
            "gone_before": bool(case.get("gone_before")), "dies_at": case.get("dies_at"),
            "dies_after_link": bool(case.get("dies_after_link")),
            "zombie": bool(case.get("zombie")), "dir_denied": bool(case.get("dir_denied")), "_texts": [t.hex() for t in texts]}


def raw_line(impl, case):
    root = impl.root
    entries, texts = [], []
    for e in case["entries"]:
        link = e["link"]
        if "sym" in link:
            b = enc_path(link["sym"], root) + bytes.fromhex(link.get("suffix", ""))
            link = {"ok": b.hex()}
        if "ok" in link:
            texts.append(bytes.fromhex(link["ok"]))
        entries.append({"name": e["name"], "link": link, "info": e["info"]})
    impl.set_case(case, texts)
    files, others, denied, stat_err = impl.fs_view(texts)
    return {"op": "raw", "stat_err": stat_err, "_texts": [t.hex() for t in texts], "listdir": case.get("listdir", "ok"), "alive": not case.get("gone_after", False),
            "zombie": bool(case.get("zombie")),
            "entries": entries, "files": files, "others": others, "denied": denied}


# ------------------------------------------------------------------------------ running cases

def run_mode(ctx, impl, flag_words, res):
    outs = ctx.driver().batch([{"op": "mode", "flags": f} for f in flag_words])
    fn = impl.plat.file_flags_to_mode
    bad = 0
    for f, o in zip(flag_words, outs):
        try:
            im = {"kind": "ok", "value": fn(f).encode().hex()}
        except Exception as e:  # noqa: BLE001
            im = {"kind": "exc", "exc": type(e).__name__}
        res.case(("mode", f), nontrivial=True)
        res.count("mode:acc%d%s" % (f & 3, "+append" if f & O_APPEND else ""))
        if im != o["spec"]:
            bad += 1
            if bad <= 3:
                res.disagree("spec", {"family": "mode", "case": {"flags": f}}, im, o["model"], o["spec"],
                             note="file_flags_to_mode(0o%o): access mode %d, O_APPEND %s" % (f, f & 3, bool(f & O_APPEND)))
        elif im != o["model"]:
            bad += 1
            if bad <= 3:
                res.disagree("model", {"family": "mode", "case": {"flags": f}}, im, o["model"], o["spec"])
    return len(flag_words)


def eval_table(impl, case, out):
    """→ (impl_obs, model_obs, spec_obs or None)"""
    if "bad" in out:
        raise RuntimeError("driver rejected %r: %s" % (case, out))
    if not out.get("coherent", True):
        raise RuntimeError("harness file system incoherent (a name both fails os.stat and exists): %r" % (case,))
    entries = out["render"]["listdir"].get("ok", [])
    n = len(case["fds"])
    da = case.get("dies_at")
    dies = da if (da is not None and da < n) else None
    obs = {}
    mode = case.get("mode", "plain")
    zombie = bool(case.get("zombie"))
    for what in ("open_files", "num_fds"):
        obs[what] = impl.call(what, lambda: impl.build_proc(entries, zombie=zombie),
                              dies_at=dies if what == "open_files" else None,
                              dies_after_link=bool(case.get("dies_after_link")),
                              gone_before=bool(case.get("gone_before")),
                              listdir_err=errno.EACCES if case.get("dir_denied") else None, mode=mode)
    if dies is not None and not case.get("dir_denied") and not case.get("gone_before"):
        # num_fds is a single listdir: the process is still there when it runs
        model_num = {"kind": "ok", "value": n}
        spec_num = {"kind": "ok", "value": n}
    else:
        model_num, spec_num = out["model"]["num_fds"], out["spec"]["num_fds"]
    model = {"open_files": adapt(mode, out["model"]["open_files"]), "num_fds": adapt(mode, model_num)}
    spec = {"open_files": adapt(mode, out["spec"]["open_files"]), "num_fds": adapt(mode, spec_num)} if out["wf"] else None
    if case.get("pair"):
        # goal: num_fds() against open_files() on ONE object / ONE world (theorem C14_num_fds_vs_open_files)
        obs["pair"] = impl.call("pair", lambda: impl.build_proc(entries, zombie=zombie), mode=mode,
                                listdir_err=errno.EACCES if case.get("dir_denied") else None)
        for side, src in ((model, out["model"]), (spec, out["spec"])):
            if side is not None:
                side["pair"] = {"kind": "pair", "num_fds": src["num_fds"], "open_files": src["open_files"],
                                "num_fds_after": src["num_fds"]}
    return obs, model, spec


def pair_inconsistent(case, pr):
    """the statement's own consistency between the two answers of one object: every reported descriptor
    was counted, the list is never longer than the count, the count does not move"""
    a, b, c = pr.get("num_fds"), pr.get("open_files"), pr.get("num_fds_after")
    if not (a and b and c and a["kind"] == b["kind"] == c["kind"] == "ok"):
        return None
    names = {d["n"] for d in case["fds"]}
    fds = [x["fd"] for x in b["value"]]
    if a["value"] != c["value"]:
        return "num_fds() moved from %r to %r on an unchanged table" % (a["value"], c["value"])
    if len(fds) > a["value"]:
        return "open_files() has %d entries, num_fds() counted %d" % (len(fds), a["value"])
    if not set(fds) <= names or len(set(fds)) != len(fds):
        return "open_files() reports descriptors %r, the table holds %r" % (sorted(fds), sorted(names))
    return False


def eval_raw(impl, case, line):
    entries = line["entries"]
    obs = {}
    zombie = bool(case.get("zombie"))
    for what in ("open_files", "num_fds"):
        le = case.get("listdir", "ok")
        obs[what] = impl.call(what, lambda: impl.build_proc(entries, zombie=zombie),
                              listdir_err=None if le == "ok" else getattr(errno, le),
                              gone_after=bool(case.get("gone_after")) and what == "open_files",
                              mode=case.get("mode", "plain"))
    return obs


def _io_call(impl, file_res, alive=True, mode="plain", zombie=False):
    return impl.call("io_counters", lambda: impl.build_proc([], io=file_res, zombie=zombie),
                     gone_before=not alive, mode=mode)


def judge(res, inp, im, mo, sp, note=""):
    """record a disagreement; return True if any"""
    if sp is not None and im != sp:
        res.disagree("spec", inp, im, mo, sp, note=note or "implementation differs from the specification")
        return True
    if im != mo:
        res.disagree("model", inp, im, mo, sp, note=note or "implementation differs from the Lean model")
        return True
    return False


def run_tables(ctx, impl, cases, res, tag="table"):
    if not cases:
        return 0
    lines = [table_line(impl, c) for c in cases]
    outs = ctx.driver().batch(lines)
    for c, l, o in zip(cases, lines, outs):
        impl.set_case(c, [bytes.fromhex(t) for t in l["_texts"]])
        im, mo, sp = eval_table(impl, c, o)
        o["_stat_err"] = l.get("stat_err", [])
        o["_stat_fail_hex"] = [p.hex() for p in impl.stat_fail]
        feats = table_features(c, o)
        for f in feats:
            res.count("table:" + f)
        res.count("table:descriptors", len(c["fds"]))
        res.count("mode:" + c.get("mode", "plain"), 2)
        res.count("family:" + c.get("family", tag))
        if not o["wf"]:
            res.count("table:not-wf(model only)")
        res.case(("table", c), nontrivial=bool(feats - {"empty"}),
                 sample={"family": c.get("family", tag), "n_fds": len(c["fds"]), "impl": _short(im)} if len(c["fds"]) in (3, 4) else None)
        if c.get("pair"):
            why = pair_inconsistent(c, im.get("pair", {}))
            res.count("pair:" + ("both-answered" if why is not None else "one-raised"))
            if why is False:
                nof = len(im["pair"]["open_files"]["value"])
                res.count("pair:unlisted-descriptors", im["pair"]["num_fds"]["value"] - nof)
                res.count("pair:listed-descriptors", nof)
            elif why:
                res.disagree("spec", {"family": "table", "case": c}, im, mo, sp, note=why)
                continue
        judge(res, {"family": "table", "case": c}, im, mo, sp)
    return len(lines)


def run_raws(ctx, impl, cases, res):
    if not cases:
        return 0
    lines = [raw_line(impl, c) for c in cases]
    outs = ctx.driver().batch(lines)
    for c, l, o in zip(cases, lines, outs):
        if "bad" in o:
            raise RuntimeError("driver rejected %r: %s" % (c, o))
        impl.set_case(c, [bytes.fromhex(t) for t in l["_texts"]])
        im = eval_raw(impl, c, l)
        mode = c.get("mode", "plain")
        k = o["model"]["open_files"]
        mo = {w: adapt(mode, v) for w, v in o["model"].items()}
        res.count("mode:" + mode, 2)
        res.count("raw:" + (k["exc"] if k["kind"] == "exc" else "ok"))
        res.count("family:raw:" + c.get("family", "raw"))
        res.case(("raw", c), nontrivial=True)
        sp = o.get("spec")
        if sp is None and c.get("expect") is not None:
            # characterisation corpus (theorems C14_readlink_other_errno / C14_readlink_eio_propagates): the proved answer
            sp = c["expect"]
            if sp != o["model"]:
                raise RuntimeError("corpus expectation %r differs from the model %r on %r" % (sp, o["model"], c))
            res.count("raw:characterisation")
        if sp is not None:
            sp = {w: adapt(mode, v) for w, v in sp.items()}
            res.count("raw:with-spec")
        judge(res, {"family": "raw", "case": c}, im, mo, sp)
    return len(lines)


def run_io_items(ctx, impl, cases, res):
    if not cases:
        return 0
    outs = ctx.driver().batch([{"op": "io_items", "items": c["items"]} for c in cases])
    for c, o in zip(cases, outs):
        if "bad" in o:
            raise RuntimeError("driver rejected %r: %s" % (c, o))
        mode = c.get("mode", "plain")
        im = _io_call(impl, {"ok": o["render"]}, mode=mode, zombie=bool(c.get("zombie")))
        res.count("mode:" + mode)
        if c.get("zombie"):
            res.count("io:zombie")
        # EVERY content has a promised answer (Spec.expectedIoContent, theorem C14_io_any_content); on the
        # round-1 class (well-formed items, distinct names) the item-level spec must say the same
        sp = o["spec_content"]
        if o["wf"] and o["distinct"]:
            res.count("io:in-item-class")
            if o["spec"] != sp:
                raise RuntimeError("the two io specifications differ on %r: %r vs %r" % (c, o["spec"], sp))
        kinds = {i["t"] for i in c["items"]}
        for k in kinds:
            res.count("io:has-" + k)
        res.count("io:" + (o["model"]["exc"] if o["model"]["kind"] == "exc" else "ok"))
        res.count("family:io:" + c.get("family", "items"))
        if not (o["wf"] and o["distinct"]):
            res.count("io:outside-item-class(content spec)")
        res.case(("io", c), nontrivial=bool(kinds - {"kv"}) or o["model"]["kind"] == "exc",
                 sample={"family": c.get("family"), "file": bytes.fromhex(o["render"]).decode("latin-1")[:200], "impl": im} if len(c["items"]) == 9 else None)
        judge(res, {"family": "io_items", "case": c}, im, o["model"], sp)
    return len(cases)


def run_io_raws(ctx, impl, cases, res):
    if not cases:
        return 0
    def model_file(fr):
        # an exception out of the read loop propagates exactly like one out of open()
        return {"err": fr["read_err"]["errno"]} if fr.get("read_err") else fr
    outs = ctx.driver().batch([{"op": "io_raw", "alive": c.get("alive", True), "zombie": bool(c.get("zombie")),
                                "file": model_file(c["file"])} for c in cases])
    for c, o in zip(cases, outs):
        if "bad" in o:
            raise RuntimeError("driver rejected %r: %s" % (c, o))
        mode = c.get("mode", "plain")
        im = _io_call(impl, c["file"], alive=c.get("alive", True), mode=mode, zombie=bool(c.get("zombie")))
        res.count("mode:" + mode)
        res.count("io_raw:" + (o["model"]["exc"] if o["model"]["kind"] == "exc" else "ok"))
        res.count("family:io_raw:" + c.get("family", "raw"))
        if c.get("shape") is not None:
            res.count("io_shape:variant-" + c["variant"])
            res.count("io_shape:tokens-%d" % len(c["shape"]))
            res.count("io_shape:" + (o["model"]["exc"] if o["model"]["kind"] == "exc" else
                                     ("changes-the-answer" if o["model"]["value"] != IO_SHAPE_BASE[c["variant"]] else "ignored")))
        res.case(("io_raw", c), nontrivial=True)
        sp = o.get("spec") if not c["file"].get("read_err") else None
        if sp is not None:
            res.count("io_raw:with-spec")
        judge(res, {"family": "io_raw", "case": c}, im, adapt(mode, o["model"]), adapt(mode, sp))
    return len(cases)


def _short(x):
    s = repr(x)
    return s if len(s) < 400 else s[:400] + "…"


def sp_exc(out):
    sp = out["spec"]["open_files"]
    return sp.get("exc") if sp["kind"] == "exc" else None


def table_features(case, out):
    f = set()
    if not case["fds"]:
        f.add("empty")
    for d in case["fds"]:
        k = d["kind"]
        f.add("kind-" + k["t"])
        if k["t"] in ("regular", "device") and k["path"][0] == "A":
            pb = bytes.fromhex(k["path"][1])
            for pre in (b"/dev/", b"/proc/", b"/sys/", b"/run/"):
                if pb.startswith(pre):
                    f.add("%s-under-%s" % (k["t"], pre.decode().strip("/")))
        if k["t"] == "device" and k["path"][0] == "R" and bytes.fromhex(k["path"][1]) in V_ROOT_NODES:
            f.add("device-node-outside-dev")
        if k["t"] == "regular" and k.get("deleted"):
            f.add("deleted-suffix")
        if d.get("closes"):
            f.add("closes-%s%s-%s" % (d["closes"]["stage"], "-2nd" if d["closes"].get("second") else "", d["closes"]["errno"]))
        if d.get("denied"):
            f.add("denied-at-" + d["denied"])
        if k["t"] in ("regular", "device") and k["path"][0] == "R" and bytes.fromhex(k["path"][1]).startswith(SEC):
            f.add("denied-stat-" + k["t"])
        if d["flags"] & 3 == 3:
            f.add("accmode3")
        if d["flags"] & O_APPEND:
            f.add("append")
        if d["pos"] >= 2 ** 62:
            f.add("huge-offset")
    if case.get("gone_before"):
        f.add("gone-before")
    if case.get("zombie"):
        f.add("zombie")
    if case.get("dir_denied"):
        f.add("dir-denied")
    if sp_exc(out) == "AccessDenied":
        f.add("spec-AccessDenied")
    if case.get("dies_at") is not None and case["dies_at"] < len(case["fds"]):
        f.add("dies-after-link" if case.get("dies_after_link") else "dies-during-scan")
        if case.get("dies_after_link") and out["spec"]["open_files"]["kind"] == "ok":
            f.add("death-unnoticed(full list)")
    if case.get("rel_denied"):
        f.add("rel-denied")
    for sym, en in case.get("stat_fail") or []:
        f.add("stat-fails-" + (errno.errorcode.get(en, str(en)) if en in STAT_ERRNOS else "another-errno(sweep over all %d)" % len(ALL_STAT_ERRNOS)))
        f.add("stat-fails-class-" + err_cls(en))
        nm = bytes.fromhex(sym[1])
        f.add("stat-fails-at-" + ("marker-text" if nm.endswith(DEL) else "name") + ("(non-absolute)" if sym[0] == "T" else ""))
    for se in out.get("_stat_err", []):
        if not any(enc == se["p"] for enc in out.get("_stat_fail_hex", [])):
            f.add("stat-fails(real fs)-" + errno.errorcode.get(se["en"], str(se["en"])))
    if (case.get("stat_fail") or out.get("_stat_err")) and out["spec"]["open_files"]["kind"] == "ok":
        f.add("unstatable-target-left-out(call succeeds)")
    if len(case["fds"]) >= 300:
        f.add("descriptors>=300")
    if len(case["fds"]) >= 2000:
        f.add("descriptors>=2000")
    sp = out["spec"]["open_files"]
    if sp["kind"] == "ok" and sp["value"]:
        f.add("lists-something")
    return f


# ------------------------------------------------------------------------------ generators

def gen_flags(rng):
    acc = rng.choice([0, 1, 2, 3]) if rng.random() < 0.85 else rng.randrange(4)
    f = acc
    if rng.random() < 0.4:
        f |= O_APPEND
    for b in (0o100, 0o200, 0o400, 0o1000, 0o4000):
        if rng.random() < 0.25:
            f |= b
    for b in HIGH_BITS:
        if rng.random() < 0.2:
            f |= b
    if rng.random() < 0.05:
        f |= rng.randrange(2 ** 32) & ~3 | acc
    return f


def gen_pos(rng):
    r = rng.random()
    if r < 0.3:
        return rng.randrange(0, 100)
    if r < 0.6:
        return rng.randrange(0, 2 ** 32)
    if r < 0.9:
        return rng.choice([2 ** 31 - 1, 2 ** 31, 2 ** 32, 2 ** 62, 2 ** 63 - 1, 2 ** 63, 2 ** 64 - 1, rng.randrange(2 ** 63)])
    return 0


TAILS = [b"", b"mnt_id:\t29\nino:\t1234\n", b"mnt_id:\t15\n", b"mnt_id:\t29\nino:\t77\nlock:\t1: POSIX  ADVISORY  WRITE 123 08:01:42 0 EOF\n",
         b"mnt_id:\t1\neventfd-count: 0\n", b"\n\n", b"garbage without newline"]


def gen_virtual_kind(rng):
    """kind decided by the scripted os.stat, path from any prefix"""
    r = rng.random()
    if r < 0.5:
        return {"t": "regular", "path": A(rng.choice(V_FILES)), "deleted": False}
    if r < 0.6:          # unlinked: the name without the marker is gone (or was re-created: stale marker)
        return {"t": "regular", "path": A(rng.choice(V_NONE + [b"/dev/shm/x", b"/dev/sda1"])), "deleted": True}
    if r < 0.9:
        return {"t": "device", "path": rng.choice([A(x) for x in V_OTHERS] + [P(x) for x in V_ROOT_NODES])}
    return {"t": "device", "path": A(rng.choice(V_NONE))}


def gen_kind(rng, allow_ambiguous=True):
    if rng.random() < 0.18:
        return gen_virtual_kind(rng)
    r = rng.random()
    if r < 0.42:
        reg = [P(f) for f in POOL_FILES if not (f.startswith(b"amb") and not allow_ambiguous)]
        r2 = rng.random()
        if r2 < 0.55:
            return {"t": "regular", "path": rng.choice(reg), "deleted": False}
        if r2 < 0.75:       # stale marker: the file is (again) there
            return {"t": "regular", "path": rng.choice([P(b"f0"), P(b"data.log"), P(b"caf\xc3\xa9"), P(b"sub/inner.txt")]), "deleted": True}
        if r2 < 0.92:       # genuinely unlinked
            return {"t": "regular", "path": P(rng.choice(POOL_MISSING)), "deleted": True}
        if allow_ambiguous and rng.random() < 0.5:
            return {"t": "regular", "path": P(b"amb"), "deleted": True}       # ambiguous text: not WF
        return {"t": "regular", "path": P(rng.choice(POOL_MISSING)), "deleted": False}
    if r < 0.55:
        return {"t": "socket", "ino": rng.randrange(1, 2 ** 32)}
    if r < 0.66:
        return {"t": "pipe", "ino": rng.randrange(1, 2 ** 32)}
    if r < 0.76:
        return {"t": "anon", "name": rng.choice([b"[eventfd]", b"[eventpoll]", b"inotify", b"[timerfd]", b"[io_uring]", b"x (deleted)"]).hex()}
    if r < 0.9:
        return {"t": "device", "path": rng.choice([A("/dev/null"), A("/"), A("/dev/zero"), P(b"dir"), P(b"fifo"),
                                                     A("/memfd:psv (deleted)"), P(b"dir (deleted)"), A("/dev/pts/9999 (deleted)")])}
    if rng.random() < 0.3:
        return {"t": "relative", "target_sym": P(rng.choice([b"f0", b"data.log"]))}
    return {"t": "relative", "target": rng.choice([b"net:[4026531840]", b"mnt:[4026531841]", b"f0", b"tmp/x", b"a (deleted)",
                                                   b" (deleted)", b"./f0", b"\xff\xfe"]).hex()}


def gen_closes(rng, p):
    if rng.random() >= p:
        return None
    st = rng.choice(["readlink", "fdinfo", "fdinfo_read"])
    c = {"stage": st, "errno": rng.choice(["ENOENT", "ESRCH"])}
    if st == "fdinfo_read":
        c["second"] = rng.random() < 0.4
    return c


def gen_stat_errno(rng):
    """an errno other than ENOENT / EACCES / EPERM: mostly the ones a file system really answers, sometimes any"""
    return rng.choice(STAT_ERRNOS) if rng.random() < 0.8 else rng.choice(ALL_STAT_ERRNOS)


def _sym_plus(sym, suffix):
    return [sym[0], (bytes.fromhex(sym[1]) + suffix).hex()]


def overlay_stat_fail(rng, case, p):
    """seeded round 5: make os.stat of names the scan looks at FAIL (errno ≠ ENOENT / EACCES / EPERM) in this case —
    each path-carrying descriptor with probability `p`; which of the names it may stat (the name, the name with the
    ' (deleted)' marker, the marker-less cut) is drawn too. Names under sec/ (refused) are left alone."""
    sf = {}

    def put(sym, en):
        if sym[0] == "R" and bytes.fromhex(sym[1]).startswith(SEC):
            return
        sf[(sym[0], sym[1])] = en
    for d in case["fds"]:
        k = d["kind"]
        if rng.random() >= p:
            continue
        en = gen_stat_errno(rng)
        if k["t"] == "regular":
            if k.get("deleted"):
                which = rng.choice(["both", "both", "name", "marker"])
                if which in ("both", "name"):
                    put(k["path"], en)
                if which in ("both", "marker"):
                    put(_sym_plus(k["path"], DEL), en if rng.random() < 0.7 else gen_stat_errno(rng))
            else:
                put(k["path"], en)
        elif k["t"] == "device":
            pb = bytes.fromhex(k["path"][1])
            which = rng.choice(["name", "cut", "both"]) if pb.endswith(DEL) else "name"
            if which in ("name", "both"):
                put(k["path"], en)
            if which in ("cut", "both"):
                put([k["path"][0], pb[:-len(DEL)].hex()], en)
        elif k["t"] == "relative" and "target" in k and bytes.fromhex(k["target"]).endswith(DEL):
            put(T(bytes.fromhex(k["target"])), en)          # the marker rule looks a non-absolute text up too
        elif k["t"] == "anon" and bytes.fromhex(k["name"]).endswith(DEL):
            put(T(b"anon_inode:" + bytes.fromhex(k["name"])), en)
    if sf:
        case["stat_fail"] = sorted([[list(k), v] for k, v in sf.items()])
    return case


def gen_unstatable_kind(rng):
    """a descriptor whose target cannot be stat'ed on the REAL file system of the run (nothing scripted)"""
    path = P(rng.choice(POOL_UNSTATABLE))
    r = rng.random()
    if r < 0.5:
        return {"t": "regular", "path": path, "deleted": True}       # unlinked together with its directory (the usual way)
    if r < 0.8:
        return {"t": "regular", "path": path, "deleted": False}
    return {"t": "device", "path": path}


def gen_table(rng, family):
    n = rng.choice([0, 1, 2, 3, 4, 5, 8, 13, 21, 40, 64]) if family != "small" else rng.randrange(0, 5)
    if family == "unstatable":
        n = max(1, min(n, 21))
    if family == "empty":
        n = 0
    if family == "zombie":
        n = 0 if rng.random() < 0.7 else rng.randrange(1, 3)
    if family == "denied":
        n = max(n, 1) if n <= 21 else 8
    nums = rng.sample(range(0, 400), n)
    if rng.random() < 0.5:
        nums.sort()
    p_close = {"closing": 0.4, "all_closing": 1.0}.get(family, 0.08 if family in ("mixed", "dies", "denied") else 0.0)
    denied_at = rng.randrange(n) if (family == "denied" and n) else None
    fds = []
    for i in range(n):
        kind = gen_kind(rng, allow_ambiguous=(family == "ambiguous"))
        if family == "regular_only":
            kind = {"t": "regular", "path": P(rng.choice(POOL_FILES[:7])), "deleted": False}
        if family == "unstatable":
            r_u = rng.random()
            if r_u < 0.3:
                kind = gen_unstatable_kind(rng)
            elif r_u < 0.55:
                kind = rng.choice([{"t": "regular", "path": P(rng.choice(POOL_FILES[:7] + POOL_MISSING)), "deleted": rng.random() < 0.6},
                                   {"t": "device", "path": rng.choice([P(b"dir (deleted)"), A("/memfd:psv (deleted)"), P(b"dir"), A("/dev/null")])},
                                   {"t": "relative", "target": rng.choice([b"a (deleted)", b"(unreachable)/x (deleted)"]).hex()},
                                   {"t": "anon", "name": b"x (deleted)".hex()}])
        if family == "deleted" and rng.random() < 0.7:
            kind = rng.choice([
                {"t": "regular", "path": P(b"f0"), "deleted": True},
                {"t": "regular", "path": P(b"gone.txt"), "deleted": True},
                {"t": "regular", "path": P(b"x (deleted)"), "deleted": False},
                {"t": "regular", "path": P(b"gone (deleted)"), "deleted": True},
                {"t": "regular", "path": P(b"f0 (deleted) (deleted)"), "deleted": False},
                {"t": "device", "path": A("/memfd:psv (deleted)")},
                {"t": "device", "path": P(b"dir (deleted)")},
            ])
        deny = None
        if family == "denied" and (i == denied_at or rng.random() < 0.1):
            r = rng.random()
            if r < 0.3:
                deny = "readlink"
            elif r < 0.5:
                deny = "fdinfo"
                if rng.random() < 0.7:
                    kind = {"t": "regular", "path": P(rng.choice(POOL_FILES[:7])), "deleted": False}
            elif r < 0.85:
                kind = {"t": "regular", "path": P(rng.choice(POOL_DENIED)), "deleted": rng.random() < 0.4}
            else:
                kind = {"t": "device", "path": P(rng.choice([b"sec", b"sec/dev (deleted)", b"sec/dir"]))}
        fds.append({"n": nums[i], "kind": kind, "pos": gen_pos(rng), "flags": gen_flags(rng),
                    "tail": rng.choice(TAILS).hex(), "closes": gen_closes(rng, p_close), "denied": deny})
    case = {"family": family, "fds": fds, "gone_before": False, "dies_at": None, "mode": pick_mode(rng)}
    if family == "exits" and n:
        # the process exits (becomes a zombie) while the scan is at index k: the pid stays
        k = rng.randrange(0, n + 1)
        for d in fds[k:]:
            d["closes"] = {"stage": "readlink", "errno": "ENOENT"}
        case["zombie"] = True
    if family == "zombie":
        case["zombie"] = True
        if rng.random() < 0.3:
            case["dir_denied"] = True      # what a non-root monitor sees: the directory belongs to root
    if family == "denied":
        r = rng.random()
        if r < 0.12:
            case["dir_denied"] = True
        elif r < 0.3:
            case["dies_at"] = rng.randrange(0, n + 1)
        elif r < 0.36:
            case["gone_before"] = True
    if family == "gone":
        case["gone_before"] = True
    if family == "dies":
        case["dies_at"] = rng.randrange(0, n + 2)
    if case["dies_at"] is not None and rng.random() < 0.5:
        case["dies_after_link"] = True      # round 3: death between the readlink and the fdinfo of descriptor k
    if rng.random() < 0.15:
        case["rel_denied"] = True           # round 3: os.stat of every non-absolute link text is refused
    # seeded round 5: os.stat of some of the names failing with another errno — the family's own dimension, and a
    # sprinkle over every other family (next to closing descriptors, refusals, deaths, zombies, call modes)
    if family == "unstatable":
        overlay_stat_fail(rng, case, 0.6)
    elif rng.random() < 0.12:
        overlay_stat_fail(rng, case, 0.3)
    return case


PAIR_FAMILIES = ["mixed", "regular_only", "closing", "all_closing", "deleted", "small", "ambiguous", "empty", "denied", "exits",
                 "unstatable"]
TABLE_FAMILIES = ["mixed", "regular_only", "closing", "all_closing", "deleted", "dies", "gone", "small",
                  "ambiguous", "empty", "mixed", "closing", "denied", "zombie", "denied", "exits", "unstatable", "unstatable"]


def stat_errno_sweep(errnos=None):
    """EXHAUSTIVE over the errno: for EVERY errno the host defines except ENOENT / EACCES / EPERM, one live table in
    which os.stat fails with it at each place the scan can meet it — `3`: a file unlinked together with its directory
    (name and marker text both fail: path_exists_strict then isfile_strict), `4`: a name without marker that fails
    (isfile_strict only: a dead mount), `5`: a non-regular descriptor whose marker text fails, `6`: marker text fails,
    the marker-less name is a regular file (listed under that name), `7`: a non-absolute text with the marker, `8`: the
    control file. Each errno also once on its own per stat site (3 one-descriptor tables)."""
    def fd(n, kind, flags=0o100002):
        return {"n": n, "kind": kind, "pos": n * 11, "flags": flags, "tail": "", "closes": None}
    out = []
    for en in (errnos if errnos is not None else ALL_STAT_ERRNOS):
        fds = [fd(3, {"t": "regular", "path": P(b"unst/d/f"), "deleted": True}, 1),
               fd(4, {"t": "regular", "path": P(b"unst/m"), "deleted": False}, 0),
               fd(5, {"t": "device", "path": P(b"dir (deleted)")}),
               fd(6, {"t": "regular", "path": P(b"f0"), "deleted": True}),
               fd(7, {"t": "relative", "target": b"(unreachable)/x (deleted)".hex()}, 0),
               fd(8, {"t": "regular", "path": P(b"data.log"), "deleted": False}, 0o102002)]
        sf = [[P(b"unst/d/f"), en], [P(b"unst/d/f" + DEL), en], [P(b"unst/m"), en], [P(b"dir (deleted)"), en],
              [P(b"f0" + DEL), en], [T(b"(unreachable)/x (deleted)"), en]]
        out.append({"family": "stat_errno_sweep", "gone_before": False, "dies_at": None, "mode": "plain", "fds": fds, "stat_fail": sf})
        out.append({"family": "stat_errno_sweep", "gone_before": False, "dies_at": None, "mode": "plain",
                    "fds": [fds[0]], "stat_fail": [sf[1]]})          # path_exists_strict only
        out.append({"family": "stat_errno_sweep", "gone_before": False, "dies_at": None, "mode": "plain",
                    "fds": [fds[0]], "stat_fail": [sf[0]]})          # isfile_strict only, after the marker was cut
        out.append({"family": "stat_errno_sweep", "gone_before": False, "dies_at": None, "mode": "plain",
                    "fds": [fds[1]], "stat_fail": [sf[2]]})          # isfile_strict only, no marker
    return out


def kind_prefix_sweep():
    """EXHAUSTIVE: every scripted kind x every path prefix (x unlinked marker), one descriptor per
    table, plus one table per prefix holding all of them next to a control file"""
    def fd(n, kind, flags=2):
        return {"n": n, "kind": kind, "pos": n, "flags": flags, "tail": "", "closes": None}

    def as_kind(path, k, deleted):
        if k == "file" or (k == "none" and deleted):
            return {"t": "regular", "path": path, "deleted": deleted}
        return {"t": "device", "path": path}
    out = []
    names = [(A(pre + b"psv-c14-" + k.encode()), k, pre) for pre in V_PREFIXES for k in V_KINDS]
    names += [(A(p), VIRTUAL[p], b"special") for p in (b"/dev/sda1", b"/dev/tty7", b"/dev/shm/x", b"/dev/urandom0",
                                                        b"/proc/1/psv-c14-mem", b"/dev/psv-c14-unlinked")]
    names += [(P(p), k, b"root") for p, k in V_ROOT_NODES.items()] + [(P(b"f0"), "file", b"root"), (P(b"dir"), "dir", b"root"),
                                                                       (P(b"fifo"), "fifo", b"root"), (P(b"gone.txt"), "none", b"root")]
    for path, k, pre in names:
        for deleted in ((False, True) if k in ("file", "none") else (False,)):
            out.append({"family": "kind_x_prefix", "gone_before": False, "dies_at": None, "mode": "plain",
                        "fds": [fd(3, as_kind(path, k, deleted), flags=0o100002)]})
    by_pre = {}
    for path, k, pre in names:
        by_pre.setdefault(pre, []).append((path, k))
    for pre, lst in sorted(by_pre.items()):
        fds = [fd(3, {"t": "regular", "path": P(b"data.log"), "deleted": False})]
        fds += [fd(10 + i, as_kind(path, k, False), flags=i % 3) for i, (path, k) in enumerate(lst)]
        out.append({"family": "kind_x_prefix", "gone_before": False, "dies_at": None, "mode": "plain", "fds": fds})
    return out


def flag_sweep_tables(words, per=64):
    """regular descriptors carrying the given flag words, `per` per table"""
    out = []
    for a in range(0, len(words), per):
        chunk = words[a:a + per]
        fds = [{"n": i + 3, "kind": {"t": "regular", "path": P(POOL_FILES[i % 7]), "deleted": False},
                "pos": (a + i) * 7, "flags": w, "tail": "", "closes": None} for i, w in enumerate(chunk)]
        out.append({"family": "flag_sweep", "fds": fds, "gone_before": False, "dies_at": None})
    return out


BAD_INFOS = [b"", b"pos:\t5\n", b"pos:\n", b"pos:\t5\nflags:\n", b"pos:\tx\nflags:\t02\n", b"pos:\t5\nflags:\t08\n",
             b"pos:\t5\nflags:\t09\n", b"pos:\t5\nflags:\tzz\n", b"pos:\t5 6\nflags:\t0100002 7\n", b"pos: 5\nflags: 02\n",
             b"pos:\t12\n\nflags:\t02\n", b"\npos:\t5\nflags:\t02\n", b"pos:\t5\r\nflags:\t0100003\r\n",
             b"pos:\t5\nflags:\t0100000", b"pos:\t18446744073709551615\nflags:\t037777777777\n", b"a b c\nd e f\n",
             b"pos:\t1.5\nflags:\t02\n", b"pos:\t5\nflags:\t0x2\n"]


def other_err(en):
    """an errno none of the handlers of open_files names, with the OSError subclass CPython raises for it"""
    return {"other": en, "cls": type(OSError(en, "x")).__name__.encode().hex()}


OTHER_ERRNOS = [errno.EIO, errno.ENOTDIR, errno.ELOOP, errno.EBADF, errno.EMFILE, errno.ENOMEM, errno.EISDIR, errno.EINTR]


def gen_raw(rng):
    n = rng.randrange(1, 7)
    entries = []
    names = rng.sample(range(0, 100), n)
    for i in range(n):
        name = str(names[i]).encode()
        r = rng.random()
        if r < 0.04:
            name = rng.choice([b"abc", b"12x", b"0x10"]) + str(i).encode()
        link_r = rng.random()
        if link_r < 0.5:
            link = {"sym": P(rng.choice(POOL_FILES[:7]))}
        elif link_r < 0.6:
            link = {"sym": P(rng.choice(POOL_FILES[:7])), "suffix": rng.choice([b"\x00garbage", b"\x00 (deleted)", b" (deleted)", b" (deleted)\x00x"]).hex()}
        elif link_r < 0.66:
            link = {"err": rng.choice(["EINVAL", "ENAMETOOLONG"])}
        elif link_r < 0.7:
            link = other_err(rng.choice(OTHER_ERRNOS))
        elif link_r < 0.8:
            link = {"err": rng.choice(["ENOENT", "ESRCH", "ENOENT", "ESRCH", "EACCES"])}
        elif link_r < 0.9:
            link = {"ok": rng.choice([b"socket:[5]", b"/dev/null", b"pipe:[1]", b"rel/path", b"/", b"/\x00x", b"(unreachable)/x (deleted)",
                                      b"rel (deleted)", b"anon_inode:x (deleted)\x00y"]).hex()}
        elif link_r < 0.96:
            link = {"sym": P(rng.choice(POOL_MISSING))}
        else:
            link = {"sym": P(rng.choice(POOL_DENIED)), "suffix": rng.choice([b"", b" (deleted)", b"\x00x"]).hex()}
        ir = rng.random()
        if ir < 0.45:
            info = {"ok": rng.choice(BAD_INFOS).hex()}
        elif ir < 0.85:
            info = {"ok": (b"pos:\t%d\nflags:\t0%o\n" % (gen_pos(rng), gen_flags(rng))).hex()}
        elif ir < 0.97:
            info = {"err": rng.choice(["ENOENT", "ESRCH", "ENOENT", "ESRCH", "EACCES"])}
        else:
            info = other_err(rng.choice(OTHER_ERRNOS))
        if "ok" in info and rng.random() < 0.15:
            info["read_err"] = {"second": rng.random() < 0.5, "errno": rng.choice(["ENOENT", "ESRCH"])}
        entries.append({"name": name.hex(), "link": link, "info": info})
    case = {"family": "malformed", "entries": entries, "mode": pick_mode(rng)}
    if rng.random() < 0.2:
        case["zombie"] = True
    if rng.random() < 0.15:
        case["rel_denied"] = True
    if rng.random() < 0.2:
        # seeded round 5: os.stat of some link texts (whole / NUL-cut / marker-less) fails with another errno
        sf = {}
        for e in entries:
            link = e["link"]
            if "sym" in link and rng.random() < 0.5 and not bytes.fromhex(link["sym"][1]).startswith(SEC):
                full = bytes.fromhex(link["sym"][1]) + bytes.fromhex(link.get("suffix", ""))
                cut = full.split(b"\x00")[0]
                for nm in {cut, cut[:-len(DEL)] if cut.endswith(DEL) else cut}:
                    if rng.random() < 0.7:
                        sf[("R", nm.hex())] = gen_stat_errno(rng)
            elif "ok" in link and rng.random() < 0.5:
                cut = bytes.fromhex(link["ok"]).split(b"\x00")[0]
                for nm in {cut, cut[:-len(DEL)] if cut.endswith(DEL) else cut}:
                    if nm and rng.random() < 0.7:
                        sf[("T", nm.hex())] = gen_stat_errno(rng)
        if sf:
            case["stat_fail"] = sorted([[list(k), v] for k, v in sf.items()])
            case["family"] = "malformed+unstatable"
    r = rng.random()
    if r < 0.08:
        case["listdir"] = rng.choice(["ENOENT", "ESRCH", "EACCES"])
        case["family"] = "listdir-error"
    elif r < 0.15:
        case["gone_after"] = True
        case["family"] = "gone-after-scan"
    return case


IO_KEYS = [b"rchar", b"wchar", b"syscr", b"syscw", b"read_bytes", b"write_bytes", b"cancelled_write_bytes"]


def gen_val(rng):
    return rng.choice([0, 1, rng.randrange(1000), rng.randrange(2 ** 32), 2 ** 63, 2 ** 64 - 1, rng.randrange(2 ** 64)])


def kv(name, val):
    return {"t": "kv", "name": bytes(name).hex(), "val": val}


def gen_io(rng, family):
    items = [kv(k, gen_val(rng)) for k in IO_KEYS]
    if family == "kernel":
        pass
    elif family == "shuffled":
        rng.shuffle(items)
    elif family == "blank":
        for _ in range(rng.randrange(1, 5)):
            items.insert(rng.randrange(len(items) + 1), {"t": "blank", "ws": rng.choice([b"", b" ", b"\t", b"  \t ", b"\r", b"\x0b\x0c"]).hex()})
    elif family == "junk":
        for _ in range(rng.randrange(1, 4)):
            items.insert(rng.randrange(len(items) + 1), {"t": "junk", "s": rng.choice(
                [b"garbage", b"rchar:5", b"rchar 5", b":", b"a:b", b"no separator here", b"x :y", b"\xff\xfe", b"syscr:\t7", b" lead",
                 b"trailing colon:", b"trailing sep: "]).hex()})
    elif family == "double_sep":        # contains ': ' twice: skipped by the code, outside the WF class
        items.insert(rng.randrange(len(items) + 1), {"t": "junk", "s": rng.choice([b"a: b: c", b"rchar: 5: 6", b": : "]).hex()})
    elif family == "unknown":
        for _ in range(rng.randrange(1, 4)):
            items.insert(rng.randrange(len(items) + 1), kv(rng.choice([b"foo", b"rchar2", b"RCHAR", b"x", b"read_bytes_total"]), gen_val(rng)))
    elif family == "missing":
        for _ in range(rng.randrange(1, 7)):
            items.pop(rng.randrange(len(items)))
            if not items:
                break
    elif family == "empty":
        items = [{"t": "blank", "ws": b" ".hex()} for _ in range(rng.randrange(0, 3))]
        if rng.random() < 0.3:
            items.append({"t": "junk", "s": b"nothing".hex()})
    elif family == "duplicate":         # not what the kernel prints: model only
        items.insert(rng.randrange(len(items) + 1), kv(rng.choice(IO_KEYS), gen_val(rng)))
    elif family == "badval":
        for _ in range(rng.randrange(1, 3)):
            items.insert(rng.randrange(len(items) + 1), {"t": "badval", "name": rng.choice([b"foo", b"rchar", b"extra_counter"]).hex(),
                                                          "val": rng.choice([b"abc", b"12x", b"0x10", b"1.5", b"n/a", b"-"]).hex()})
    elif family == "mixed":
        for _ in range(rng.randrange(1, 6)):
            items.insert(rng.randrange(len(items) + 1), rng.choice([
                {"t": "blank", "ws": b"".hex()}, {"t": "junk", "s": b"junk line".hex()}, kv(b"other", gen_val(rng))]))
    elif family == "signed":            # int() reads a sign and single underscores: the value is a number
        for _ in range(rng.randrange(1, 4)):
            k = rng.choice(IO_KEYS + [b"other"])
            v = rng.choice([b"+", b"-", b""]) + rng.choice([b"7", b"1_000", b"0", b"00", b"18446744073709551615", b"1_2_3"])
            bad = rng.choice([b"", b"", b"", b"_", b"+", b" 1", b"__1"])
            items.insert(rng.randrange(len(items) + 1), {"t": "junk", "s": (k + b": " + v + bad).hex()})
    elif family == "odd_key":           # blanks around the name, other spellings: OTHER names
        for _ in range(rng.randrange(1, 4)):
            k = rng.choice(IO_KEYS)
            k = rng.choice([k + b" ", b" " + k, k + b"\t", k.upper(), k + b":", b":" + k, k[:-1], k + b"\x00"])
            items.insert(rng.randrange(len(items) + 1), {"t": "junk", "s": (k + b": " + b"%d" % gen_val(rng)).hex()})
        if rng.random() < 0.4:
            items = [i for i in items if not (i["t"] == "kv" and i["name"] == b"syscr".hex())]
    c = {"family": family, "items": items, "mode": pick_mode(rng)}
    if rng.random() < 0.12:
        c["zombie"] = True          # the kernel still serves a zombie's io file
    return c


# ---- exhaustive line shapes over a tiny token alphabet ("tolerating blank or malformed extra lines")
IO_TOKENS = [b"syscr", b"xtra", b": ", b":", b" ", b"9", b"-", b"+", b"_", b"\r"]
IO_KERNEL_LINES = [b"rchar: 1", b"wchar: 2", b"syscr: 3", b"syscw: 4", b"read_bytes: 5", b"write_bytes: 6",
                   b"cancelled_write_bytes: 7"]
_NAMES = ["read_count", "write_count", "read_bytes", "write_bytes", "read_chars", "write_chars"]


def _base(vals):
    return [[n.encode().hex(), v] for n, v in zip(_NAMES, vals)]


# the answer of the surrounding file without the inserted line
IO_SHAPE_BASE = {"after": _base([3, 4, 5, 6, 1, 2]), "before": _base([3, 4, 5, 6, 1, 2]), "instead": "(fails: no syscr line)"}


def io_shape_case(tokens, variant, mode="plain"):
    """one line made of `tokens`: appended to the kernel's seven lines (`after`: a duplicate key wins),
    put in front of them (`before`: the kernel's line wins), or taking the place of the kernel's own
    `syscr` line (`instead`: only an exact `syscr: NUMBER` line keeps the call from failing)"""
    x = b"".join(tokens)
    if variant == "after":
        lines = IO_KERNEL_LINES + [x]
    elif variant == "before":
        lines = [x] + IO_KERNEL_LINES
    else:
        lines = [x] + [l for l in IO_KERNEL_LINES if not l.startswith(b"syscr")]
    return {"family": "io_shape", "variant": variant, "shape": [t.decode("latin-1") for t in tokens], "mode": mode,
            "file": {"ok": b"".join(l + b"\n" for l in lines).hex()}, "alive": True}


IO_TOKENS_CORE = [b"syscr", b": ", b" ", b"9", b"-", b"+", b"_", b"\r"]


def io_shape_sweep(maxlen, variants=("after", "before", "instead"), alphabet=None, minlen=1):
    import itertools
    out = []
    for n in range(minlen, maxlen + 1):
        for toks in itertools.product(alphabet or IO_TOKENS, repeat=n):
            for v in variants:
                out.append(io_shape_case(list(toks), v))
    return out


def gen_io_shape(rng, n):
    return io_shape_case([rng.choice(IO_TOKENS + [b"\t", b"syscw", b"0", b"\n", b"\r", b"\x00", b"\xff"]) for _ in range(n)],
                         rng.choice(["after", "before", "instead"]), mode=pick_mode(rng))


IO_FAMILIES = ["kernel", "shuffled", "blank", "junk", "double_sep", "unknown", "missing", "empty", "duplicate", "badval", "mixed",
               "signed", "odd_key", "duplicate"]

IO_RAW = [
    ("missing-file-alive", {"file": {"err": "ENOENT"}, "alive": True}),
    ("missing-file-gone", {"file": {"err": "ENOENT"}, "alive": False}),
    ("esrch-on-open", {"file": {"err": "ESRCH"}, "alive": True}),
    ("read-enoent-alive", {"file": {"ok": b"rchar: 1\nwchar: 2\n".hex(), "read_err": {"at": 0, "errno": "ENOENT"}}, "alive": True}),
    ("read-esrch-alive", {"file": {"ok": b"rchar: 1\nwchar: 2\n".hex(), "read_err": {"at": 0, "errno": "ESRCH"}}, "alive": True}),
    ("read-esrch-midfile", {"file": {"ok": b"rchar: 1\nwchar: 2\nsyscr: 3\n".hex(), "read_err": {"at": 2, "errno": "ESRCH"}}, "alive": True}),
    ("empty", {"file": {"ok": ""}, "alive": True}),
    ("only-newlines", {"file": {"ok": b"\n\n\n".hex()}, "alive": True}),
    ("no-final-newline", {"file": {"ok": b"rchar: 1\nwchar: 2\nsyscr: 3\nsyscw: 4\nread_bytes: 5\nwrite_bytes: 6".hex()}, "alive": True}),
    ("crlf", {"file": {"ok": b"rchar: 1\r\nwchar: 2\r\nsyscr: 3\r\nsyscw: 4\r\nread_bytes: 5\r\nwrite_bytes: 6\r\n".hex()}, "alive": True}),
    ("padded-values", {"file": {"ok": b"rchar:  1\nwchar: 2 \n  syscr: 3\nsyscw: 4\t\nread_bytes: 05\nwrite_bytes: 6\n".hex()}, "alive": True}),
    ("tab-separated", {"file": {"ok": b"rchar:\t1\nwchar:\t2\nsyscr:\t3\nsyscw:\t4\nread_bytes:\t5\nwrite_bytes:\t6\n".hex()}, "alive": True}),
    ("value-empty", {"file": {"ok": b"rchar: 1\nwchar: 2\nsyscr: 3\nsyscw: 4\nread_bytes: 5\nwrite_bytes: 6\nfoo: \n".hex()}, "alive": True}),
    ("eacces-on-open", {"file": {"err": "EACCES"}, "alive": True}),
    ("eacces-on-open-zombie", {"file": {"err": "EACCES"}, "alive": True, "zombie": True}),
    ("esrch-on-open-zombie", {"file": {"err": "ESRCH"}, "alive": True, "zombie": True}),
    ("missing-file-zombie", {"file": {"err": "ENOENT"}, "alive": True, "zombie": True}),
    ("read-esrch-zombie", {"file": {"ok": b"rchar: 1\nwchar: 2\n".hex(), "read_err": {"at": 1, "errno": "ESRCH"}}, "alive": True, "zombie": True}),
    # round 3, audit item 7: a lone \r INSIDE a line does not end the line (`for line in f` on a binary file splits at \n only)
    ("cr-inside-value", {"file": {"ok": b"rchar: 1\nwchar: 2\nsyscr: 3\nsyscw: 4\nread_bytes: 5\nwrite_bytes: 6\nsyscr: 9\rx\n".hex()}, "alive": True}),
    ("cr-before-counter", {"file": {"ok": b"rchar: 1\nwchar: 2\nsyscr: 3\nsyscw: 4\nread_bytes: 5\nwrite_bytes: 6\nx\rsyscr: 9\n".hex()}, "alive": True}),
    ("cr-between-sep-and-value", {"file": {"ok": b"rchar: 1\nwchar: 2\nsyscr: 3\nsyscw: 4\nread_bytes: 5\nwrite_bytes: 6\nsyscr: \r9\n".hex()}, "alive": True}),
    ("cr-only-syscr-line", {"file": {"ok": b"rchar: 1\nwchar: 2\nx\rsyscr: 3\nsyscw: 4\nread_bytes: 5\nwrite_bytes: 6\n".hex()}, "alive": True}),
    ("vt-ff-inside-line", {"file": {"ok": b"rchar: 1\nwchar: 2\nsyscr: 3\nsyscw: 4\nread_bytes: 5\nwrite_bytes: 6\nsyscw: 8\x0bx\x0csyscr: 9\n".hex()}, "alive": True}),
    ("kernel-file-zombie", {"file": {"ok": b"rchar: 1\nwchar: 2\nsyscr: 3\nsyscw: 4\nread_bytes: 5\nwrite_bytes: 6\ncancelled_write_bytes: 0\n".hex()}, "alive": True, "zombie": True}),
]


# ------------------------------------------------------------------------------ corpus (clause-directed seeds)

def corpus_tables():
    reg = {"t": "regular", "path": P(b"f0"), "deleted": False}
    return [
        # lead L13: a regular file opened with access mode 3
        {"family": "corpus-L13", "fds": [{"n": 3, "kind": reg, "pos": 0, "flags": 0o100003, "tail": "", "closes": None}],
         "gone_before": False, "dies_at": None},
        {"family": "corpus-L13", "fds": [
            {"n": 0, "kind": {"t": "device", "path": A("/dev/null")}, "pos": 0, "flags": 0o100002, "tail": "", "closes": None},
            {"n": 5, "kind": reg, "pos": 7, "flags": 0o102003, "tail": "", "closes": None},
            {"n": 6, "kind": {"t": "regular", "path": P(b"data.log"), "deleted": False}, "pos": 9, "flags": 0o101001, "tail": "", "closes": None}],
         "gone_before": False, "dies_at": None},
        # every descriptor closes, process alive
        {"family": "corpus-closing", "fds": [
            {"n": 3, "kind": reg, "pos": 1, "flags": 2, "tail": "", "closes": {"stage": "readlink", "errno": "ESRCH"}},
            {"n": 4, "kind": reg, "pos": 1, "flags": 2, "tail": "", "closes": {"stage": "fdinfo", "errno": "ESRCH"}},
            {"n": 5, "kind": reg, "pos": 1, "flags": 2, "tail": "", "closes": {"stage": "fdinfo", "errno": "ENOENT"}},
            {"n": 6, "kind": reg, "pos": 1, "flags": 2, "tail": "", "closes": {"stage": "readlink", "errno": "ENOENT"}},
            {"n": 8, "kind": reg, "pos": 1, "flags": 2, "tail": "", "closes": {"stage": "fdinfo_read", "second": False, "errno": "ENOENT"}},
            {"n": 9, "kind": reg, "pos": 1, "flags": 2, "tail": "", "closes": {"stage": "fdinfo_read", "second": True, "errno": "ENOENT"}},
            {"n": 10, "kind": reg, "pos": 1, "flags": 2, "tail": "", "closes": {"stage": "fdinfo_read", "second": False, "errno": "ESRCH"}},
            {"n": 11, "kind": reg, "pos": 1, "flags": 2, "tail": "", "closes": {"stage": "fdinfo_read", "second": True, "errno": "ESRCH"}},
            {"n": 7, "kind": reg, "pos": 2 ** 63, "flags": 0o102002, "tail": "", "closes": None}],
         "gone_before": False, "dies_at": None},
        {"family": "corpus-dies", "fds": [
            {"n": 3, "kind": reg, "pos": 1, "flags": 2, "tail": "", "closes": None},
            {"n": 4, "kind": reg, "pos": 1, "flags": 1, "tail": "", "closes": None}],
         "gone_before": False, "dies_at": 1},
        {"family": "corpus-gone", "fds": [{"n": 3, "kind": reg, "pos": 1, "flags": 2, "tail": "", "closes": None}],
         "gone_before": True, "dies_at": None},
        # permission: the target of one descriptor cannot be stat'ed / its link, its fdinfo is refused
        {"family": "corpus-denied-stat", "fds": [
            {"n": 3, "kind": reg, "pos": 1, "flags": 2, "tail": "", "closes": None},
            {"n": 4, "kind": {"t": "regular", "path": P(b"sec/hidden.txt"), "deleted": False}, "pos": 1, "flags": 2, "tail": "", "closes": None}],
         "gone_before": False, "dies_at": None},
        {"family": "corpus-denied-stat-deleted", "fds": [
            {"n": 4, "kind": {"t": "regular", "path": P(b"sec/unlinked"), "deleted": True}, "pos": 1, "flags": 2, "tail": "", "closes": None},
            {"n": 5, "kind": reg, "pos": 1, "flags": 2, "tail": "", "closes": None}],
         "gone_before": False, "dies_at": None},
        {"family": "corpus-denied-readlink", "fds": [
            {"n": 3, "kind": reg, "pos": 1, "flags": 2, "tail": "", "closes": None},
            {"n": 4, "kind": {"t": "socket", "ino": 7}, "pos": 0, "flags": 2, "tail": "", "closes": None, "denied": "readlink"}],
         "gone_before": False, "dies_at": None},
        {"family": "corpus-denied-fdinfo", "fds": [
            {"n": 3, "kind": reg, "pos": 1, "flags": 2, "tail": "", "closes": None, "denied": "fdinfo"},
            {"n": 4, "kind": {"t": "device", "path": A("/dev/null")}, "pos": 0, "flags": 2, "tail": "", "closes": None, "denied": "fdinfo"}],
         "gone_before": False, "dies_at": None},
        {"family": "corpus-denied-fdinfo-harmless", "fds": [
            {"n": 4, "kind": {"t": "device", "path": A("/dev/null")}, "pos": 0, "flags": 2, "tail": "", "closes": None, "denied": "fdinfo"},
            {"n": 5, "kind": reg, "pos": 1, "flags": 2, "tail": "", "closes": {"stage": "fdinfo", "errno": "ENOENT"}, "denied": "fdinfo"}],
         "gone_before": False, "dies_at": None},
        {"family": "corpus-denied-then-dies", "fds": [
            {"n": 3, "kind": reg, "pos": 1, "flags": 2, "tail": "", "closes": None},
            {"n": 4, "kind": {"t": "regular", "path": P(b"sec/hidden.txt"), "deleted": False}, "pos": 1, "flags": 2, "tail": "", "closes": None}],
         "gone_before": False, "dies_at": 1},
        {"family": "corpus-dir-denied", "fds": [{"n": 3, "kind": reg, "pos": 1, "flags": 2, "tail": "", "closes": None}],
         "gone_before": False, "dies_at": None, "dir_denied": True},
        {"family": "corpus-zombie", "fds": [], "gone_before": False, "dies_at": None, "zombie": True},
        {"family": "corpus-exits", "zombie": True, "gone_before": False, "dies_at": None, "fds": [
            {"n": 3, "kind": reg, "pos": 1, "flags": 2, "tail": "", "closes": None},
            {"n": 4, "kind": reg, "pos": 1, "flags": 1, "tail": "", "closes": {"stage": "readlink", "errno": "ENOENT"}},
            {"n": 5, "kind": reg, "pos": 1, "flags": 0, "tail": "", "closes": {"stage": "readlink", "errno": "ENOENT"}}]},
        {"family": "corpus-zombie-dir-denied", "fds": [], "gone_before": False, "dies_at": None, "zombie": True, "dir_denied": True},
        # seeded C14-3: POSIX shared memory is a REGULAR file under /dev/shm; /dev/null is not; control file elsewhere
        {"family": "corpus-dev-shm", "fds": [
            {"n": 0, "kind": {"t": "device", "path": A("/dev/null")}, "pos": 0, "flags": 0o100002, "tail": "", "closes": None},
            {"n": 3, "kind": {"t": "regular", "path": A("/dev/shm/x"), "deleted": False}, "pos": 4096, "flags": 0o100002, "tail": "", "closes": None},
            {"n": 4, "kind": reg, "pos": 1, "flags": 0o101001, "tail": "", "closes": None},
            {"n": 5, "kind": {"t": "regular", "path": A("/dev/shm/sem.psv (deleted)"), "deleted": False}, "pos": 0, "flags": 2, "tail": "", "closes": None},
            {"n": 6, "kind": {"t": "regular", "path": A("/dev/sda1"), "deleted": False}, "pos": 0, "flags": 0, "tail": "", "closes": None},
            {"n": 7, "kind": {"t": "device", "path": P(b"nodes/chr")}, "pos": 0, "flags": 2, "tail": "", "closes": None}],
         "gone_before": False, "dies_at": None},
        # isfile_strict on things that are not regular files: directory, FIFO, dangling, newline in the name
        {"family": "corpus-kinds", "fds": [
            {"n": 3, "kind": {"t": "device", "path": P(b"dir")}, "pos": 0, "flags": 0o200000, "tail": "", "closes": None},
            {"n": 4, "kind": {"t": "device", "path": P(b"fifo")}, "pos": 0, "flags": 2, "tail": "", "closes": None},
            {"n": 5, "kind": {"t": "regular", "path": P(b"gone.txt"), "deleted": True}, "pos": 0, "flags": 1, "tail": "", "closes": None},
            {"n": 6, "kind": {"t": "regular", "path": P(b"new\nline"), "deleted": False}, "pos": 3, "flags": 0o2001, "tail": "", "closes": None},
            {"n": 7, "kind": {"t": "relative", "target_sym": P(b"f0")}, "pos": 0, "flags": 0, "tail": "", "closes": None},
            {"n": 8, "kind": {"t": "regular", "path": P(b"sub/nl\n"), "deleted": True}, "pos": 3, "flags": 2, "tail": "", "closes": None},
            {"n": 9, "kind": {"t": "device", "path": P(b"dir (deleted)")}, "pos": 0, "flags": 0, "tail": "", "closes": None}],
         "gone_before": False, "dies_at": None},
        # ---- seeded round 5: targets that can no longer be stat'ed, REAL file system (nothing scripted): the directory of an
        # open file was removed and a regular file / a symlink loop took its name (ENOTDIR / ELOOP), a name too long for
        # the monitor (ENAMETOOLONG); control file with O_RDWR|O_APPEND
        {"family": "corpus-unstatable-real", "gone_before": False, "dies_at": None, "fds": [
            {"n": 3, "kind": {"t": "regular", "path": P(b"data.log"), "deleted": False}, "pos": 5, "flags": 0o102002, "tail": "", "closes": None},
            {"n": 4, "kind": {"t": "regular", "path": P(b"notdir/f"), "deleted": True}, "pos": 0, "flags": 0o100001, "tail": "", "closes": None},
            {"n": 5, "kind": {"t": "regular", "path": P(b"loop/g"), "deleted": True}, "pos": 0, "flags": 0o100000, "tail": "", "closes": None},
            {"n": 6, "kind": {"t": "regular", "path": P(LONG_NAME), "deleted": True}, "pos": 0, "flags": 0, "tail": "", "closes": None},
            {"n": 7, "kind": {"t": "regular", "path": P(b"notdir/sub/deep"), "deleted": False}, "pos": 9, "flags": 2, "tail": "", "closes": None},
            {"n": 8, "kind": {"t": "device", "path": P(b"loop/g")}, "pos": 0, "flags": 0, "tail": "", "closes": None}]},
        # … scripted: a dead network / FUSE mount (ESTALE, ENOTCONN, EIO, ETIMEDOUT) under names WITHOUT marker, next to
        # closing descriptors
        {"family": "corpus-unstatable-dead-mount", "gone_before": False, "dies_at": None,
         "stat_fail": [[P(b"f0"), errno.ESTALE], [P(b"sub/inner.txt"), errno.ENOTCONN], [A(b"/dev/shm/x"), errno.EIO],
                       [P(b"dir"), errno.ETIMEDOUT]],
         "fds": [
            {"n": 3, "kind": reg, "pos": 1, "flags": 2, "tail": "", "closes": None},
            {"n": 4, "kind": {"t": "regular", "path": P(b"sub/inner.txt"), "deleted": False}, "pos": 1, "flags": 1, "tail": "", "closes": None},
            {"n": 5, "kind": {"t": "regular", "path": A(b"/dev/shm/x"), "deleted": False}, "pos": 1, "flags": 0, "tail": "", "closes": None},
            {"n": 6, "kind": {"t": "device", "path": P(b"dir")}, "pos": 0, "flags": 0o200000, "tail": "", "closes": None},
            {"n": 7, "kind": {"t": "regular", "path": P(b"data.log"), "deleted": False}, "pos": 2, "flags": 0o101001, "tail": "", "closes": None},
            {"n": 8, "kind": {"t": "regular", "path": P(b"caf\xc3\xa9"), "deleted": False}, "pos": 2, "flags": 2, "tail": "",
             "closes": {"stage": "fdinfo", "errno": "ENOENT"}}]},
        # … only the MARKER text fails (path_exists_strict): the marker is dropped, the marker-less name decides
        {"family": "corpus-unstatable-marker", "gone_before": False, "dies_at": None,
         "stat_fail": [[P(b"f0" + DEL), errno.ELOOP], [P(b"gone.txt" + DEL), errno.ENAMETOOLONG], [T(b"a (deleted)"), errno.ENOTDIR],
                       [T(b"anon_inode:x (deleted)"), errno.EIO], [A(b"/memfd:psv (deleted)"), errno.ENOTDIR]],
         "fds": [
            {"n": 3, "kind": {"t": "regular", "path": P(b"f0"), "deleted": True}, "pos": 5, "flags": 2, "tail": "", "closes": None},
            {"n": 4, "kind": {"t": "regular", "path": P(b"gone.txt"), "deleted": True}, "pos": 5, "flags": 2, "tail": "", "closes": None},
            {"n": 5, "kind": {"t": "relative", "target": b"a (deleted)".hex()}, "pos": 0, "flags": 0, "tail": "", "closes": None},
            {"n": 6, "kind": {"t": "anon", "name": b"x (deleted)".hex()}, "pos": 0, "flags": 0, "tail": "", "closes": None},
            {"n": 7, "kind": {"t": "device", "path": A(b"/memfd:psv (deleted)")}, "pos": 0, "flags": 2, "tail": "", "closes": None}]},
        # … while the process is a zombie-to-be / next to a refusal (the refusal wins: AccessDenied)
        {"family": "corpus-unstatable-and-denied", "gone_before": False, "dies_at": None,
         "stat_fail": [[P(b"gone.txt"), errno.ENOTDIR], [P(b"gone.txt" + DEL), errno.ENOTDIR]],
         "fds": [
            {"n": 3, "kind": {"t": "regular", "path": P(b"gone.txt"), "deleted": True}, "pos": 5, "flags": 2, "tail": "", "closes": None},
            {"n": 4, "kind": {"t": "regular", "path": P(b"sec/hidden.txt"), "deleted": False}, "pos": 1, "flags": 2, "tail": "", "closes": None}]},
        # ---- round 3
        # audit item 4: os.stat of every non-absolute link text is refused (unsearchable cwd of the monitor): sockets, pipes,
        # anon inodes and relative targets are never stat'ed → the call succeeds and lists the regular file
        {"family": "corpus-rel-denied", "rel_denied": True, "gone_before": False, "dies_at": None, "fds": [
            {"n": 3, "kind": {"t": "socket", "ino": 7}, "pos": 0, "flags": 2, "tail": "", "closes": None},
            {"n": 4, "kind": {"t": "pipe", "ino": 1}, "pos": 0, "flags": 1, "tail": "", "closes": None},
            {"n": 5, "kind": {"t": "anon", "name": b"[eventfd]".hex()}, "pos": 0, "flags": 2, "tail": "", "closes": None},
            {"n": 6, "kind": {"t": "relative", "target_sym": P(b"f0")}, "pos": 0, "flags": 0, "tail": "", "closes": None},
            {"n": 7, "kind": {"t": "relative", "target": b"(unreachable)/x".hex()}, "pos": 0, "flags": 0, "tail": "", "closes": None},
            {"n": 8, "kind": {"t": "relative", "target": b"net:[4026531840]".hex()}, "pos": 0, "flags": 0, "tail": "", "closes": None},
            {"n": 9, "kind": reg, "pos": 11, "flags": 0o100002, "tail": "", "closes": None}]},
        # … the one exception (theorem C14_nonabsolute_marker_lookup): a non-absolute text ending in ' (deleted)' is looked up
        {"family": "corpus-rel-denied-marker", "rel_denied": True, "gone_before": False, "dies_at": None, "fds": [
            {"n": 3, "kind": reg, "pos": 1, "flags": 2, "tail": "", "closes": None},
            {"n": 4, "kind": {"t": "relative", "target": b"(unreachable)/x (deleted)".hex()}, "pos": 0, "flags": 0, "tail": "", "closes": None}]},
        {"family": "corpus-rel-denied-marker-anon", "rel_denied": True, "gone_before": False, "dies_at": None, "fds": [
            {"n": 4, "kind": {"t": "anon", "name": b"x (deleted)".hex()}, "pos": 0, "flags": 0, "tail": "", "closes": None},
            {"n": 5, "kind": reg, "pos": 1, "flags": 2, "tail": "", "closes": None}]},
        # audit item 6: the process dies right after the link of descriptor k was read
        {"family": "corpus-dies-after-link", "gone_before": False, "dies_at": 1, "dies_after_link": True, "fds": [
            {"n": 3, "kind": reg, "pos": 1, "flags": 2, "tail": "", "closes": None},
            {"n": 4, "kind": reg, "pos": 1, "flags": 1, "tail": "", "closes": None}]},
        {"family": "corpus-dies-after-link-more-to-come", "gone_before": False, "dies_at": 0, "dies_after_link": True, "fds": [
            {"n": 3, "kind": {"t": "socket", "ino": 7}, "pos": 0, "flags": 2, "tail": "", "closes": None},
            {"n": 4, "kind": reg, "pos": 1, "flags": 1, "tail": "", "closes": None}]},
        {"family": "corpus-dies-after-last-link-unnoticed", "gone_before": False, "dies_at": 1, "dies_after_link": True, "fds": [
            {"n": 3, "kind": reg, "pos": 1, "flags": 2, "tail": "", "closes": None},
            {"n": 4, "kind": {"t": "socket", "ino": 7}, "pos": 0, "flags": 2, "tail": "", "closes": None}]},
        {"family": "corpus-dies-after-last-link-hit-earlier", "gone_before": False, "dies_at": 2, "dies_after_link": True, "fds": [
            {"n": 3, "kind": reg, "pos": 1, "flags": 2, "tail": "", "closes": {"stage": "fdinfo", "errno": "ENOENT"}},
            {"n": 4, "kind": reg, "pos": 1, "flags": 2, "tail": "", "closes": None},
            {"n": 5, "kind": {"t": "device", "path": A("/dev/null")}, "pos": 0, "flags": 2, "tail": "", "closes": None}]},
        # audit item 1: what the link text cannot tell (theorems C14_unlinked_open_file_not_listed, C14_recreated_name_listed,
        # C14_deleted_nonregular_false_positive — the last one is outside the well-formed class: model only)
        {"family": "corpus-unlinked-open-file", "gone_before": False, "dies_at": None, "fds": [
            {"n": 3, "kind": {"t": "regular", "path": P(b"gone.txt"), "deleted": True}, "pos": 5, "flags": 2, "tail": "", "closes": None}]},
        {"family": "corpus-recreated-name", "gone_before": False, "dies_at": None, "fds": [
            {"n": 3, "kind": {"t": "regular", "path": P(b"f0"), "deleted": True}, "pos": 5, "flags": 2, "tail": "", "closes": None}]},
        {"family": "corpus-deleted-nonregular-false-positive", "gone_before": False, "dies_at": None, "fds": [
            {"n": 3, "kind": {"t": "device", "path": P(b"f0 (deleted)")}, "pos": 0, "flags": 2, "tail": "", "closes": None}]},
    ]


def big_tables():
    """audit item 3: descriptor tables far beyond any plausible cap (300 and 2000 descriptors, every kind, every 7th one
    closing), so that `files[:256]`, `min(len(...), 1024)`, an early `break` … have a failing input"""
    def table(n):
        fds = []
        for i in range(n):
            r = i % 10
            if r in (0, 1, 2, 3):
                kind = {"t": "regular", "path": P(POOL_FILES[i % 7]), "deleted": False}
            elif r == 4:
                kind = {"t": "socket", "ino": 1000 + i}
            elif r == 5:
                kind = {"t": "pipe", "ino": 5000 + i}
            elif r == 6:
                kind = {"t": "device", "path": A("/dev/null")}
            elif r == 7:
                kind = {"t": "anon", "name": b"[eventpoll]".hex()}
            elif r == 8:
                kind = {"t": "regular", "path": P(b"gone.txt"), "deleted": True}
            else:
                kind = {"t": "relative", "target": b"net:[4026531840]".hex()}
            closes = {"stage": ["readlink", "fdinfo", "fdinfo_read"][i % 3], "errno": ["ENOENT", "ESRCH"][i % 2], "second": bool(i % 4 == 0)} \
                if i % 7 == 6 else None
            if closes and closes["stage"] != "fdinfo_read":
                closes.pop("second")
            fds.append({"n": i, "kind": kind, "pos": i * 4096, "flags": [0o100000, 0o100001, 0o102002, 0o100003][i % 4],
                        "tail": "", "closes": closes})
        return {"family": "corpus-%d-descriptors" % n, "fds": fds, "gone_before": False, "dies_at": None}
    t300, t2000 = table(300), table(2000)
    return [dict(t300, mode="plain"), dict(t300, mode="oneshot", pair=True, family="pair:corpus-300-descriptors"),
            dict(t300, mode="iter2"), dict(t2000, mode="plain"),
            dict(t2000, mode="plain", dies_at=1999, dies_after_link=True, family="corpus-2000-dies-after-last-link")]


def corpus_raws():
    e = {"name": b"3".hex(), "link": {"sym": P(b"f0")}, "info": {"ok": b"pos:\t1\nflags:\t02\n".hex()}}
    out = []
    for zombie in (False, True):
        for ld in ("ENOENT", "ESRCH", "EACCES"):
            out.append({"family": "corpus-listdir-%s%s" % (ld, "-zombie" if zombie else ""), "entries": [e],
                        "listdir": ld, "zombie": zombie})
        # one descriptor whose readlink / fdinfo open / target stat is refused, process running or zombie
        out.append({"family": "corpus-raw-eacces-link", "zombie": zombie,
                    "entries": [e, {"name": b"4".hex(), "link": {"err": "EACCES"}, "info": e["info"]}]})
        out.append({"family": "corpus-raw-eacces-info", "zombie": zombie,
                    "entries": [{"name": b"4".hex(), "link": {"sym": P(b"f0")}, "info": {"err": "EACCES"}}, e]})
        out.append({"family": "corpus-raw-eacces-exists", "zombie": zombie,
                    "entries": [e, {"name": b"5".hex(), "link": {"sym": P(b"sec/x (deleted)")}, "info": e["info"]}]})
    # round 3, audit item 5: os.readlink / the open of fdinfo failing with an errno no handler names. Proved answers
    # (C14_readlink_other_errno, C14_readlink_eio_propagates): EINVAL / ENAMETOOLONG skip the descriptor, every other errno
    # leaves the call as an OSError — nothing is silently dropped
    for en in OTHER_ERRNOS:
        out.append({"family": "corpus-raw-readlink-errno-%s" % errno.errorcode[en], "entries": [e, {"name": b"4".hex(), "link": other_err(en), "info": e["info"]}],
                    "expect": {"open_files": {"kind": "exc", "exc": "OSError"}, "num_fds": {"kind": "ok", "value": 2}}})
        out.append({"family": "corpus-raw-fdinfo-errno-%s" % errno.errorcode[en], "entries": [{"name": b"4".hex(), "link": {"sym": P(b"f0")}, "info": other_err(en)}, e],
                    "expect": {"open_files": {"kind": "exc", "exc": "OSError"}, "num_fds": {"kind": "ok", "value": 2}}})
    return out


def corpus_io():
    return [
        {"family": "corpus-badval", "items": [kv(k, i + 1) for i, k in enumerate(IO_KEYS)] + [{"t": "badval", "name": b"foo".hex(), "val": b"bar".hex()}]},
        {"family": "corpus-1004", "items": [kv(IO_KEYS[0], 1), {"t": "blank", "ws": ""}] + [kv(k, i + 2) for i, k in enumerate(IO_KEYS[1:])]},
    ]


# ------------------------------------------------------------------------------ correspondence

def low_flag_words():
    return list(range(4096))


def correspond(ctx, res):
    impl = Impl(ctx)
    try:
        res.rule = ("descriptor tables (0..64 descriptors of six kinds x closing stages x refusals (EACCES at readlink / "
                    "target stat / fdinfo / fd directory) x targets whose os.stat fails with another errno (real ENOTDIR / ELOOP / "
                    "ENAMETOOLONG names, per-name injected errnos at the name / the ' (deleted)' text / the marker-less cut) x process states (running, zombie, exiting, dying, gone)), each "
                    "run in a call mode (plain, oneshot, warm oneshot after a world change, as_dict, process_iter object, "
                    "cached process_iter object, second call) and "
                    "/proc/pid/io files from clause-directed families (PRNG from VERIF_SEED; every content has a promised "
                    "answer), every io line of up to 3 (quick) / 4 (thorough) tokens of {syscr, xtra, ': ', ':', ' ', 9, -, +, _} "
                    "inserted after / before / instead of the kernel's own line, num_fds()/open_files()/num_fds() on one object "
                    "and one table (pair), a malformed stream "
                    "(raw fd entries / fdinfo texts / io files), plus exhaustive sweeps of the flag word; "
                    "non-trivial = a table that is non-empty, an io file with a non-counter line or an error, "
                    "every flag word; distinct = distinct canonical inputs")
        lines = 0
        # ---- exhaustive: every low flag word through file_flags_to_mode …
        words = low_flag_words()
        extra = []
        for hb in HIGH_BITS:
            extra += [w | hb for w in range(0, 4096, 1 if ctx.tier == "thorough" else 37)]
        extra += [w | sum(HIGH_BITS) for w in (0, 1, 2, 3, 1024, 1025, 1026, 1027)]
        extra += [ctx.rng.randrange(2 ** 32) for _ in range(ctx.n(200, 5000))]
        lines += run_mode(ctx, impl, words + extra, res)
        # … and end to end through open_files(), 64 descriptors per table
        sweep = flag_sweep_tables(words) + flag_sweep_tables([w | 0o100000 | 0o2000000 for w in range(0, 4096, 64)])
        # ---- corpus, then the families
        base_corpus = corpus_tables()
        kp = kind_prefix_sweep()
        res.extra["kind_x_prefix_tables"] = len(kp)
        # seeded round 5: every errno of the host x every stat site (quick: every errno in the full table + the three
        # single-site tables for the errnos a file system really answers; thorough: everything)
        ses = stat_errno_sweep()
        if ctx.tier == "quick":
            ses = [c for c in ses if len(c["fds"]) > 1 or c["stat_fail"][0][1] in STAT_ERRNOS]
        res.extra["stat_errno_sweep_tables"] = len(ses)
        res.extra["stat_errnos"] = len(ALL_STAT_ERRNOS)
        tables = [dict(c, mode=m, family=c["family"]) for m in MODES for c in base_corpus] + kp + ses + sweep + big_tables()
        n = ctx.n(260, 9000)
        for i in range(n):
            tables.append(gen_table(ctx.rng, TABLE_FAMILIES[i % len(TABLE_FAMILIES)]))
        # ---- num_fds() against open_files() on one object and one world (live process)
        for c in base_corpus + kp[::7]:
            if not c.get("gone_before") and c.get("dies_at") is None:
                for m in ("plain", "oneshot"):
                    tables.append(dict(c, mode=m, pair=True, family="pair:" + c["family"]))
        for i in range(ctx.n(120, 2500)):
            c = gen_table(ctx.rng, PAIR_FAMILIES[i % len(PAIR_FAMILIES)])
            c.update(gone_before=False, dies_at=None, pair=True, mode=ctx.rng.choice(["plain", "oneshot"]),
                     family="pair:" + c["family"])
            tables.append(c)
        CH = 400
        for a in range(0, len(tables), CH):
            lines += run_tables(ctx, impl, tables[a:a + CH], res)
        raws = [dict(c, mode=m) for m in MODES for c in corpus_raws()]
        raws += [gen_raw(ctx.rng) for _ in range(ctx.n(200, 6000))]
        for a in range(0, len(raws), 1000):
            lines += run_raws(ctx, impl, raws[a:a + 1000], res)
        ios = [dict(c, mode=m) for m in MODES for c in corpus_io()]
        for i in range(ctx.n(330, 9000)):
            ios.append(gen_io(ctx.rng, IO_FAMILIES[i % len(IO_FAMILIES)]))
        for a in range(0, len(ios), 2000):
            lines += run_io_items(ctx, impl, ios[a:a + 2000], res)
        lines += run_io_raws(ctx, impl, [dict(c, family=f, mode=m) for m in MODES for f, c in IO_RAW], res)
        # ---- exhaustive: every line made of up to N tokens of IO_TOKENS, inserted after / before / instead of
        # the kernel's own line; then longer lines over a wider alphabet, sampled
        nshape = 3 if ctx.tier == "quick" else 4
        shapes = io_shape_sweep(nshape)
        res.extra["io_shape_lines"] = len(shapes) // 3
        # one token more over the core alphabet {syscr, ': ', ' ', 9, -, +, _} (`syscr: -9`, `syscr : 9`, `syscr: 9_`, …):
        # all of them, appended to the kernel's file (where a counter line for syscr changes the answer)
        shapes += io_shape_sweep(nshape + 1, variants=("after",), alphabet=IO_TOKENS_CORE, minlen=nshape + 1)
        res.extra["io_shape_lines_core_after_only"] = len(IO_TOKENS_CORE) ** (nshape + 1)
        shapes += [gen_io_shape(ctx.rng, ctx.rng.randrange(nshape + 1, 9)) for _ in range(ctx.n(1200, 8000))]
        for a in range(0, len(shapes), 3000):
            lines += run_io_raws(ctx, impl, shapes[a:a + 3000], res)
        res.exhaustive = ("all 4096 combinations of the twelve low flag bits (access mode x O_CREAT/O_EXCL/O_NOCTTY/O_TRUNC/"
                          "O_APPEND/O_NONBLOCK and the unnamed low bits) through file_flags_to_mode AND end to end through "
                          "open_files() on 64 tables of 64 regular descriptors; every scripted target kind (regular file, directory, FIFO, "
                          "character device, dangling) x every path prefix (/dev/, /dev/shm/, /dev/pts/, /proc/, /sys/, /run/, /, the "
                          "temp root, device-looking names) x unlinked marker, one descriptor per table and all together; every errno of the host "
                          "except ENOENT/EACCES/EPERM as the answer of os.stat at every place the scan can meet it (path_exists_strict on the "
                          "marker text, isfile_strict on the name / the marker-less cut, a non-absolute marker text), all together per errno "
                          "(plus one table per stat site: for the file-system errnos at quick tier, for all at thorough); every call mode (%s) x every method on the "
                          "clause-directed corpus (%d tables incl. the permission / zombie / file-kind ones, %d io files, %d raw io "
                          "cases); every /proc/pid/io line made of at most %d tokens of the alphabet {syscr, xtra, ': ', ':', ' ', "
                          "9, -, +, _} (%d lines: duplicate keys, unknown names, names with blanks, signed / underscored / "
                          "malformed values, several separators) x {appended to, put before, replacing the kernel's own syscr "
                          "line}, plus every line of %d tokens of {syscr, ': ', ' ', 9, -, +, _} appended to the kernel's file; tables, io files, longer io lines and the malformed stream are samples, each in a mode drawn at random"
                          % (", ".join(MODES), len(base_corpus), len(corpus_io()), len(IO_RAW), nshape, len(io_shape_sweep(nshape)) // 3, nshape + 1))
        res.extra["driver_lines"] = lines
    finally:
        impl.close()


def search(ctx, res, broken):
    correspond(ctx, res)


# ------------------------------------------------------------------------------ replay / shrink

def _run_one(ctx, impl, inp, res):
    fam, case = inp["family"], inp["case"]
    if fam == "mode":
        run_mode(ctx, impl, [case["flags"]], res)
    elif fam == "table":
        run_tables(ctx, impl, [case], res)
    elif fam == "raw":
        run_raws(ctx, impl, [case], res)
    elif fam == "io_items":
        run_io_items(ctx, impl, [case], res)
    elif fam == "io_raw":
        run_io_raws(ctx, impl, [case], res)
    else:
        raise ValueError(fam)


def _violates(ctx, impl, inp):
    from harness.common.runner import Result
    r = Result()
    _run_one(ctx, impl, inp, r)
    return [d for d in r.disagreements if d["kind"] == "spec"]


def shrink(ctx, d):
    inp = d["input"]
    fam = inp.get("family")
    impl = Impl(ctx)
    try:
        if fam == "table":
            case = inp["case"]

            def fails(fds):
                c = dict(case, fds=fds)
                if c.get("dies_at") is not None:
                    c["dies_at"] = min(c["dies_at"], len(fds))
                return bool(_violates(ctx, impl, {"family": "table", "case": c}))
            if len(case["fds"]) > 1 and case.get("dies_at") is None:
                small = ddmin(case["fds"], fails, max_tests=40)
                c = dict(case, fds=small)
                v = _violates(ctx, impl, {"family": "table", "case": c})
                if v:
                    return v[0]
        if fam == "io_items":
            case = inp["case"]

            def fails_io(items):
                return bool(_violates(ctx, impl, {"family": "io_items", "case": dict(case, items=items)}))
            if len(case["items"]) > 1:
                small = ddmin(case["items"], fails_io, max_tests=40)
                v = _violates(ctx, impl, {"family": "io_items", "case": dict(case, items=small)})
                if v:
                    return v[0]
    finally:
        impl.close()
    return d


def replay(ctx, rp, res):
    inp = rp.get("input")
    if not inp or "family" not in inp:
        return True
    impl = Impl(ctx)
    try:
        return bool(_violates(ctx, impl, inp))
    finally:
        impl.close()


def check_finding(ctx, fnd):
    w = fnd.get("witness") or {}
    if "family" not in w:
        return "unknown"
    impl = Impl(ctx)
    try:
        return "reproduces" if _violates(ctx, impl, w) else "gone"
    finally:
        impl.close()
