"""C19 — sensors, battery, CPU frequency/count, boot time mirror the kernel's tables.

Model: lean/PsutilModel/Model/C19.lean (+C19Gen), Spec: Spec/C19.lean, theorems: Props/C19.lean.
Correspondence: abstract sysfs/procfs trees (file = absent | unreadable | content) are rendered into a
temp root that psutil's hard-coded `/sys/...` paths are redirected to (harness/props/c19_redirect.py);
the REAL front ends `psutil.sensors_temperatures(fahrenheit) / sensors_fans / sensors_battery /
cpu_freq(percpu) / cpu_count(logical) / cpu_stats / boot_time` (and `_pslinux.sensors_temperatures`)
run on them and are compared with the Lean model and with the declarative specification the driver
prints alongside. Set-iteration order of the thermal-zone trip points is observed in the very
interpreter that runs psutil and handed to the model as an explicit permutation; it is varied by
(a) choosing which trip point gets which `trip_point_N` name, so that every iteration order of a
trip list is produced on purpose, and (b) re-running zone cases in subprocesses under other
PYTHONHASHSEED values.
"""
import itertools
import json
import os
import subprocess
from fractions import Fraction

from harness.common.build import PY, VERIF
from harness.props import c19_redirect
from harness.props.c19_facts import facts  # noqa: F401  (translator entry point)

PROP = "C19"
DRIVER_MODULES = ["PsutilModel.Model.C19Gen", "PsutilModel.Model.C19Dir", "PsutilModel.Spec.C19", "PsutilModel.Spec.C19Cores",
                  "PsutilModel.Spec.C19Dir", "PsutilModel.Spec.C19Boot"]
NEEDS_EXT = True
TRUSTED = [
    "C19 redirect layer (harness/props/c19_redirect.py): glob.glob / os.listdir / os.sysconf / os.path.exists and open() as seen by psutil._pslinux / psutil._common are served from a temp root; an 'unreadable' file is an existing file that fails in one of five ways chosen per case: open() raises EACCES or ENXIO, or the open succeeds and read()/iteration raises EIO, ENODATA or ENODEV (a file object handed out by the shim)",
    "C19 histories (family boot_hist_*): before and after each history the scalar globals and the content of the plain list/dict/set globals of psutil, psutil._pslinux, psutil._common are put back to what they were right after import (BOOT_TIME: None) — the stand-in for 'a fresh interpreter'; state kept inside other objects is not reset; Process.create_time() is driven through a fake <procfs>/<pid>/stat line in the kernel's 52-field format whose only varied field is starttime; times are compared within 2^-50 relative (1.5e-6 s at today's epoch)",
    "C19 number syntax: float()/int() are modelled on optional blanks, optional sign, decimal digits, optional fraction (what the kernel prints); exponents, inf/nan, '_' separators and non-ASCII digits/blanks are outside the model and outside the generators",
    "C19 floats: the model computes exact rationals; the implementation's doubles are accepted within 1e-9 relative (secsleft: +-1 when the exact quotient is within 1e-9 of an integer; cpuinfo-derived MHz: 0.0011 absolute, int() of a double)",
    "C19 kernel formats: /proc/stat and /proc/cpuinfo renderers in Spec/C19.lean are transcriptions of fs/proc/stat.c and arch/x86/kernel/cpu/proc.c (fields psutil reads), the cpulist renderer in Spec/C19Cores.lean of the `%*pbl` bitmap format (Documentation/admin-guide/cputopology.rst: core_cpus_list); none is verified against the kernel",
]
ASSUMPTIONS = [
    "power-supply, hwmon and thermal names are ASCII; text files contain no \\x1c-\\x1f, U+0085, U+00A0 or other non-ASCII blanks (str.strip vs the byte-level model)",
    "policy directories are numbered with canonical decimals; at most one directory per number",
    "the coretemp platform glob is modelled as found (its entries never yield a reading; a match suppresses the thermal fallback: C19_coretemp_as_found) and is OUTSIDE the specification: the refinement theorems assume that glob empty or a hwmon sensor listed; layouts with coretemp files that are not also under /sys/class/hwmon do not exist on real kernels",
    "secsleft for a negative power figure is the formula's value (negative, possibly -1/-2): the statement defines seconds left as now/power*3600; characterised (C19_secsleft_sign, C19_secsleft_negative_collides), not judged",
    "which cpuN/online file marks an offline CPU of a policy without frequency files is not fixed by the property: the specification is silent when the policy's position in the sorted list differs from its number",
]
MANIFEST = {
    "level_text": "Machine-checked Lean 4 proofs over an executable model of the Linux sensors/battery/cpu_freq/cpu_count/cpu_stats/boot_time code for EVERY abstract tree: the hwmon walker equals the declarative per-sensor view and never fails (C19_temperatures_never_fail for every tree, C19_temperatures_refine / C19_missing_reading_skipped, C19_temp_scaling; the coretemp platform glob is outside the specification, its effect characterised in C19_coretemp_as_found), thermal zones influence the result exactly when hwmon lists nothing (C19_fallback_iff, with C19_zones_ignored_when_hwmon_lists / C19_fallback_to_zones), zone thresholds are independent of the set-iteration order for every permutation (C19_zone_thresholds, with a proved counterexample for the code as found: conversions inside the loop), Fahrenheit and back-fill laws (C19_fahrenheit, C19_backfill, with a proved counterexample for the truthiness test), fans per fan (C19_fans_rows_when_returns: whenever the call returns its rows are exactly the determined fans; C19_fans_error_only_on_silent_fan: it can raise only on a listed fan with a readable non-integer reading or an unreadable chip name; C19_fans_raise_iff_as_found as a characterisation; C19_none_when_absent_fans), battery percent/plugged/secsleft/first-battery/None rules (C19_battery_refines and corollaries; without any hypothesis on /sys/class/power_supply for the repaired source: C19_battery_refines_full_repaired, with the counterexample C19_battery_no_dir_counterexample for the source as found = known finding C19-battery-no-power-supply-dir; clause by clause in C19_plugged_rules, C19_alternatives_rules, C19_secsleft_rules, end to end in C19_battery_kernel), cpu_freq kHz->MHz scaling, column means and None for no CPU for both module variants, cpu_count(logical=True) over its three sources (C19_cpu_count_logical_refines) and cpu_stats/boot_time as round trips through kernel-format renderers of /proc/cpuinfo and /proc/stat (text level), boot_time() over HISTORIES of calls is never served from the module global (C19_boot_time_not_cached, counterexample for a caching variant, C19_boot_time_global_kept), and over every history of boot_time() / Process.create_time() / cpu_stats() calls in one interpreter while the kernel's btime moves by any amount (one second included) each boot_time() hands back the btime of its own moment (C19_boot_time_mirrors_every_history, C19_boot_time_mirrors_from_any_global; C19_boot_time_rule_iff: a return rule keeps the promise iff it returns the value just read for every pair (remembered, read); C19_boot_time_tolerance_iff: a fluctuation tolerance keeps it iff it is below one second; counterexamples C19_boot_time_one_second_counterexample, C19_create_time_then_one_second_counterexample, C19_boot_time_cached_rule_counterexample) while every successful create_time() of a history is explained by ONE boot time (C19_create_time_stable), thermal-zone and hwmon directories at FILE-NAME level: every trip point the kernel names trip_point_<n>_{type,temp,hyst} (any number of digits) is in the set the walker iterates, the set holds nothing else, and for every iteration order the zone row is the row of the kernel's description (C19_zone_all_trip_points, C19_zone_trip_set, C19_trip_index, C19_zone_dir_refines, C19_zone_dir_critical; C19_hwmon_all_sensor_indices for temp<n>_/fan<n>_ files), battery selection = lexicographic minimum among the names that start with BAT or contain battery in any case, existence and uniqueness (C19_battery_name_rule, C19_battery_selection, C19_first_battery_exists_unique), blanks/newlines around a number or text are not seen (C19_whitespace_insensitive, C19_kernel_value_padded, C19_battery_reads_whitespace, C19_fans_whitespace), sign of seconds-left for negative power figures as a characterisation (C19_secsleft_sign, C19_secsleft_negative_collides), cpu_count(logical=False) = number of distinct sibling lists of the topology files under either file name, for any assignment of any number of CPUs to cores printed in the kernel's cpulist format (C19_cpu_count_cores_topology, C19_cpu_count_cores_kernel; the format is proved injective), else the package sum of a kernel-format /proc/cpuinfo, None when 0 (C19_cpu_count_cores_cpuinfo, C19_cpu_count_cores_none, C19_cpu_count_cores_refines). Tied to the code by translator facts (caught exception classes, placement of the /1000 conversions relative to the trip-point loop, constants, file-name alternatives and their order, name filter, enum values, the trip-point glob / split-join slice / file suffixes / type constants) feeding the proof obligations cfg_good / cfg_names (file names, keys, glob patterns for hwmonN / thermal_zoneN / policyN of any number of digits, line tests; generated strings compared with the model's own byte constants) / cfg_cat (_common.cat catches OSError around open AND read) / cfg_boot_fresh / cfg_boot_hist (every place that names BOOT_TIME, the body of Process.create_time(), the front end psutil.boot_time() a plain delegation), and by a differential run of the real front ends over redirected trees whose text files are the bytes printed by the Lean renderers.",
    "level_note": "Theorems whose docstring starts with SPEC-ONLY (C19_reported_iff, C19_zone_spec_order_free, C19_first_battery, C19_secsleft_rules, C19_secsleft_sign, C19_secsleft_negative_collides, C19_cores_packages, C19_trip_index, C19_battery_name_examples, C19_first_battery_exists_unique) document the specification and do not constrain psutil; several specification functions (percentOf, secsleftOf, pluggedOf, freqList, countLogical) follow the statement clause by clause and therefore resemble the code: those refinement theorems are characterisations of the code against the statement's formulas, the independent parts are zoneThresh, firstBattery, distinctCount/cpuList, tripIndex?, the renderers and mean. Exact-rational theorems (C19_cpu_freq_end_to_end, C19_secsleft) hold of the Rat model; the doubles of the implementation are accepted within the stated tolerances. Trusted: Lean kernel + {propext, Classical.choice, Quot.sound}; the translator; the redirect layer and correspondence harness; Python number syntax restricted to the kernel's notation; doubles vs exact rationals within the stated tolerances.",
    "technique": "Lean 4 proofs (case analysis, list induction, permutation invariance, render->parse round trips of /proc/stat, /proc/cpuinfo and the cpulist format) over a model on abstract sysfs trees + translator-fed proof obligation + differential correspondence through a path-redirect layer with explicit set-order control and exhaustive small sub-domains",
    "design_ref": "DESIGN.md §5 C19",
}

# ------------------------------------------------------------------------------ small helpers


def hx(b):
    return bytes(b).hex()


def frac(q):
    return Fraction(q[0], q[1])


def close(x, q, rel=1e-9, abs_tol=0.0):
    """float/int of the implementation vs exact rational [num, den] of the model"""
    if x is None or q is None:
        return x is None and q is None
    if isinstance(x, bool) or not isinstance(x, (int, float)):
        return False
    if x != x or x in (float("inf"), float("-inf")):
        return False
    e = frac(q)
    d = abs(Fraction(x) - e)
    return d <= Fraction(rel) * max(1, abs(e)) + Fraction(abs_tol)


def thr_ok(x, q):
    if isinstance(q, dict) and q.get("any"):
        return True
    return close(x, q)


def rows_match(impl_rows, want_rows):
    """multiset equality of temperature rows (order is not part of the property)"""
    if len(impl_rows) != len(want_rows):
        return False
    used = [False] * len(want_rows)
    for r in impl_rows:
        for i, w in enumerate(want_rows):
            if used[i]:
                continue
            if r["unit"] == w["unit"] and r["label"] == w["label"] and close(r["current"], w["current"]) \
                    and thr_ok(r["high"], w["high"]) and thr_ok(r["crit"], w["crit"]):
                used[i] = True
                break
        else:
            return False
    return True


def res_match(impl, want, value_eq):
    """impl / want: {"kind":"ok","value":…} | {"kind":"exc","exc":…}"""
    if want is None:
        return True
    if impl["kind"] != want["kind"]:
        return False
    if impl["kind"] == "exc":
        return impl["exc"] == want["exc"]
    return value_eq(impl["value"], want["value"])


def fans_eq(a, b):
    key = lambda r: (r["unit"], r["label"], r["current"])  # noqa: E731
    return sorted(map(key, a)) == sorted(map(key, b))


def bat_eq(a, b):
    if a is None or b is None:
        return a is None and b is None
    if a["plugged"] != b["plugged"]:
        return False
    if not close(a["percent"], b["percent"]):
        return False
    if a["secsleft"] == b["secsleft"]:
        return True
    # int(now / power * 3600) on doubles may land one off when the exact value is an integer boundary
    return b.get("near_int", False) and abs(a["secsleft"] - b["secsleft"]) <= 1


def freq_eq(tol):
    def trip(x, y):
        return len(x) == 3 and all(close(p, q, abs_tol=tol) for p, q in zip(x, y))

    def eq(a, b):
        if a is None or b is None:
            return a is None and b is None
        if ("list" in a) != ("list" in b):
            return False
        if "list" in a:
            return len(a["list"]) == len(b["list"]) and all(trip(x, y) for x, y in zip(a["list"], b["list"]))
        return trip(a["one"], b["one"])
    return eq


def plain_eq(a, b):
    return a == b


def close_ulp(x, q):
    """a time in seconds (float of the implementation) vs the exact rational of the model / specification: a few units in
    the last place of a double (2^-50 relative: 1.5e-6 s at today's epoch). The general `close` (1e-9 relative) is 1.7 s
    wide at btime = 1.7e9 and would hide a boot time that is one second off."""
    if x is None or q is None:
        return x is None and q is None
    if isinstance(x, bool) or not isinstance(x, (int, float)) or x != x or x in (float("inf"), float("-inf")):
        return False
    e = frac(q)
    return abs(Fraction(x) - e) <= max(1, abs(e)) * Fraction(1, 2**50)


def btime_eq(a, b):
    return close_ulp(a, b)


# ------------------------------------------------------------------------------ generators

JUNK = [b"", b"\n", b"N/A\n", b"abc", b"12x\n", b"1 2\n", b"--5\n", b"0x10\n", b"unknown\n", b"4,5\n"]
TEXTS = [b"coretemp\n", b"acpitz\n", b"nvme\n", b"k10temp\n", b"Core 0\n", b"Package id 0\n", b"  padded  \n", b"",
         b"x86_pkg_temp\n", b"iwlwifi_1\n", b"caf\xc3\xa9\n", b"odd\xff\n", b"two words", b"\tTab\t\n"]


def num_file(rng, lo=-20000, hi=120000, floaty=True, p_absent=0.06, p_unread=0.05, p_junk=0.08):
    r = rng.random()
    if r < p_absent:
        return None
    if r < p_absent + p_unread:
        return False
    if r < p_absent + p_unread + p_junk:
        return hx(rng.choice(JUNK))
    v = rng.choice([0, 0, 1, -1, 1000, 999, 45000, 100000, rng.randrange(lo, hi), rng.randrange(lo, hi)])
    style = rng.random()
    if style < 0.75:
        return hx(b"%d\n" % v)
    if style < 0.82:
        return hx(b"%d" % v)
    if style < 0.88:
        return hx(b"  %d \n" % v)
    if style < 0.93:
        return hx(b"+%d\n" % abs(v))
    if floaty:
        return hx(rng.choice([b"%d.5\n" % abs(v), b"%d.\n" % abs(v), b".%d\n" % abs(v), b"-%d.25\n" % abs(v)]))
    return hx(b"%d\n" % v)


def text_file(rng, p_absent=0.1, p_unread=0.05):
    r = rng.random()
    if r < p_absent:
        return None
    if r < p_absent + p_unread:
        return False
    return hx(rng.choice(TEXTS))


def good_int(v):
    return hx(b"%d\n" % v)


def gen_sensor(rng, fam):
    s = {"input": num_file(rng), "label": text_file(rng, 0.4), "max": num_file(rng, p_absent=0.3),
         "crit": num_file(rng, p_absent=0.3), "other": rng.random() < 0.2}
    if fam == "missing":
        s["input"] = rng.choice([None, False, hx(rng.choice(JUNK)), s["input"]])
    elif fam == "nonnumeric_thr":
        s["input"] = good_int(rng.randrange(20000, 90000))
        s[rng.choice(["max", "crit"])] = hx(rng.choice(JUNK))
    elif fam == "zero_thr":
        s["input"] = good_int(rng.randrange(20000, 90000))
        a, b = rng.choice([("max", "crit"), ("crit", "max")])
        s[a] = rng.choice([good_int(0), hx(b"0"), hx(b"-0\n"), hx(b"0.0\n")])
        s[b] = rng.choice([good_int(rng.randrange(1, 110000)), None, good_int(0), hx(b"junk")])
    elif fam == "all_absent":
        s = {"input": None, "label": None, "max": None, "crit": None, "other": False}
    elif fam == "padded":
        s = {k: (pad_file(rng, v) if k != "other" else v) for k, v in s.items()}
    return s


def gen_fan(rng, fam):
    f = {"input": num_file(rng, 0, 9000, floaty=False, p_junk=0.03 if fam != "fan_junk" else 0.5),
         "label": text_file(rng, 0.5), "other": rng.random() < 0.15}
    return f


def gen_chip(rng, fam, nested=None):
    c = {"nested": (rng.random() < 0.3) if nested is None else nested,
         "name": text_file(rng, 0.05, 0.05) if fam != "no_name" else rng.choice([None, False]),
         "temps": [gen_sensor(rng, fam) for _ in range(rng.randrange(0, 4))],
         "fans": []}
    if fam == "big_index":
        c["temps"] = [gen_sensor(rng, "basic") for _ in range(rng.randrange(2, 7))]
        c["temps"] = [dict(t, idx=i) for t, i in zip(c["temps"], big_indices(rng, len(c["temps"])))]
    if fam == "padded":
        c["name"] = pad_file(rng, c["name"])
    return c


TRIP_TYPES = [b"critical\n", b"high\n", b"passive\n", b"active\n", b"hot\n", b"critical", b" high \n", b"Critical\n", b""]


def gen_trip(rng):
    return {"typ": rng.choice([hx(rng.choice(TRIP_TYPES))] * 8 + [None, False]),
            "temp": num_file(rng, 0, 120000, p_absent=0.05, p_unread=0.05, p_junk=0.08),
            "hyst": rng.random() < 0.3}


def assign_trip_names(rng, trips, style=None):
    """give each trip point a distinct trip_point_N index (N chosen at random: varies the set order).
    `kernel`: contiguous 0..n-1 in a random assignment (what the kernel creates); `wide`: indices with 2-4 digits"""
    if style == "kernel":
        ks = list(range(len(trips)))
        rng.shuffle(ks)
    elif style == "wide":
        ks = rng.sample([9, 10, 11, 19, 20, 99, 100, 101, 255, 999, 1000, 1234, 4095, 10000, 65535], len(trips))
    else:
        ks = rng.sample(range(0, 40), len(trips))
    return [dict(t, k=k) for t, k in zip(trips, ks)]


# other attributes of a thermal zone directory (none matches `trip_point*`), and names that DO match the glob
# without being one of the kernel's three trip-point files (the specification is silent on those)
ZONE_OTHER_FILES = ["mode", "policy", "available_policies", "cdev0_trip_point", "cdev1_trip_point", "cdev0_weight",
                    "k_po", "k_pu", "emul_temp", "integral_cutoff", "offset", "slope", "sustainable_power", "uevent"]
ZONE_FOREIGN_TRIP_FILES = ["trip_point_count", "trip_points", "trip_point_0", "trip_point_3_temp_max", "trip_point_07_type",
                           "trip_point_x_type", "trip_point__type", "trip_point_2_Type"]


def unique_kinds(trips):
    """make `high` / `critical` unique among the trips (the region where the property determines the thresholds)"""
    seen = set()
    out = []
    for t in trips:
        kind = None
        if isinstance(t["typ"], str):
            kind = bytes.fromhex(t["typ"]).strip()
        if kind in (b"critical", b"high"):
            if kind in seen:
                t = dict(t, typ=hx(b"passive\n"))
            seen.add(kind)
        out.append(t)
    return out


def gen_zone(rng, fam):
    n = rng.randrange(0, 6) if fam != "single_trip" else 1
    if fam == "many_trips":
        n = rng.randrange(11, 18)
    trips = [gen_trip(rng) for _ in range(n)]
    if fam == "many_trips":
        # the kernel's numbering 0..n-1; the `critical` / `high` trip point sits at an index >= 10
        trips = [dict(t, typ=hx(rng.choice([b"passive\n", b"active\n", b"hot\n"])) if isinstance(t["typ"], str) else t["typ"])
                 for t in trips]
        trips = [dict(t, k=k) for k, t in enumerate(trips)]
        for kind, lo, hi in ((b"critical\n", 90000, 120000), (b"high\n", 70000, 90000)):
            if rng.random() < 0.85:
                j = rng.randrange(10, n)
                trips[j] = {"k": j, "typ": hx(kind), "temp": good_int(rng.randrange(lo, hi)), "hyst": rng.random() < 0.5}
        trips = unique_kinds(trips)
        rng.shuffle(trips)
        return {"temp": num_file(rng, 0, 110000, p_junk=0.02), "typ": text_file(rng, 0.02, 0.02), "trips": trips}
    if fam == "multi_trip":
        trips = [{"typ": hx(b"critical\n"), "temp": good_int(rng.randrange(90000, 120000)), "hyst": False},
                 {"typ": hx(b"high\n"), "temp": good_int(rng.randrange(70000, 90000)), "hyst": False}] + trips[:3]
        rng.shuffle(trips)
    if fam != "dup_kinds":
        trips = unique_kinds(trips)
    z = {"temp": num_file(rng, 0, 110000, p_junk=0.05), "typ": text_file(rng, 0.05, 0.05),
         "trips": assign_trip_names(rng, trips, {"wide_index": "wide", "zone_extra": "kernel"}.get(fam))}
    if fam == "zone_extra":
        z["extra"] = [[n, rng.choice([hx(b"enabled\n"), hx(b"0\n"), hx(b"critical\n"), False])]
                      for n in rng.sample(ZONE_OTHER_FILES, rng.randrange(1, 6))]
        if rng.random() < 0.3:
            z["extra"] += [[n, rng.choice([hx(b"critical\n"), hx(b"99000\n"), hx(b"high\n")])]
                           for n in rng.sample(ZONE_FOREIGN_TRIP_FILES, rng.randrange(1, 3))]
    return z


TEMP_FAMILIES = ["basic", "missing", "nonnumeric_thr", "zero_thr", "nested", "no_name", "all_absent",
                 "zones", "multi_trip", "single_trip", "dup_kinds", "no_sensors", "coretemp", "both",
                 "many_trips", "wide_index", "zone_extra", "big_index", "padded"]
ZONE_FAMILIES = ("zones", "multi_trip", "single_trip", "dup_kinds", "many_trips", "wide_index", "zone_extra")


def gen_temps(rng, fam):
    case = {"fn": "temps", "family": fam, "fahrenheit": rng.random() < 0.4, "chips": [], "coretemp": 0, "zones": []}
    if fam in ZONE_FAMILIES:
        case["zones"] = [gen_zone(rng, fam) for _ in range(rng.randrange(1, 4) if fam != "many_trips" else 1)]
        if rng.random() < 0.3:                    # chips that list nothing must not stop the fallback
            case["chips"] = [dict(gen_chip(rng, "all_absent"), temps=[gen_sensor(rng, "all_absent")])]
    elif fam == "no_sensors":
        case["chips"] = [gen_chip(rng, "all_absent") for _ in range(rng.randrange(0, 3))]
    elif fam == "coretemp":
        case["coretemp"] = rng.randrange(1, 4)
        case["zones"] = [gen_zone(rng, "zones")]
        if rng.random() < 0.5:
            case["chips"] = [gen_chip(rng, "basic")]
    elif fam == "both":
        case["chips"] = [gen_chip(rng, "basic") for _ in range(rng.randrange(1, 3))]
        case["zones"] = [gen_zone(rng, "zones")]
    else:
        nested = True if fam == "nested" else None
        case["chips"] = [gen_chip(rng, fam, nested) for _ in range(rng.randrange(1, 4))]
    return case


WS = [b" ", b"  ", b"\t", b"\n", b"\n\n", b" \n", b"\r\n", b" \t \n", b"\x0b", b"\x0c"]


def pad_file(rng, v):
    """the same content with blanks / newlines before and after (int(), float() and strip() must not see them)"""
    if not isinstance(v, str):
        return v
    b = bytes.fromhex(v).strip()
    pre = b"".join(rng.choice(WS) for _ in range(rng.randrange(0, 3)))
    post = b"".join(rng.choice(WS) for _ in range(rng.randrange(0, 4)))
    return hx(pre + b + post)


def big_indices(rng, n):
    """sensor / fan numbers with two and more digits (the kernel numbers them temp1 … tempN, no upper bound)"""
    return sorted(rng.sample([1, 2, 9, 10, 11, 12, 19, 20, 21, 99, 100, 101, 110, 255, 1000], n))


def gen_fans(rng, fam):
    chips = []
    for _ in range(rng.randrange(0, 4)):
        c = gen_chip(rng, "basic", nested={"direct": False, "nested": True}.get(fam))
        c["temps"] = []
        if fam == "fan_no_name" and rng.random() < 0.5:
            c["name"] = rng.choice([None, False])
        elif fam != "fan_no_name":
            c["name"] = hx(rng.choice(TEXTS))
        c["fans"] = [gen_fan(rng, fam) for _ in range(rng.randrange(0, 4))]
        if fam == "fan_padded":
            c["name"] = pad_file(rng, c["name"])
            c["fans"] = [dict(f, input=pad_file(rng, f["input"]), label=pad_file(rng, f["label"])) for f in c["fans"]]
        if fam == "fan_big_index":
            c["fans"] = [gen_fan(rng, fam) for _ in range(rng.randrange(2, 6))]
            c["fans"] = [dict(f, idx=i) for f, i in zip(c["fans"], big_indices(rng, len(c["fans"])))]
        chips.append(c)
    return {"fn": "fans", "family": fam, "chips": chips}


BAT_NAMES = [b"BAT0", b"BAT1", b"BAT2", b"BATC", b"battery", b"CMB0-battery", b"main-Battery", b"hidpp_battery_0",
             b"bq27000-BATTERY", b"BAT10", b"BATT", b"hidpp_battery_12", b"wacom_battery_0", b"sbs-4-000b-Battery",
             b"Battery", b"hid-0018:04F3:2D4A.0001-battery"]
OTHER_NAMES = [b"AC0", b"AC", b"ADP1", b"ucsi-source-psy", b"bat0", b"usb", b"CMB0", b"CMB1", b"Bat1", b"ACAD", b"bms",
               b"batt-ery", b"hidpp_batt_0"]
STATUS = [b"Discharging\n", b"Charging\n", b"Full\n", b"Unknown\n", b"Not charging\n", b"discharging", b" FULL \n", b""]


def gen_supply(rng, name, fam):
    def mv(lo, hi, p_abs):
        return num_file(rng, lo, hi, floaty=False, p_absent=p_abs, p_unread=0.04,
                        p_junk=0.02 if fam != "bat_junk" else 0.25)
    s = {"name": hx(name)}
    scheme = rng.choice(["energy", "charge", "both", "none", "mixed"])
    for base, alt, lo, hi in (("energy_now", "charge_now", 0, 60000000), ("power_now", "current_now", -100, 30000000),
                              ("energy_full", "charge_full", 0, 60000000)):
        if scheme in ("energy", "both"):
            s[base] = mv(lo, hi, 0.1)
        if scheme in ("charge", "both"):
            s[alt] = mv(lo, hi, 0.1)
        if scheme == "mixed":
            s[rng.choice([base, alt])] = mv(lo, hi, 0.2)
    if rng.random() < 0.25:
        s[rng.choice(["power_now", "current_now"])] = good_int(0)
    if rng.random() < 0.15:
        s[rng.choice(["energy_full", "charge_full"])] = good_int(0)
    if rng.random() < 0.4:
        s["time_to_empty_now"] = mv(-5, 600, 0.1)
    if rng.random() < 0.7:
        s["capacity"] = rng.choice([good_int(rng.randrange(0, 101)), good_int(-1), mv(0, 101, 0.1)])
    if rng.random() < 0.8:
        s["status"] = rng.choice([hx(rng.choice(STATUS)), False])
    if rng.random() < 0.3:
        s["online"] = good_int(rng.choice([0, 1]))
    return s


def gen_battery(rng, fam):
    case = {"fn": "battery", "family": fam, "dir": True, "supplies": []}
    if fam == "no_dir":
        case["dir"] = False
        return case
    names = []
    if fam == "names":
        # the selection rule: BAT* / *battery* (any case) — and look-alikes that must NOT be taken
        names += rng.sample(BAT_NAMES, rng.randrange(0, 5))
        names += rng.sample(OTHER_NAMES, rng.randrange(1, 6))
    else:
        if fam != "no_battery":
            names += rng.sample(BAT_NAMES, rng.randrange(1, 4))
        names += rng.sample(OTHER_NAMES, rng.randrange(0, 4))
    rng.shuffle(names)
    for n in names:
        s = gen_supply(rng, n, fam if fam not in ("names", "bat_padded", "negative", "tte") else "normal")
        if n in (b"AC0", b"AC", b"ADP1"):
            s["online"] = rng.choice([good_int(0), good_int(1), good_int(1), None, False, hx(b"yes\n"), good_int(2)])
        if fam == "names":
            # every candidate answers differently, so that picking another one shows
            s["capacity"] = good_int(rng.randrange(0, 101))
            for k in ("energy_now", "charge_now", "energy_full", "charge_full"):
                s.pop(k, None)
            # files psutil must not look at: the power_supply class `type` and `scope` (Device = HID peripheral)
            s["type"] = hx(rng.choice([b"Battery\n", b"Mains\n", b"USB\n", b"UPS\n"]))
            if rng.random() < 0.5:
                s["scope"] = hx(rng.choice([b"Device\n", b"System\n", b"Unknown\n"]))
        if fam == "negative":
            # Documentation/ABI/testing/sysfs-class-power: current_now is negative while discharging on some drivers
            k = rng.choice(["power_now", "current_now"])
            s[k] = good_int(-rng.choice([1, 3600, 7200, 1000000, rng.randrange(1, 30000000)]))
            s[rng.choice(["energy_now", "charge_now"])] = good_int(rng.choice([0, 1, 2, 3600, rng.randrange(0, 60000000)]))
            if rng.random() < 0.3:
                s["time_to_empty_now"] = good_int(-rng.randrange(1, 500))
            if rng.random() < 0.2:
                s[rng.choice(["energy_full", "charge_full"])] = good_int(-rng.randrange(1, 60000000))
        if fam == "tte":
            # only `time_to_empty_now` can answer: boundary values of minutes (0 is a valid answer: 0 seconds, not UNKNOWN)
            for k in ("energy_now", "charge_now") if rng.random() < 0.5 else ("power_now", "current_now"):
                s.pop(k, None)
            s["time_to_empty_now"] = good_int(rng.choice([0, 0, 1, -1, -5, 2, 90, 600]))
            s["capacity"] = good_int(rng.randrange(0, 101))
            s["status"] = rng.choice([hx(b"Discharging\n"), hx(b"Unknown\n"), None])
            s.pop("online", None)
        if fam == "bat_padded":
            s = {k: (pad_file(rng, v) if k != "name" else v) for k, v in s.items()}
        case["supplies"].append(s)
    return case


def gen_blocks(rng, n):
    pkgs = rng.randrange(1, 3)
    cores = rng.randrange(1, 9)
    return [{"processor": i, "mhz_int": rng.choice([800, 2400, 3600, rng.randrange(400, 5000)]),
             "mhz_milli": rng.choice([0, 0, 5, 123, 999, rng.randrange(0, 1000)]),
             "physical_id": i % pkgs if rng.random() < 0.9 else rng.randrange(0, 3), "cores": cores} for i in range(n)]


MALFORMED_CPUINFO = [b"cpu MHz\t\t 2400.000\n", b"cpu MHz\t\t: fast\n", b"processor\t: 0\ncpu MHz\t\t: 1.5\n",
                     b"physical id\t 0\n\n", b"physical id\t: zero\n\n", b"cpu cores\t: 4\n\n",
                     b"physical id\t: 0\ncpu cores\t: 4\n", b"Processor : ARMv7\nprocessor : 0\nprocessor : 1\n",
                     b"CPU MHZ : 100\ncpu mhz: 200.5\n", b"physical id\t: 0\ncpu cores\t: 2\n\nphysical id\t: 0\ncpu cores\t: 3\n\n",
                     b"physical id\t: 1\ncpu cores\t: -2\n\n", b""]


def gen_cpuinfo(rng, n=None, allow_raw=True):
    r = rng.random()
    if allow_raw and r < 0.12:
        return rng.choice([None, False, hx(rng.choice(MALFORMED_CPUINFO))])
    if n is None:
        n = rng.randrange(0, 6)
    return {"blocks": gen_blocks(rng, n)}


def gen_policy(rng, n, fam):
    def kh(p_abs):
        return num_file(rng, 400000, 5000000, floaty=False, p_absent=p_abs, p_unread=0.03,
                        p_junk=0.02 if fam != "freq_junk" else 0.2)
    p = {"n": n, "scaling_cur_freq": kh(0.15), "cpuinfo_cur_freq": kh(0.5),
         "scaling_max_freq": kh(0.03), "scaling_min_freq": kh(0.03)}
    if fam == "offline" and rng.random() < 0.5:
        p["scaling_cur_freq"] = None
        p["cpuinfo_cur_freq"] = None
    return p


def gen_cpufreq(rng, fam):
    n = rng.randrange(0, 5)
    case = {"fn": "cpufreq", "family": fam, "variant": fam != "cpuinfo_variant", "percpu": rng.random() < 0.5,
            "policies": [], "percpu_dirs": [], "online": []}
    nums = list(range(n))
    if fam == "gaps" and n:
        nums = sorted(rng.sample(range(0, 12), n))
    pols = [gen_policy(rng, k, fam) for k in nums]
    rng.shuffle(pols)
    if fam == "percpu_dirs":
        case["percpu_dirs"] = pols
    elif fam == "both_dirs":
        case["policies"] = pols
        case["percpu_dirs"] = [gen_policy(rng, k, fam) for k in range(rng.randrange(0, 3))]
    else:
        case["policies"] = pols
    if fam in ("info_match",):
        case["cpuinfo"] = gen_cpuinfo(rng, n, allow_raw=False)
    elif fam == "cpuinfo_variant":
        case["cpuinfo"] = gen_cpuinfo(rng)
    else:
        case["cpuinfo"] = gen_cpuinfo(rng, rng.choice([0, n, n + 1, rng.randrange(0, 6)]))
    for i in range(max(nums) + 1 if nums else 0):
        if rng.random() < 0.5:
            case["online"].append([i, rng.choice([hx(b"0\n"), hx(b"1\n"), hx(b"0"), None, False])])
    return case


def gen_stat(rng, ncpu=None, allow_raw=True):
    if allow_raw and rng.random() < 0.15:
        return rng.choice([None, False, hx(b""), hx(b"cpu  1 2 3\n"), hx(b"ctxt\nintr 5\nsoftirq 7\n"),
                           hx(b"ctxt many\n"), hx(b"btime\n"), hx(b"btime soon\n"), hx(b"intr 5 1\nctxt 9\n"),
                           hx(b"cpu  1 2\ncpu0 1 2\ncpux 3\ncpu1\n cpu2 4\n"), hx(b"softirq 3\nctxt 4\nintr 5\nbtime 6\n"),
                           hx(b"btime 12.5\nbtime 13\n")])
    if ncpu is None:
        ncpu = rng.randrange(0, 5)
    big = rng.choice([10, 10**6, 2**32, 2**64])
    return {"rec": {"cpu_total": [rng.randrange(big) for _ in range(10)],
                    "cpus": [[rng.randrange(big) for _ in range(10)] for _ in range(ncpu)],
                    "intr": rng.randrange(big), "intr_rest": [rng.randrange(100) for _ in range(rng.randrange(0, 5))],
                    "ctxt": rng.randrange(big), "btime": rng.randrange(0, 2**31), "processes": rng.randrange(big),
                    "softirq": rng.randrange(big), "softirq_rest": [rng.randrange(100) for _ in range(rng.randrange(0, 5))]}}


def gen_core_of(rng, n=None):
    """assignment of n logical CPUs to cores (the way real machines number them, and arbitrary ones)"""
    if n is None:
        n = rng.choice([1, 2, 4, 8, 12, rng.randrange(1, 33), rng.randrange(1, 65)])
    style = rng.choice(["no_smt", "smt_adjacent", "smt_split", "smt4", "hybrid", "random", "one_core"])
    if style == "no_smt":
        return list(range(n))
    if style == "smt_adjacent":                      # cpu0,cpu1 → core 0; cpu2,cpu3 → core 1 …   "0-1"
        return [i // 2 for i in range(n)]
    if style == "smt_split":                         # cpu i and cpu i + n/2 share a core            "0,4"
        h = max(1, n // 2)
        return [i % h for i in range(n)]
    if style == "smt4":
        return [i // 4 for i in range(n)]
    if style == "hybrid":                            # P-cores with 2 threads, then E-cores with 1
        k = rng.randrange(0, n + 1)
        return [i // 2 for i in range(k)] + [1000 + i for i in range(n - k)]
    if style == "one_core":
        return [7] * n
    m = rng.randrange(1, n + 1)
    return [rng.randrange(m) for _ in range(n)]


def gen_packages(rng):
    """kernel-format cpuinfo of a multi-package machine: every block of package p shows `cpu cores : c[p]`
    (now and then one block disagrees: the last block of the package is the one that counts)"""
    npk = rng.randrange(1, 5)
    ids = rng.sample(range(0, 9), npk)
    blocks = []
    for pid in ids:
        c = rng.choice([1, 2, 4, 6, 8, 16, rng.randrange(1, 65)])
        for _ in range(rng.choice([1, 1, 2, 2, c if c <= 6 else 3])):
            blocks.append({"physical_id": pid, "cores": c})
    if rng.random() < 0.5:
        rng.shuffle(blocks)                          # interleaved packages
    if blocks and rng.random() < 0.15:
        blocks[rng.randrange(len(blocks))]["cores"] = rng.randrange(0, 9)
    return {"blocks": [dict(b, processor=i, mhz_int=rng.choice([800, 2400, 3600]), mhz_milli=rng.choice([0, 5, 999]))
                       for i, b in enumerate(blocks)]}


def gen_cpucount(rng, fam):
    case = {"fn": "cpucount", "family": fam, "logical": fam in ("sysconf", "cpuinfo_procs", "stat_rows", "zero"),
            "sysconf": None, "cpuinfo": gen_cpuinfo(rng), "stat": gen_stat(rng), "core": [], "sib": []}
    if fam == "packages":
        case["cpuinfo"] = gen_packages(rng)
        if rng.random() < 0.2:
            # not kernel format (the specification is silent; model vs implementation only): sections that lack
            # one of the two fields, a last section without the closing blank line
            secs = []
            for b in case["cpuinfo"]["blocks"]:
                lines = [b"processor\t: %d" % b["processor"]]
                if rng.random() < 0.7:
                    lines.append(b"physical id\t: %d" % b["physical_id"])
                if rng.random() < 0.7:
                    lines.append(b"cpu cores\t: %d" % b["cores"])
                secs.append(b"\n".join(lines) + b"\n")
            raw = b"\n".join(secs) + (b"\n" if rng.random() < 0.7 else b"")
            case["cpuinfo"] = hx(raw)
        if rng.random() < 0.2:                       # a deprecated-name directory listing that is empty: still fallback
            case["sib"] = []
    elif fam == "kernel_topology":
        core_of = gen_core_of(rng)
        where = rng.choice(["core", "sib", "both"])
        if where == "core":
            case["core"] = {"core_of": core_of}
        elif where == "sib":
            case["sib"] = {"core_of": core_of}
        else:                                        # both names present: the new one is the one consulted
            case["core"] = {"core_of": core_of}
            case["sib"] = {"core_of": gen_core_of(rng, len(core_of))}
        case["cpuinfo"] = gen_packages(rng)          # must be ignored
        return case
    if fam == "sysconf":
        case["sysconf"] = rng.choice([1, 2, 16, 0, -1, rng.randrange(1, 300)])
    elif fam == "stat_rows":
        case["cpuinfo"] = rng.choice([{"blocks": []}, hx(b"model name : x\n")])
    elif fam == "zero":
        case["cpuinfo"] = {"blocks": []}
        case["stat"] = rng.choice([{"rec": dict(gen_stat(rng, 0, False)["rec"])}, hx(b"cpu  1 2 3\n")])
    elif fam == "topology":
        lists = [b"0-1\n", b"2-3\n", b"0,4\n", b"1\n", b"0-1", b" 2-3 \n", b"", b"\n", b"0-1\n\n", b"0-3,8-11\n", b"0,1\n"]
        key = rng.choice(["core", "sib", "both"])
        n = rng.randrange(1, 9)
        if key in ("core", "both"):
            case["core"] = [rng.choice([hx(rng.choice(lists))] * 9 + [False]) for _ in range(n)]
        if key in ("sib", "both"):
            case["sib"] = [rng.choice([hx(rng.choice(lists))] * 12 + [False]) for _ in range(rng.randrange(1, 9))]
    return case


def gen_stats(rng, fn):
    return {"fn": fn, "family": fn, "stat": gen_stat(rng)}


def gen_boottime_seq(rng):
    """a history of 2-4 boot_time() calls on DIFFERENT /proc/stat files (the clock was stepped in between: btime moves),
    run back to back without resetting psutil's module global: a cached answer would show"""
    k = rng.randrange(2, 5)
    stats = [gen_stat(rng, rng.randrange(0, 3), allow_raw=rng.random() < 0.5) for _ in range(k)]
    return {"fn": "boottime_seq", "family": "boottime_seq", "stats": stats}


# ---- seeded round 5: histories of boot_time() / Process.create_time() / cpu_stats() while the kernel's btime moves

BOOT_BASES = [3, 4, 1000, 86400, 1700000000, 1700000000, 2**31 - 3, 2**32 + 5]
SMALL_DELTAS = [0, 1, -1, 2, -2, 1, -1, 3, -3]
BIG_DELTAS = [3600, -3600, 86400, -86400, 10**6, 37, -59]
BOOTHIST_SUBS = ("small_steps", "cacher_then_read", "drift", "big_jumps", "failing_first", "random")
RAW_NO_BTIME = [hx(b"cpu  1 2 3\n"), hx(b""), hx(b"btime\n"), hx(b"btime soon\n"), None, False]


def hist_rec(rng, btime, rich=False):
    """a kernel record for /proc/stat with the given btime (small numbers: the text is parsed by the Lean interpreter)"""
    if not rich:
        return {"rec": {"cpu_total": [1, 2, 3], "cpus": [], "intr": 5, "intr_rest": [], "ctxt": 7, "btime": btime,
                        "processes": 3, "softirq": 9, "softirq_rest": []}}
    return {"rec": {"cpu_total": [rng.randrange(10**6) for _ in range(10)],
                    "cpus": [[rng.randrange(10**6) for _ in range(10)] for _ in range(rng.randrange(0, 3))],
                    "intr": rng.randrange(2**32), "intr_rest": [rng.randrange(100) for _ in range(rng.randrange(0, 4))],
                    "ctxt": rng.randrange(2**32), "btime": btime, "processes": rng.randrange(10**6),
                    "softirq": rng.randrange(2**32), "softirq_rest": [rng.randrange(100) for _ in range(rng.randrange(0, 4))]}}


def hist_call(rng, weights=(6, 3, 1)):
    c = rng.choices(["boot_time", "create_time", "cpu_stats"], weights=weights)[0]
    st = {"call": c}
    if c == "create_time":
        st["mode"] = rng.choice(["plat", "front"])
        st["start"] = rng.choice([0, 1, 250, 123456, rng.randrange(0, 10**9)])
    return st


def gen_boothist(rng, sub=None):
    """one interpreter, module state fresh; btime moves between the calls by deltas drawn per sub-family:
    small_steps (0, +-1, +-2, +-3 per step), cacher_then_read (boot_time() or create_time() — platform object or a new
    psutil.Process — makes psutil remember the boot time, then small steps and boot_time() again), drift (+-1 per step
    in one direction, so that the distance to the FIRST value grows past any tolerance while consecutive values stay
    close), big_jumps (hours/days mixed with +-1), failing_first (the first calls fail: no btime line / unreadable file —
    nothing is remembered yet), random (anything, raw files included)"""
    sub = sub or rng.choice(BOOTHIST_SUBS)
    base = rng.choice(BOOT_BASES + [rng.randrange(3, 2**31)])
    rich = rng.random() < 0.25
    steps = []

    def add(btime, call=None, stat=None):
        st = dict(call or hist_call(rng))
        st["stat"] = stat if stat is not None or btime is None else hist_rec(rng, max(0, btime), rich)
        steps.append(st)
    cur = base
    if sub == "small_steps":
        for _ in range(rng.randrange(2, 7)):
            add(cur)
            cur += rng.choice(SMALL_DELTAS)
    elif sub == "cacher_then_read":
        first = rng.choice([{"call": "boot_time"}, {"call": "create_time", "mode": "plat", "start": rng.randrange(0, 10**6)},
                            {"call": "create_time", "mode": "front", "start": rng.randrange(0, 10**6)}])
        add(cur, first)
        for _ in range(rng.randrange(1, 4)):
            cur += rng.choice([1, -1, 1, -1, 2, -2, 0])
            add(cur, {"call": "boot_time"} if rng.random() < 0.8 else None)
    elif sub == "drift":
        d = rng.choice([1, -1])
        for i in range(rng.randrange(3, 7)):
            add(cur, {"call": "boot_time"} if i == 0 or rng.random() < 0.7 else None)
            cur += d
        cur -= 2 * d                                     # and one step back: close to the previous, far from the first
        add(cur, {"call": "boot_time"})
    elif sub == "big_jumps":
        for _ in range(rng.randrange(2, 6)):
            add(cur)
            cur += rng.choice(BIG_DELTAS + [1, -1])
    elif sub == "failing_first":
        for _ in range(rng.randrange(1, 3)):
            st = hist_call(rng, (8, 2, 2))
            raw = rng.choice(RAW_NO_BTIME)
            if st["call"] == "create_time" and not isinstance(raw, str):
                raw = RAW_NO_BTIME[0]                    # create_time steps keep a readable file (wrap_exceptions is C01's)
            st["stat"] = raw
            steps.append(st)
        for _ in range(rng.randrange(2, 5)):
            add(cur)
            cur += rng.choice([1, -1, 0, 2])
    else:
        for _ in range(rng.randrange(1, 8)):
            if rng.random() < 0.15:
                st = hist_call(rng)
                raw = gen_stat(rng, 0, allow_raw=True)
                if st["call"] == "create_time" and not isinstance(raw, (str, dict)):
                    raw = RAW_NO_BTIME[0]
                st["stat"] = raw
                steps.append(st)
            else:
                add(cur)
            cur = rng.choice([cur + rng.choice(SMALL_DELTAS), cur + rng.choice(BIG_DELTAS), rng.randrange(0, 2**31)])
    case = {"fn": "boothist", "family": "boot_hist_" + sub, "steps": steps}
    if rng.random() < 0.2 and any(st["stat"] is False for st in steps):
        case["unread"] = rng.choice(c19_redirect.UNREAD_MODES[1:])
    return case


def exhaustive_boothist(radius, base=1700000000):
    """every 3-step history: who makes psutil remember the boot time (boot_time(), create_time() on a platform object,
    a new psutil.Process) x btime of step 2 and of step 3 within `radius` seconds of the first x the call made at
    step 2 and at step 3 (boot_time() or create_time())"""
    firsts = [{"call": "boot_time"}, {"call": "create_time", "mode": "plat", "start": 250},
              {"call": "create_time", "mode": "front", "start": 250}]
    later = [{"call": "boot_time"}, {"call": "create_time", "mode": "plat", "start": 777}]
    rng = None
    for f in firsts:
        for d1 in range(-radius, radius + 1):
            for d2 in range(-radius, radius + 1):
                for c2 in later:
                    for c3 in later:
                        steps = [dict(f, stat=hist_rec(rng, base)), dict(c2, stat=hist_rec(rng, base + d1)),
                                 dict(c3, stat=hist_rec(rng, base + d2))]
                        yield {"fn": "boothist", "family": "exhaustive_boot_hist", "steps": steps}


# how an 'unreadable' file fails (one mode per case, c19_redirect.UNREAD_MODES): at open() with EACCES / ENXIO, or at
# read() with EIO / ENODATA / ENODEV (the open succeeds) — the model knows ONE unreadable state (fact: _common.cat
# catches OSError around open AND read; the walkers catch OSError), so all five must behave alike
def with_unread_mode(rng, case, p=0.5):
    if rng.random() < p:
        case["unread"] = rng.choice(c19_redirect.UNREAD_MODES[1:])
    return case


def force_unreadable(rng, case):
    """family `read_fails`: make sure some consulted OPTIONAL file is unreadable (label / threshold / trip file / battery
    alternative / policy file), then fail it at read() time"""
    fn = case["fn"]
    if fn == "temps":
        for c in case["chips"]:
            for s_ in c["temps"]:
                for k in ("label", "max", "crit", "input"):
                    if rng.random() < 0.35:
                        s_[k] = False
        for z in case["zones"]:
            if rng.random() < 0.3:
                z["typ"] = False
            for t in z["trips"]:
                if rng.random() < 0.4:
                    t[rng.choice(["typ", "temp"])] = False
    elif fn == "fans":
        for c in case["chips"]:
            for f in c["fans"]:
                if rng.random() < 0.5:
                    f[rng.choice(["label", "input"])] = False
    elif fn == "battery":
        for s_ in case["supplies"]:
            for k in ("energy_now", "power_now", "energy_full", "time_to_empty_now", "capacity", "status", "online"):
                if rng.random() < 0.3:
                    s_[k] = False
    elif fn == "cpufreq":
        for p_ in case["policies"] + case["percpu_dirs"]:
            for k in ("scaling_cur_freq", "cpuinfo_cur_freq"):
                if rng.random() < 0.3:
                    p_[k] = False
        case["online"] = [[i, (False if rng.random() < 0.3 else f)] for i, f in case["online"]]
    case["unread"] = rng.choice(c19_redirect.UNREAD_MODES[2:])
    case["family"] = "read_fails"
    return case


DIR_NUMBERS = [0, 1, 2, 9, 10, 11, 12, 19, 20, 99, 100, 101, 255, 1000]


def with_dir_numbers(rng, case):
    """family `dir_index`: hwmonN / thermal_zoneN directories with two- and more-digit N (servers have hwmon10+;
    the kernel numbers them without bound). At least one number ≥ 10."""
    for key in ("chips", "zones"):
        n = len(case.get(key, []))
        if n:
            nums = rng.sample(DIR_NUMBERS, n)
            if all(x < 10 for x in nums):
                nums[0] = rng.choice([10, 11, 100])
            for e, x in zip(case[key], nums):
                e["dirn"] = x
    case["family"] = "dir_index"
    return case


# ------------------------------------------------------------------------------ case → driver line


def zone_files(z):
    """the listing of the zone directory as c19_redirect.build_temps writes it: [[name (hex), state], …]"""
    files = []
    for name, key in (("temp", "temp"), ("type", "typ")):
        if z.get(key) is not None:
            files.append([hx(name.encode()), z[key]])
    for t in z.get("trips", []):
        for suf, v in (("type", t.get("typ")), ("temp", t.get("temp")), ("hyst", hx(b"0\n") if t.get("hyst") else None)):
            if v is not None:
                files.append([hx(("trip_point_%d_%s" % (t["k"], suf)).encode()), v])
    for name, v in z.get("extra", []):
        if v is not None:
            files.append([hx(name.encode()), v])
    return files


def chip_files(c):
    """the listing of one hwmon directory as c19_redirect.build_hwmon writes it"""
    files = []
    if c.get("name") is not None:
        files.append([hx(b"name"), c["name"]])
    for kind, key, attrs, other in (("temp", "temps", ("input", "label", "max", "crit"), "alarm"),
                                    ("fan", "fans", ("input", "label"), "min")):
        for j, s in enumerate(c.get(key, []), 1):
            j = s.get("idx", j)
            for k in attrs:
                if s.get(k) is not None:
                    files.append([hx(("%s%d_%s" % (kind, j, k)).encode()), s[k]])
            if s.get("other"):
                files.append([hx(("%s%d_%s" % (kind, j, other)).encode()), hx(b"0\n")])
    return files


def driver_chips(chips):
    """chips at file-name level: the model derives the sensor / fan bases from the names (`x.split('_')[0]`)"""
    return [{"nested": bool(c.get("nested")), "files": chip_files(c)} for c in chips]


def driver_line(case, orders=None, io=None):
    fn = case["fn"]
    if fn == "boothist":
        return {"op": "boothist", "ticks": (io or {}).get("ticks", 100),
                "steps": [{"stat": st["stat"], "call": st["call"], "start": st.get("start", 0)} for st in case["steps"]]}
    if fn == "temps":
        zones = []
        for z, o in zip(case["zones"], orders):
            # file-name level: the listing of the directory + the iteration order of the set of derived names
            # (observed in the interpreter that runs psutil); the model derives the names itself and refuses an
            # `order` that is not an iteration order of that set
            zones.append({"files": zone_files(z), "order": [hx(n.encode()) for n in o]})
        return {"op": "temps", "fahrenheit": case["fahrenheit"], "chips": driver_chips(case["chips"]),
                "coretemp": case.get("coretemp", 0), "zones": zones}
    if fn == "fans":
        return {"op": "fans", "chips": driver_chips(case["chips"])}
    if fn == "battery":
        return {"op": "battery", "dir": case["dir"], "supplies": case["supplies"]}
    if fn == "cpufreq":
        return {"op": "cpufreq", "variant": case["variant"], "percpu": case["percpu"], "cpuinfo": case["cpuinfo"],
                "policies": case["policies"], "percpu_dirs": case["percpu_dirs"], "online": case["online"]}
    if fn == "cpucount":
        return {"op": "cpucount", "logical": case["logical"], "sysconf": case["sysconf"], "cpuinfo": case["cpuinfo"],
                "stat": case["stat"], "core": case["core"], "sib": case["sib"]}
    if fn in ("cpustats", "boottime"):
        return {"op": fn, "stat": case["stat"]}
    if fn == "boottime_seq":
        return {"op": fn, "stats": case["stats"]}
    raise ValueError(fn)


def render_requests(case):
    """(key, driver line) for every structured text file of the case"""
    out = []
    ci = case.get("cpuinfo")
    if isinstance(ci, dict):
        out.append(("cpuinfo", {"op": "render", "what": "cpuinfo", "blocks": ci["blocks"]}))
    st = case.get("stat")
    if isinstance(st, dict):
        out.append(("stat", {"op": "render", "what": "stat", "rec": st["rec"]}))
    for key in ("core", "sib"):
        if isinstance(case.get(key), dict):
            out.append((key, {"op": "render", "what": "topology", "files": case[key]}))
    for i, st in enumerate(case.get("stats", [])):
        if isinstance(st, dict):
            out.append(("stats%d" % i, {"op": "render", "what": "stat", "rec": st["rec"]}))
    for i, st in enumerate(case.get("steps", [])):
        if isinstance(st.get("stat"), dict):
            out.append(("hstat%d" % i, {"op": "render", "what": "stat", "rec": st["stat"]["rec"]}))
    return out


# ------------------------------------------------------------------------------ execution


class Runner:
    def __init__(self, ctx):
        self.ctx = ctx
        self.impl = c19_redirect.Impl(ctx.psutil)
        self.driver_lines = 0
        self.render_cache = {}

    def close(self):
        self.impl.close()

    def render_all(self, cases):
        reqs = []
        for i, c in enumerate(cases):
            for key, line in render_requests(c):
                reqs.append((i, key, line))
        rendered = [dict() for _ in cases]
        if reqs:
            # identical requests (the histories of one sweep share a handful of records) are rendered once
            keys = [json.dumps(r[2], sort_keys=True) for r in reqs]
            todo = {}
            for k, r in zip(keys, reqs):
                if k not in self.render_cache and k not in todo:
                    todo[k] = r[2]
            if todo:
                outs = self.ctx.driver().batch(list(todo.values()))
                self.driver_lines += len(todo)
                for k, o in zip(todo, outs):
                    if "ok" not in o:
                        raise RuntimeError("driver could not render %s: %s" % (k[:200], o))
                    self.render_cache[k] = o["ok"] if isinstance(o["ok"], list) else bytes.fromhex(o["ok"])
            for (i, key, _), k in zip(reqs, keys):
                rendered[i][key] = self.render_cache[k]
            if len(self.render_cache) > 20000:
                self.render_cache.clear()
        return rendered

    def file_bytes(self, case, key, rendered):
        v = case.get(key)
        if isinstance(v, dict):
            return rendered[key]
        return c19_redirect.fs_of(v)

    def run_impl(self, case, rendered):
        fn = case["fn"]
        I = self.impl
        if fn == "temps":
            return I.run_temps(case)
        if fn == "fans":
            return I.run_fans(case)
        if fn == "battery":
            return I.run_battery(case)
        if fn == "cpufreq":
            return I.run_cpufreq(case, self.file_bytes(case, "cpuinfo", rendered))
        if fn == "cpucount":
            # kernel-format topology: the files are the bytes the Lean renderer (Spec.kernelTopology cpuList) printed
            c2 = dict(case, **{k: rendered[k] for k in ("core", "sib") if isinstance(case.get(k), dict)})
            return I.run_cpucount(c2, self.file_bytes(case, "cpuinfo", rendered), self.file_bytes(case, "stat", rendered))
        um = case.get("unread", "open_eacces")
        if fn == "cpustats":
            return I.run_cpustats(self.file_bytes(case, "stat", rendered), um)
        if fn == "boottime":
            return I.run_boottime(self.file_bytes(case, "stat", rendered), um)
        if fn == "boottime_seq":
            sts = [rendered["stats%d" % i] if isinstance(st, dict) else c19_redirect.fs_of(st)
                   for i, st in enumerate(case["stats"])]
            return I.run_boottime_seq(sts, um)
        if fn == "boothist":
            steps = [dict(st, stat=rendered["hstat%d" % i] if isinstance(st["stat"], dict) else c19_redirect.fs_of(st["stat"]))
                     for i, st in enumerate(case["steps"])]
            return I.run_boothist(steps, um)
        raise ValueError(fn)

    def run(self, cases, impl_outs=None):
        """→ list of (case, impl, model, spec). `impl_outs`: precomputed (subprocess) results."""
        rendered = self.render_all(cases)
        if impl_outs is None:
            impl_outs = [self.run_impl(c, r) for c, r in zip(cases, rendered)]
        lines = [driver_line(c, o.get("orders") if c["fn"] == "temps" else None, o) for c, o in zip(cases, impl_outs)]
        outs = self.ctx.driver().batch(lines) if lines else []
        self.driver_lines += len(lines)
        res = []
        for c, io, o in zip(cases, impl_outs, outs):
            if "bad" in o:
                raise RuntimeError("driver rejected %r: %s" % (c, o))
            mo = o["model"]
            if "secs_exact" in o:
                mo = dict(mo, secs_exact=o["secs_exact"])
            res.append((c, io, mo, o["spec"]))
        return res


def judge(case, impl, model, spec):
    """→ (agrees_with_spec, agrees_with_model, detail)"""
    fn = case["fn"]
    if fn == "temps":
        ok_s = ok_m = True
        for lvl in ("plat", "front"):
            ok_m &= res_match(impl[lvl], model[lvl], rows_match)
            ok_s &= res_match(impl[lvl], spec[lvl], rows_match)
        return ok_s, ok_m
    if fn == "boottime_seq":
        ok_m = len(impl["calls"]) == len(model["calls"]) and close(impl["global"], model["global"]) \
            and all(res_match(a, b, btime_eq) for a, b in zip(impl["calls"], model["calls"]))
        ok_s = len(impl["calls"]) == len(spec["calls"]) \
            and all(res_match(a, b, btime_eq) for a, b in zip(impl["calls"], spec["calls"]))
        return ok_s, ok_m
    if fn == "boothist":
        def step_eq(st):
            return plain_eq if st["call"] == "cpu_stats" else btime_eq
        n = len(case["steps"])
        ok_m = len(impl["outs"]) == n == len(model["outs"]) and close_ulp(impl["global"], model["global"]) \
            and all(res_match(a, b, step_eq(st)) for st, a, b in zip(case["steps"], impl["outs"], model["outs"]))
        ok_s = len(impl["outs"]) == n == len(spec["outs"]) \
            and all(res_match(a, b, step_eq(st)) for st, a, b in zip(case["steps"], impl["outs"], spec["outs"]))
        # Spec.StableCreate, checked on the implementation's own answers (no model involved): processes with the same
        # starttime get the same creation time throughout the history, whatever btime did in between
        seen = {}
        for st, a in zip(case["steps"], impl["outs"]):
            if st["call"] == "create_time" and a.get("kind") == "ok":
                v = a["value"]
                if not isinstance(v, (int, float)) or isinstance(v, bool) or v != v:
                    ok_s = False
                    continue
                w = seen.setdefault(st["start"], v)
                if abs(w - v) > max(1.0, abs(w)) * 2.0 ** -50:
                    ok_s = False
        return ok_s, ok_m
    eq = {"fans": fans_eq, "battery": None, "cpufreq": None, "cpucount": plain_eq, "cpustats": plain_eq,
          "boottime": btime_eq}[fn]
    if fn == "battery":
        near = False
        ex = model.get("secs_exact")
        if ex is not None:
            e = frac(ex)
            near = abs(e - round(e)) <= Fraction(1, 10**9) * max(1, abs(e))

        def eq(a, b):
            if a is not None and b is not None:
                b = dict(b, near_int=near)
            return bat_eq(a, b)
    if fn == "cpufreq":
        # cpuinfo-derived MHz go through int(float*1000)/1000 in the sysfs variant: 0.0011 absolute
        eq = freq_eq(0.0011 if case["variant"] else 0.0)
    return res_match(impl, spec, eq), res_match(impl, model, eq)


# ---- features (clause families) for the distribution / non-triviality rule


def fs_kind(j):
    if j is None:
        return "absent"
    if j is False:
        return "unreadable"
    return "content"


def temps_features(case, impl):
    f = set()
    sensors = [(c, s) for c in case["chips"] for s in c["temps"]]
    for c, s in sensors:
        if fs_kind(s["input"]) != "content":
            f.add("input_" + fs_kind(s["input"]))
        elif bytes.fromhex(s["input"]) in JUNK:
            f.add("input_nonnumeric")
        for k in ("max", "crit"):
            if isinstance(s.get(k), str) and bytes.fromhex(s[k]) in JUNK:
                f.add("threshold_nonnumeric")
            if isinstance(s.get(k), str) and bytes.fromhex(s[k]).strip() in (b"0", b"-0", b"0.0"):
                f.add("threshold_zero")
        if (s.get("max") is None) != (s.get("crit") is None):
            f.add("one_threshold_missing")
        if c["nested"]:
            f.add("nested")
        if fs_kind(c["name"]) != "content":
            f.add("chip_name_" + fs_kind(c["name"]))
    listed = any(s.get(k) is not None for _, s in sensors for k in ("input", "label", "max", "crit")) or \
        any(s.get("other") for _, s in sensors)
    for c, s in sensors:
        if s.get("idx", 0) >= 10:
            f.add("sensor_index_ge_10")
        if any(isinstance(s.get(k), str) and bytes.fromhex(s[k]) != bytes.fromhex(s[k]).strip() + b"\n"
               and bytes.fromhex(s[k]).strip() for k in ("input", "max", "crit")):
            f.add("number_padded")
    if not listed and not case.get("coretemp") and case["zones"]:
        f.add("zone_fallback")
        for z in case["zones"]:
            if len(z["trips"]) >= 2:
                f.add("zone_multi_trip")
            if len(z["trips"]) >= 11:
                f.add("zone_trips_ge_11")
            for t in z["trips"]:
                kind = bytes.fromhex(t["typ"]).strip() if isinstance(t["typ"], str) else b""
                if t["k"] >= 10:
                    f.add("zone_trip_index_ge_10")
                    if kind in (b"critical", b"high"):
                        f.add("zone_threshold_at_index_ge_10")
                if t["k"] >= 100:
                    f.add("zone_trip_index_3plus_digits")
            if z.get("extra"):
                f.add("zone_other_files")
                if any(n.startswith("trip_point") for n, _ in z["extra"]):
                    f.add("zone_foreign_trip_point_name")
            kinds = [bytes.fromhex(t["typ"]).strip() for t in z["trips"] if isinstance(t["typ"], str)]
            if kinds.count(b"critical") > 1 or kinds.count(b"high") > 1:
                f.add("zone_dup_kind")
            if b"critical" in kinds or b"high" in kinds:
                f.add("zone_has_threshold")
    if listed and case["zones"]:
        f.add("zones_ignored")
    if case.get("coretemp"):
        f.add("coretemp")
    if any(c.get("dirn", 0) >= 10 for c in case["chips"]):
        f.add("hwmon_dir_index_ge_10")
    if any(z.get("dirn", 0) >= 10 for z in case["zones"]):
        f.add("thermal_zone_dir_index_ge_10")
    _unread_features(case, f)
    if case["fahrenheit"]:
        f.add("fahrenheit")
    if impl.get("plat", {}).get("kind") == "ok" and not impl["plat"]["value"]:
        f.add("empty_result")
    if impl.get("plat", {}).get("kind") == "exc":
        f.add("exc_" + impl["plat"]["exc"])
    return f


def _has_unreadable(x):
    if x is False:
        return True
    if isinstance(x, dict):
        return any(_has_unreadable(v) for v in x.values())
    if isinstance(x, list):
        return any(_has_unreadable(v) for v in x)
    return False


def _unread_features(case, f):
    um = case.get("unread")
    if um and _has_unreadable({k: v for k, v in case.items() if k not in ("fahrenheit", "dir", "variant", "percpu", "logical")}):
        f.add("unreadable_fails_" + um)
        if um.startswith("read_"):
            f.add("unreadable_fails_at_read")


def generic_features(case, impl):
    f = {"family_" + case.get("family", "?")}
    _unread_features(case, f)
    if case["fn"] == "boottime_seq":
        vals = [c.get("value") for c in impl["calls"] if c.get("kind") == "ok"]
        if len(set(vals)) >= 2:
            f.add("btime_changed_between_calls")
        if any(c.get("kind") == "exc" for c in impl["calls"]):
            f.add("a_call_failed")
        return f
    if case["fn"] == "boothist":
        return f | boothist_features(case, impl)
    if case["fn"] == "fans" and any(c.get("dirn", 0) >= 10 for c in case.get("chips", [])):
        f.add("hwmon_dir_index_ge_10")
    if impl.get("kind") == "exc":
        f.add("exc_" + impl["exc"])
    elif impl.get("value") is None:
        f.add("result_None")
    fn = case["fn"]
    if fn == "battery" and impl.get("kind") == "ok" and impl["value"]:
        v = impl["value"]
        f.add("secs_" + ({-1: "unknown", -2: "unlimited"}.get(v["secsleft"], "number")))
        f.add("plugged_%s" % v["plugged"])
        if v["secsleft"] < -2:
            f.add("secs_negative")
        if v["secsleft"] == 0:
            f.add("secs_zero")
    if fn == "battery":
        names = [bytes.fromhex(s["name"]) for s in case.get("supplies", [])]
        bats = [n for n in names if n.startswith(b"BAT") or b"battery" in n.lower()]
        if len(bats) >= 2:
            f.add("several_batteries")
        if bats and not min(bats).startswith(b"BAT"):
            f.add("selected_by_infix_battery")
        if bats and b"hid" in min(bats):
            f.add("selected_hid_device_battery")
        if names and not bats:
            f.add("only_non_battery_supplies")
        if any(n in (b"CMB0", b"CMB1", b"bat0", b"Bat1", b"hidpp_batt_0", b"batt-ery") for n in names):
            f.add("lookalike_name_present")
        for s in case.get("supplies", []):
            for k in ("power_now", "current_now"):
                if isinstance(s.get(k), str) and bytes.fromhex(s[k]).strip().startswith(b"-"):
                    f.add("negative_power_figure")
            if any(isinstance(v, str) and k not in ("name", "status", "type", "scope") and bytes.fromhex(v).strip()
                   and bytes.fromhex(v) != bytes.fromhex(v).strip() + b"\n" for k, v in s.items()):
                f.add("number_padded")
            if "scope" in s or "type" in s:
                f.add("type_or_scope_file_present")
    if fn == "fans":
        for c in case.get("chips", []):
            for fan in c.get("fans", []):
                if fan.get("idx", 0) >= 10:
                    f.add("fan_index_ge_10")
                if isinstance(fan.get("input"), str) and bytes.fromhex(fan["input"]).strip() \
                        and bytes.fromhex(fan["input"]) != bytes.fromhex(fan["input"]).strip() + b"\n":
                    f.add("number_padded")
    if fn == "cpufreq":
        f.add("variant_sysfs" if case["variant"] else "variant_cpuinfo")
        f.add("percpu" if case["percpu"] else "mean")
    if fn == "cpucount":
        f.add("logical" if case["logical"] else "cores")
        if not case["logical"]:
            core, sib = case.get("core"), case.get("sib")
            src = "core_cpus_list" if core else ("thread_siblings_list" if sib else "cpuinfo_packages")
            f.add("cores_source_" + src)
            used = core if core else sib
            if isinstance(used, dict):
                f.add("cores_kernel_cpulist")
                if len(set(used["core_of"])) < len(used["core_of"]):
                    f.add("cores_smt_siblings")
            if core and sib:
                f.add("cores_both_names")
            if src == "cpuinfo_packages" and isinstance(case.get("cpuinfo"), dict):
                ids = [b["physical_id"] for b in case["cpuinfo"]["blocks"]]
                if len(set(ids)) > 1:
                    f.add("cores_multi_package")
    return f


def _step_btime(st):
    """the btime the kernel shows at this step (None: no such line / unreadable / raw text)"""
    v = st.get("stat")
    return v["rec"]["btime"] if isinstance(v, dict) else None


def boothist_features(case, impl):
    """clause features of a history: who made psutil remember the boot time, how far btime is from the remembered value
    when boot_time() is called again, consecutive steps of exactly one second, drift"""
    f = set()
    remembered = None
    prev = None
    for st, out in zip(case["steps"], impl["outs"]):
        b = _step_btime(st)
        ok = out.get("kind") == "ok"
        if not ok:
            f.add("a_call_failed")
            if remembered is None:
                f.add("call_failed_before_anything_remembered")
        if st["call"] == "create_time":
            f.add("create_time_" + st.get("mode", "plat"))
        if st["call"] == "cpu_stats":
            f.add("cpu_stats_interleaved")
        if b is not None and prev is not None and abs(b - prev) == 1:
            f.add("btime_step_of_one_second")
        if b is not None and prev is not None and abs(b - prev) >= 3600:
            f.add("btime_step_of_an_hour_or_more")
        if st["call"] == "boot_time" and b is not None and remembered is not None:
            d = abs(b - remembered)
            f.add("boot_time_reread_%s_from_remembered" % ("same" if d == 0 else "1s" if d == 1 else "2s" if d == 2 else "far"))
            if prev is not None and abs(b - prev) <= 1 and d >= 2:
                f.add("boot_time_reread_close_to_previous_far_from_first")
        if st["call"] in ("boot_time", "create_time") and ok and remembered is None and b is not None:
            remembered = b
            f.add("remembered_by_" + st["call"] + ("_" + st.get("mode", "plat") if st["call"] == "create_time" else ""))
        if b is not None:
            prev = b
            if b == 0:
                f.add("btime_zero")
            if b >= 2**31:
                f.add("btime_beyond_2038")
    return f


def in_L16_region(case):
    """thermal-zone fallback active and some zone lists ≥ 2 trip points"""
    if case["fn"] != "temps" or case.get("coretemp"):
        return False
    for c in case["chips"]:
        for s in c["temps"]:
            if any(s.get(k) is not None for k in ("input", "label", "max", "crit")) or s.get("other"):
                return False
    return any(len(z["trips"]) >= 2 for z in case["zones"])


FINDING_NO_DIR = "C19-battery-no-power-supply-dir"


def in_no_dir_region(case, impl, spec):
    """sensors_battery() with no /sys/class/power_supply at all: the statement (and Spec.battery) say None, the code as
    found lets os.listdir's FileNotFoundError out. Region = exactly that: directory absent, an OSError came out, the
    specification says `ok None`. Anything else on such a tree (another exception, a value) is NOT tolerated."""
    return (case["fn"] == "battery" and not case.get("dir", True) and impl.get("kind") == "exc"
            and impl.get("exc") == "OSError" and impl.get("cls") in ("FileNotFoundError", "NotADirectoryError")
            and spec == {"kind": "ok", "value": None})


def record(res, case, impl, model, spec, source):
    ok_s, ok_m = judge(case, impl, model, spec)
    feats = temps_features(case, impl) if case["fn"] == "temps" else generic_features(case, impl)
    res.count("fn:" + case["fn"])
    res.count("family:%s/%s" % (case["fn"], case.get("family", source)))
    for ft in feats:
        res.count("feature:%s/%s" % (case["fn"], ft))
    if spec is None or (case["fn"] != "temps" and spec is None):
        res.count("spec_silent:" + case["fn"])
    nontrivial = bool(feats - {"family_" + case.get("family", "?"), "percpu", "mean", "logical", "cores"})
    sample = None
    if len(res.samples) < 6 and res.evaluations % 37 == 5:
        sample = {"case": case, "impl": impl}
    res.case(case, nontrivial=nontrivial, sample=sample)
    inp = {"case": case, "source": source, "hashseed": case.get("hashseed", 0)}
    if not ok_s:
        fid = None
        if in_no_dir_region(case, impl, spec) and ok_m:
            fid = FINDING_NO_DIR
            res.known_seen[fid] = res.known_seen.get(fid, 0) + 1
        res.disagree("spec", inp, impl, model, spec, note="%s: implementation differs from the specification" % case["fn"],
                     finding=fid)
    elif not ok_m:
        res.disagree("model", inp, impl, model, spec, note="%s: implementation differs from the Lean model" % case["fn"])
    return ok_s, ok_m


# ------------------------------------------------------------------------------ exhaustive sub-domains


def exhaustive_zone_orders(maxlen):
    """every iteration ORDER (sequence) of up to `maxlen` trip points over a small alphabet, produced on
    purpose: the j-th trip of the sequence is given the name that this interpreter's set yields j-th."""
    alpha = [{"typ": hx(b"critical\n"), "temp": good_int(105000)}, {"typ": hx(b"high\n"), "temp": good_int(90000)},
             {"typ": hx(b"passive\n"), "temp": good_int(80000)}, {"typ": False, "temp": good_int(70000)},
             {"typ": hx(b"critical\n"), "temp": hx(b"junk\n")}]
    for n in range(0, maxlen + 1):
        for seq in itertools.product(range(len(alpha)), repeat=n):
            kinds = [alpha[i]["typ"] for i in seq]
            if kinds.count(hx(b"critical\n")) > 1 or kinds.count(hx(b"high\n")) > 1:
                continue
            yield [dict(alpha[i], hyst=False) for i in seq]


def zone_case_with_order(trips_in_order, base_k=0):
    """assign names so that the set iterates in exactly this order (in THIS interpreter)"""
    n = len(trips_in_order)
    ks = list(range(base_k, base_k + n))
    paths = ["/sys/class/thermal/thermal_zone0/trip_point_%d_%s" % (k, suf) for k in ks for suf in ("temp", "type")]
    paths.sort()
    order = [int(x.split("_")[2]) for x in c19_redirect.trip_set_order(paths)]
    trips = [dict(t, k=order[j]) for j, t in enumerate(trips_in_order)]
    return {"fn": "temps", "family": "exhaustive_orders", "fahrenheit": False, "chips": [], "coretemp": 0,
            "zones": [{"temp": good_int(30000), "typ": hx(b"acpitz\n"), "trips": trips}]}


def exhaustive_battery(quick):
    """every presence pattern of the eight value files × mains state × status text"""
    files = ["energy_now", "charge_now", "power_now", "current_now", "energy_full", "charge_full",
             "time_to_empty_now", "capacity"]
    vals = {"energy_now": 30000, "charge_now": 20000, "power_now": 15000, "current_now": 8000,
            "energy_full": 60000, "charge_full": 50000, "time_to_empty_now": 90, "capacity": 42}
    acs = [None, ("AC0", 1), ("AC0", 0), ("AC", 1)] if not quick else [None, ("AC0", 1), ("AC", 0)]
    sts = [None, b"Discharging\n", b"Charging\n", b"Full\n", b"Unknown\n"] if not quick else [None, b"Discharging\n", b"Full\n"]
    for mask in range(256):
        for ac in acs:
            for st in sts:
                s = {"name": hx(b"BAT0")}
                for i, f in enumerate(files):
                    if mask >> i & 1:
                        s[f] = good_int(vals[f])
                if st is not None:
                    s["status"] = hx(st)
                sup = [s]
                if ac is not None:
                    sup.append({"name": hx(ac[0].encode()), "online": good_int(ac[1])})
                yield {"fn": "battery", "family": "exhaustive", "dir": True, "supplies": sup}


def exhaustive_topology(maxn):
    """every assignment of n <= maxn logical CPUs to core ids < n, under the new and the deprecated file name;
    the cpuinfo next to it describes a 7-core package (a wrong fallback would show)"""
    ci = {"blocks": [{"processor": 0, "mhz_int": 2400, "mhz_milli": 0, "physical_id": 0, "cores": 7}]}
    for n in range(1, maxn + 1):
        for core_of in itertools.product(range(n), repeat=n):
            for key in ("core", "sib"):
                case = {"fn": "cpucount", "family": "exhaustive_topology", "logical": False, "sysconf": None,
                        "cpuinfo": ci, "stat": None, "core": [], "sib": []}
                case[key] = {"core_of": list(core_of)}
                yield case


# ------------------------------------------------------------------------------ correspondence

CORPUS = [
    # L16: one zone, critical=105000 + passive + active + hot
    {"fn": "temps", "family": "corpus_L16", "fahrenheit": False, "chips": [], "coretemp": 0,
     "zones": [{"temp": good_int(30000), "typ": hx(b"acpitz\n"),
                "trips": [{"k": 0, "typ": hx(b"critical\n"), "temp": good_int(105000), "hyst": False},
                          {"k": 1, "typ": hx(b"passive\n"), "temp": good_int(95000), "hyst": False},
                          {"k": 2, "typ": hx(b"active\n"), "temp": good_int(80000), "hyst": False},
                          {"k": 3, "typ": hx(b"hot\n"), "temp": good_int(100000), "hyst": False}]}]},
    # back-fill with a threshold of exactly 0
    {"fn": "temps", "family": "corpus_zero_thr", "fahrenheit": False, "coretemp": 0, "zones": [],
     "chips": [{"nested": False, "name": hx(b"nvme\n"), "fans": [],
                "temps": [{"input": good_int(35000), "label": None, "max": good_int(0), "crit": good_int(84000), "other": False}]}]},
    # finding C19-battery-no-power-supply-dir: no /sys/class/power_supply at all
    {"fn": "battery", "family": "no_dir", "dir": False, "supplies": []},
    # boot_time() twice, the clock stepped in between (btime 1000 → 1010): the second call must say 1010
    {"fn": "boottime_seq", "family": "corpus_btime_history",
     "stats": [hx(b"cpu  1 2 3\nbtime 1000\n"), hx(b"cpu  1 2 3\nbtime 1010\n")]},
    # a new psutil.Process at btime T (its constructor asks for the creation time: psutil remembers T); the clock is
    # stepped by one second; boot_time() must say T+1.  Then T, T+2, T+1 through boot_time() alone.
    {"fn": "boothist", "family": "corpus_boot_hist_one_second",
     "steps": [{"call": "create_time", "mode": "front", "start": 250, "stat": hist_rec(None, 1700000000)},
               {"call": "boot_time", "stat": hist_rec(None, 1700000001)}]},
    {"fn": "boothist", "family": "corpus_boot_hist_drift",
     "steps": [{"call": "boot_time", "stat": hist_rec(None, 1700000000)},
               {"call": "boot_time", "stat": hist_rec(None, 1700000002)},
               {"call": "boot_time", "stat": hist_rec(None, 1700000001)}]},
    # hwmon10 next to hwmon2 (glob patterns must match any number of digits)
    {"fn": "temps", "family": "corpus_hwmon10", "fahrenheit": False, "coretemp": 0, "zones": [],
     "chips": [{"nested": False, "dirn": 2, "name": hx(b"nvme\n"), "fans": [],
                "temps": [{"input": good_int(35000), "label": None, "max": None, "crit": None, "other": False}]},
               {"nested": False, "dirn": 10, "name": hx(b"k10temp\n"), "fans": [],
                "temps": [{"input": good_int(45000), "label": None, "max": None, "crit": None, "other": False}]}]},
    # a label that fails at read() with EIO: the sensor is still reported, without label
    {"fn": "temps", "family": "corpus_label_eio", "fahrenheit": False, "coretemp": 0, "zones": [], "unread": "read_eio",
     "chips": [{"nested": False, "name": hx(b"nvme\n"), "fans": [],
                "temps": [{"input": good_int(35000), "label": False, "max": False, "crit": None, "other": False}]}]},
]


def gen_case(rng, i):
    return with_unread_mode(rng, _gen_case(rng, i), 0.4)


def gen_round3(rng, k):
    """round 3 families: directory numbers ≥ 10, read-time failures of optional files, boot_time histories"""
    m = k % 8
    if m == 0:
        return with_dir_numbers(rng, gen_temps(rng, rng.choice(["basic", "nested", "missing", "big_index"])))
    if m == 1:
        return with_dir_numbers(rng, gen_temps(rng, rng.choice(["zones", "multi_trip", "many_trips"])))
    if m == 2:
        c = gen_fans(rng, rng.choice(["direct", "nested", "mixed"]))
        while not c["chips"]:
            c = gen_fans(rng, "mixed")
        return with_dir_numbers(rng, c)
    if m == 3:
        return force_unreadable(rng, gen_temps(rng, rng.choice(["basic", "zones", "multi_trip", "nested"])))
    if m == 4:
        return force_unreadable(rng, gen_battery(rng, rng.choice(["normal", "names", "tte"])))
    if m == 5:
        return force_unreadable(rng, rng.choice([gen_fans(rng, "mixed"), gen_cpufreq(rng, "offline"), gen_cpufreq(rng, "plain")]))
    if m == 7:
        return gen_cpuinfo_other_arch(rng)
    return gen_boottime_seq(rng)


OTHER_ARCH_CPUINFO = [
    # ARMv7 (older kernels): a capitalised header line, then one lower-case `processor` line per CPU
    b"Processor\t: ARMv7 Processor rev 4 (v7l)\nprocessor\t: 0\nBogoMIPS\t: 38.40\n\nprocessor\t: 1\nBogoMIPS\t: 38.40\n\n",
    b"Processor\t: ARMv7 Processor rev 10 (v7l)\nBogoMIPS\t: 790.52\nFeatures\t: swp half\n\n",
    # arm64
    b"processor\t: 0\nBogoMIPS\t: 48.00\nCPU implementer\t: 0x41\n\nprocessor\t: 1\nBogoMIPS\t: 48.00\n\n",
    # s390x: `processor N: …` lines after a header
    b"vendor_id       : IBM/S390\n# processors    : 2\nprocessor 0: version = FF\nprocessor 1: version = FF\n",
    # upper-case variants of the two prefixes psutil lower()s before testing
    b"PROCESSOR\t: 0\nCPU MHZ\t\t: 1000.000\n\nProcessor\t: 1\nCpu MHz\t\t: 1200.500\n\n",
    b"model name\t: x\ncpu MHz\t\t: 800.000\n\n",
]


def gen_cpuinfo_other_arch(rng):
    """/proc/cpuinfo as other architectures print it (not the x86 renderer: the specification is silent, the model
    speaks): case-insensitive `processor` / `cpu mhz` prefixes, for cpu_count(logical=True) without sysconf and for
    the cpuinfo variant of cpu_freq()"""
    raw = hx(rng.choice(OTHER_ARCH_CPUINFO))
    if rng.random() < 0.5:
        return {"fn": "cpucount", "family": "cpuinfo_other_arch", "logical": True, "sysconf": None, "cpuinfo": raw,
                "stat": gen_stat(rng, rng.randrange(0, 4), allow_raw=False), "core": [], "sib": []}
    return {"fn": "cpufreq", "family": "cpuinfo_other_arch", "variant": False, "percpu": rng.random() < 0.5,
            "policies": [], "percpu_dirs": [], "online": [], "cpuinfo": raw}


def _gen_case(rng, i):
    slot = i % 20
    if slot < 8:
        return gen_temps(rng, TEMP_FAMILIES[(i // 20 * 8 + slot) % len(TEMP_FAMILIES)])
    if slot < 10:
        return gen_fans(rng, ["direct", "nested", "mixed", "fan_junk", "fan_no_name", "fan_padded",
                              "fan_big_index"][(i // 20 * 2 + slot) % 7])
    if slot < 14:
        return gen_battery(rng, ["normal", "normal", "bat_junk", "no_battery", "normal", "no_dir", "names", "bat_padded",
                                 "negative"][(i // 20 * 4 + slot) % 9])
    if slot < 17:
        return gen_cpufreq(rng, ["plain", "info_match", "offline", "percpu_dirs", "both_dirs", "gaps", "freq_junk",
                                 "cpuinfo_variant", "cpuinfo_variant"][(i // 20 * 3 + slot) % 9])
    if slot < 19:
        return gen_cpucount(rng, ["sysconf", "cpuinfo_procs", "stat_rows", "zero", "topology", "packages",
                                  "kernel_topology", "packages", "topology", "kernel_topology"][(i // 20 * 2 + slot) % 10])
    return gen_stats(rng, ["cpustats", "boottime"][(i // 20) % 2])


def run_subprocess_seeds(ctx, runner, res, cases, seeds):
    """zone cases again under other PYTHONHASHSEED values (psutil imported afresh in a child)"""
    n = 0
    orders_seen = {}
    for seed in seeds:
        env = dict(os.environ, PYTHONHASHSEED=str(seed), PYTHONPATH=VERIF, PYTHONUTF8="1", PYTHONDONTWRITEBYTECODE="1")
        data = "".join(json.dumps(c) + "\n" for c in cases)
        try:
            p = subprocess.run([PY, "-X", "utf8", "-m", "harness.props.c19_redirect", ctx.snap.dir], input=data,
                               stdout=subprocess.PIPE, stderr=subprocess.PIPE, text=True, timeout=300, cwd=VERIF, env=env)
        except subprocess.TimeoutExpired:
            raise RuntimeError("hash-seed subprocess timed out")
        outs = [json.loads(l) for l in p.stdout.split("\n") if l.strip()]
        if p.returncode != 0 or len(outs) != len(cases):
            raise RuntimeError("hash-seed subprocess failed (rc=%s): %s" % (p.returncode, p.stderr[-2000:]))
        tagged = [dict(c, hashseed=seed) for c in cases]
        for c, io, mo, sp in runner.run(tagged, impl_outs=outs):
            record(res, c, io, mo, sp, "hashseed")
            res.count("hashseed:%d" % seed)
            orders_seen.setdefault(json.dumps(c["zones"]), set()).add(json.dumps(io["orders"]))
            n += 1
    res.extra["hashseed_zone_cases_with_more_than_one_order"] = sum(1 for v in orders_seen.values() if len(v) > 1)
    res.extra["hashseed_distinct_orders_of_L16_witness"] = len(orders_seen.get(json.dumps(CORPUS[0]["zones"]), ()))
    return n


def correspond(ctx, res):
    runner = Runner(ctx)
    try:
        res.rule = ("abstract sysfs/procfs trees from clause-directed families (PRNG from VERIF_SEED) for the 8 "
                    "functions, plus exhaustive sweeps (every iteration order of ≤3 trip points over a 5-letter "
                    "alphabet; every presence pattern of the 8 battery value files × mains × status; every "
                    "assignment of ≤4 CPUs to cores under both topology file names; every 3-step history of boot_time() / "
                    "create_time() calls with btime within 2 s of the first value), histories of boot_time() / "
                    "Process.create_time() / cpu_stats() in an interpreter with fresh module state while btime moves by "
                    "0, ±1, ±2, ±3 s, hours, or drifts (family boot_hist_*), plus zone "
                    "cases re-run under other PYTHONHASHSEED values; non-trivial = the case exercises a named "
                    "clause feature (missing/unreadable/non-numeric file, fallback, nesting, exception, None "
                    "result, UNKNOWN/UNLIMITED, variant, …); distinct = distinct trees")
        cases = list(CORPUS)
        n = ctx.n(1000, 40000)
        cases += [gen_case(ctx.rng, i) for i in range(n)]
        # dedicated batches for the text-level / topology parts (cheap cases, otherwise 1-2 slots in 20)
        for k in range(ctx.n(180, 6000)):
            cases.append(gen_cpucount(ctx.rng, ("kernel_topology", "packages", "topology")[k % 3]))
        for k in range(ctx.n(90, 3000)):
            cases.append(gen_cpucount(ctx.rng, ("cpuinfo_procs", "stat_rows", "zero")[k % 3]))
        for k in range(ctx.n(80, 2000)):
            cases.append(gen_stats(ctx.rng, ("cpustats", "boottime")[k % 2]))
        # round 2: file-name level of the zone / hwmon directories, battery selection rule, blanks, negative figures
        for k in range(ctx.n(90, 3000)):
            cases.append(gen_temps(ctx.rng, ("many_trips", "wide_index", "zone_extra", "big_index", "padded")[k % 5]))
        for k in range(ctx.n(120, 4000)):
            cases.append(gen_battery(ctx.rng, ("names", "negative", "bat_padded", "tte")[k % 4]))
        for k in range(ctx.n(40, 1000)):
            cases.append(gen_fans(ctx.rng, ("fan_padded", "fan_big_index")[k % 2]))
        # round 3: hwmonN / thermal_zoneN with N >= 10, read()-time failures, boot_time() histories
        for k in range(ctx.n(160, 5000)):
            cases.append(gen_round3(ctx.rng, k))
        # seeded round 5: histories of boot_time() / create_time() / cpu_stats() over moving btime (small deltas included)
        for k in range(ctx.n(180, 6000)):
            cases.append(gen_boothist(ctx.rng, BOOTHIST_SUBS[k % len(BOOTHIST_SUBS)]))
        quick = ctx.tier == "quick"
        ex_h = list(exhaustive_boothist(2 if quick else 3))
        ex_z = [zone_case_with_order(t) for t in exhaustive_zone_orders(3 if quick else 4)]
        ex_b = list(exhaustive_battery(quick))
        ex_t = list(exhaustive_topology(4 if quick else 5))
        res.extra["native_cpufreq_variant"] = "sysfs" if runner.impl.native_variant else "cpuinfo"
        CH = 3000
        allc = cases + ex_z + ex_b + ex_t + ex_h
        for a in range(0, len(allc), CH):
            for c, io, mo, sp in runner.run(allc[a:a + CH]):
                record(res, c, io, mo, sp, c.get("family", "gen"))
        res.exhaustive = ("all %d iteration orders of <=%d trip points over {critical, high, passive, unreadable type, "
                          "critical with junk temp} (high/critical unique), all %d battery presence patterns "
                          "(8 value files x mains x status), all %d assignments of <=%d logical CPUs to cores x "
                          "{core_cpus_list, thread_siblings_list} in the kernel's cpulist format; the random families "
                          "are samples; all %d three-step histories {boot_time(), create_time() on a platform object, new psutil.Process} "
                          "first x btime of steps 2 and 3 within %d s of the first x {boot_time(), create_time()} at steps 2, 3"
                          % (len(ex_z), 3 if quick else 4, len(ex_b), len(ex_t), 4 if quick else 5, len(ex_h), 2 if quick else 3))
        res.extra["other_variant_reached"] = (not runner.impl.native_variant) in runner.impl.variants
        # other hash seeds
        zone_cases = [c for c in cases if c["fn"] == "temps" and c["zones"]][: (40 if quick else 400)]
        zone_cases = [CORPUS[0]] + zone_cases
        seeds = [1, 2, 3] if quick else [1, 2, 3, 4, 5, 6, 7, 8, 42, 12345]
        res.extra["hashseed_runs"] = run_subprocess_seeds(ctx, runner, res, zone_cases, seeds)
        res.extra["driver_lines"] = runner.driver_lines
    finally:
        runner.close()


def search(ctx, res, broken):
    """directed: zone cases with ≥2 trip points in every order, zero thresholds, then the general generators"""
    runner = Runner(ctx)
    try:
        directed = [zone_case_with_order(t) for t in exhaustive_zone_orders(3)]
        directed += list(CORPUS)
        directed += [gen_temps(ctx.rng, f) for f in ("zero_thr", "multi_trip", "missing", "nonnumeric_thr") for _ in range(50)]
        directed += list(exhaustive_topology(3))
        directed += [gen_battery(ctx.rng, f) for f in ("tte", "negative", "names") for _ in range(40)]
        directed += [gen_temps(ctx.rng, f) for f in ("many_trips", "wide_index") for _ in range(20)]
        directed += [gen_round3(ctx.rng, k) for k in range(240)]
        directed += list(exhaustive_boothist(2))
        directed += [gen_boothist(ctx.rng, BOOTHIST_SUBS[k % len(BOOTHIST_SUBS)]) for k in range(300)]
        directed += [gen_cpucount(ctx.rng, f) for f in ("kernel_topology", "packages", "topology") for _ in range(40)]
        directed += [gen_case(ctx.rng, i) for i in range(ctx.n(300, 3000))]
        for c, io, mo, sp in runner.run(directed):
            record(res, c, io, mo, sp, "search")
    finally:
        runner.close()


# ------------------------------------------------------------------------------ shrink / replay


def _violates(runner, case):
    if case.get("hashseed", 0) not in (0, None):
        return None
    (c, io, mo, sp), = runner.run([case])
    ok_s, _ = judge(c, io, mo, sp)
    return (not ok_s), io, mo, sp


def _shrink_candidates(case):
    fn = case["fn"]
    if case.get("unread"):
        yield {k: v for k, v in case.items() if k != "unread"}
    for key in ("chips", "zones"):
        if any("dirn" in e for e in case.get(key, []) if isinstance(e, dict)):
            yield dict(case, **{key: [{k: v for k, v in e.items() if k != "dirn"} for e in case[key]]})
    if fn == "boothist":
        steps = case["steps"]
        for i in range(len(steps)):
            if len(steps) > 1:
                yield dict(case, steps=steps[:i] + steps[i + 1:])
        for i, st in enumerate(steps):
            if st["call"] == "cpu_stats":
                yield dict(case, steps=steps[:i] + [dict(st, call="boot_time")] + steps[i + 1:])
            if st["call"] == "create_time" and st.get("mode") == "front":
                yield dict(case, steps=steps[:i] + [dict(st, mode="plat")] + steps[i + 1:])
            if st["call"] == "create_time" and st.get("start"):
                yield dict(case, steps=steps[:i] + [dict(st, start=0)] + steps[i + 1:])
            if isinstance(st.get("stat"), dict):
                plain = hist_rec(None, st["stat"]["rec"]["btime"])
                if plain != st["stat"]:
                    yield dict(case, steps=steps[:i] + [dict(st, stat=plain)] + steps[i + 1:])
    if fn == "boottime_seq":
        for i in range(len(case["stats"])):
            if len(case["stats"]) > 1:
                yield dict(case, stats=case["stats"][:i] + case["stats"][i + 1:])
    if fn == "temps":
        for i in range(len(case["chips"])):
            yield dict(case, chips=case["chips"][:i] + case["chips"][i + 1:])
        for i in range(len(case["zones"])):
            yield dict(case, zones=case["zones"][:i] + case["zones"][i + 1:])
        for i, c in enumerate(case["chips"]):
            for j in range(len(c["temps"])):
                c2 = dict(c, temps=c["temps"][:j] + c["temps"][j + 1:])
                yield dict(case, chips=case["chips"][:i] + [c2] + case["chips"][i + 1:])
            for j, s in enumerate(c["temps"]):
                for k in ("label", "max", "crit"):
                    if s.get(k) is not None:
                        s2 = dict(s)
                        s2[k] = None
                        c2 = dict(c, temps=c["temps"][:j] + [s2] + c["temps"][j + 1:])
                        yield dict(case, chips=case["chips"][:i] + [c2] + case["chips"][i + 1:])
        for i, z in enumerate(case["zones"]):
            for j in range(len(z["trips"])):
                z2 = dict(z, trips=z["trips"][:j] + z["trips"][j + 1:])
                yield dict(case, zones=case["zones"][:i] + [z2] + case["zones"][i + 1:])
            if z.get("extra"):
                yield dict(case, zones=case["zones"][:i] + [dict(z, extra=z["extra"][1:])] + case["zones"][i + 1:])
        if case.get("fahrenheit"):
            yield dict(case, fahrenheit=False)
    elif fn == "fans":
        for i in range(len(case["chips"])):
            yield dict(case, chips=case["chips"][:i] + case["chips"][i + 1:])
        for i, c in enumerate(case["chips"]):
            for j in range(len(c["fans"])):
                c2 = dict(c, fans=c["fans"][:j] + c["fans"][j + 1:])
                yield dict(case, chips=case["chips"][:i] + [c2] + case["chips"][i + 1:])
    elif fn == "battery":
        for i in range(len(case["supplies"])):
            yield dict(case, supplies=case["supplies"][:i] + case["supplies"][i + 1:])
        for i, s in enumerate(case["supplies"]):
            for k in list(s):
                if k != "name":
                    s2 = {a: b for a, b in s.items() if a != k}
                    yield dict(case, supplies=case["supplies"][:i] + [s2] + case["supplies"][i + 1:])
    elif fn == "cpufreq":
        for key in ("policies", "percpu_dirs", "online"):
            for i in range(len(case[key])):
                yield dict(case, **{key: case[key][:i] + case[key][i + 1:]})
        ci = case.get("cpuinfo")
        if isinstance(ci, dict):
            for i in range(len(ci["blocks"])):
                yield dict(case, cpuinfo={"blocks": ci["blocks"][:i] + ci["blocks"][i + 1:]})
    elif fn == "cpucount":
        for key in ("core", "sib"):
            v = case[key]
            if isinstance(v, dict):
                co = v["core_of"]
                for i in range(len(co)):
                    yield dict(case, **{key: {"core_of": co[:i] + co[i + 1:]}})
                if key == "sib" and case["core"]:
                    yield dict(case, sib=[])
            else:
                for i in range(len(v)):
                    yield dict(case, **{key: v[:i] + v[i + 1:]})
        ci = case.get("cpuinfo")
        if isinstance(ci, dict) and not case["logical"]:
            for i in range(len(ci["blocks"])):
                yield dict(case, cpuinfo={"blocks": ci["blocks"][:i] + ci["blocks"][i + 1:]})


def shrink(ctx, d):
    case = d["input"].get("case")
    if not case or case.get("hashseed", 0):
        return d
    runner = Runner(ctx)
    try:
        best = None
        for _ in range(40):
            for cand in _shrink_candidates(case):
                v = _violates(runner, cand)
                if v and v[0]:
                    case, best = cand, v
                    break
            else:
                break
        if best:
            return dict(d, input={"case": case, "source": "shrunk", "hashseed": 0}, impl=best[1], model=best[2], spec=best[3])
    finally:
        runner.close()
    return d


def replay(ctx, rp, res):
    case = rp["input"].get("case")
    if not case:
        return True
    runner = Runner(ctx)
    try:
        seed = rp["input"].get("hashseed", 0) or 0
        if seed:
            r2 = type(res)()
            run_subprocess_seeds(ctx, runner, r2, [case], [seed])
            return any(x["kind"] == "spec" for x in r2.disagreements)
        v = _violates(runner, case)
        return bool(v and v[0])
    finally:
        runner.close()


def check_finding(ctx, fnd):
    w = fnd.get("witness", {}).get("case")
    if not w:
        return "unknown"
    runner = Runner(ctx)
    try:
        v = _violates(runner, w)
        return "reproduces" if v and v[0] else "gone"
    finally:
        runner.close()
