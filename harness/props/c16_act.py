"""C16, calls of any shape inside a block (Model/C16Act.lean, Spec/C16Act.lean): methods WITH ARGUMENTS, methods that block
(the kernel records change while the call sleeps) and cache (de)activation issued from a method's own code.

Translator: fact `cacheOpSites` = every place of psutil/__init__.py, _common.py, _pslinux.py that touches a `_cache`
attribute or calls cache_activate / cache_deactivate / oneshot_enter / oneshot_exit, as (enclosing function, kind, level).

Correspondence family `act:*` on the REAL code: every call form (public method + argument tuple) of FORMS and every plain
grouped method, inside / outside / nested blocks, with a virtual `time.sleep` (psutil's own name `time` is replaced by a proxy;
sleeping = the scripted next world becomes current, no wall clock involved). What a form asks (which cached sources, before or
after its blocking point) is MEASURED on the real code outside any block on a fresh object - no fact involved; the Lean
specification then says what every later question must answer, and the read counters of the real object say how often each
source was read in the block.
"""
import ast

from harness.common import extract

SRC3 = ["stat", "status", "smaps"]
MODS = [("__init__", "__init__.py"), ("_common", "_common.py"), ("_pslinux", "_pslinux.py")]
ACT_CALLS = {"cache_activate": "activate", "cache_deactivate": "deactivate", "oneshot_enter": "activate", "oneshot_exit": "deactivate"}


# ------------------------------------------------------------------------------------------------ translator
def _level(mod, node, via_method):
    """whose `_cache` an expression denotes"""
    if isinstance(node, ast.Attribute) and isinstance(node.value, ast.Name) and node.value.id == "self" and node.attr == "_proc":
        return "plat"
    if isinstance(node, ast.Name) and node.id == "self":
        return {"__init__": "front", "_pslinux": "plat"}.get(mod, "any")
    if isinstance(node, ast.Name) and mod == "_common":
        return "any"
    return "?obj"


def cache_op_sites(snap):
    rows = []
    for mod, rel in MODS:
        tree = extract.parse_module(snap, rel)

        def walk(node, stack):
            for ch in ast.iter_child_nodes(node):
                if isinstance(ch, (ast.FunctionDef, ast.AsyncFunctionDef, ast.ClassDef)):
                    walk(ch, stack + [ch.name])
                    continue
                fn = mod + "." + (".".join(stack) if stack else "<module>")
                if isinstance(ch, ast.Call):
                    f = ch.func
                    if isinstance(f, ast.Attribute) and f.attr in ACT_CALLS:
                        if f.attr.startswith("cache_"):
                            lvl = _level(mod, ch.args[0], True) if len(ch.args) == 1 else "?obj"
                        else:
                            lvl = "plat" if _level(mod, f.value, True) in ("plat",) else "?obj"
                        rows.append((ch.lineno, ch.col_offset, fn, ACT_CALLS[f.attr], lvl))
                    elif isinstance(f, ast.Name) and f.id in ("hasattr", "getattr", "setattr", "delattr") and len(ch.args) >= 2 \
                            and isinstance(ch.args[1], ast.Constant) and ch.args[1].value == "_cache":
                        kind = {"hasattr": "test", "getattr": "attr", "setattr": "activate", "delattr": "deactivate"}[f.id]
                        rows.append((ch.lineno, ch.col_offset, fn, kind, _level(mod, ch.args[0], False)))
                elif isinstance(ch, ast.Attribute) and ch.attr == "_cache":
                    kind = {ast.Store: "activate", ast.Del: "deactivate"}.get(type(ch.ctx), "attr")
                    rows.append((ch.lineno, ch.col_offset, fn, kind, _level(mod, ch.value, False)))
                walk(ch, stack)
        walk(tree, [])
    out = []
    for mod, _ in MODS:
        sub = sorted(r for r in rows if r[2].startswith(mod + "."))
        out.extend((r[2], r[3], r[4]) for r in sub)
    return out


def facts(snap, F):
    L = extract
    F.try_add("cacheOpSites", "List (String × String × String)",
              lambda: L.lean_list(cache_op_sites(snap),
                                  lambda r: "(%s, %s, %s)" % (L.lean_str(r[0]), L.lean_str(r[1]), L.lean_str(r[2]))),
              "every place of psutil/__init__.py, _common.py, _pslinux.py that calls cache_activate / cache_deactivate / "
              "oneshot_enter / oneshot_exit or touches a `_cache` attribute (directly or by hasattr/getattr/setattr/delattr), in "
              "source order: (module.Class.function, kind: activate / deactivate / test = hasattr / attr = any other access, "
              "level: front = the psutil.Process object, plat = the platform object, any = the decorator's parameter, ?obj = not "
              "resolved)")


# ------------------------------------------------------------------------------------------------ call forms
class TimeProxy:
    """stands for psutil/__init__.py's module-global `time`: sleep() is virtual"""

    def __init__(self, real, on_sleep):
        self._real = real
        self._on_sleep = on_sleep

    def sleep(self, secs):
        self._on_sleep(secs)

    def __getattr__(self, name):
        return getattr(self._real, name)


FORMS = {
    "cpu_percent()": ("cpu_percent", lambda p: p.cpu_percent()),
    "cpu_percent(None)": ("cpu_percent", lambda p: p.cpu_percent(None)),
    "cpu_percent(0)": ("cpu_percent", lambda p: p.cpu_percent(interval=0)),
    "cpu_percent(0.01)": ("cpu_percent", lambda p: p.cpu_percent(interval=0.01)),
    "cpu_percent(2)": ("cpu_percent", lambda p: p.cpu_percent(2)),
    "cpu_percent(-1)": ("cpu_percent", lambda p: p.cpu_percent(interval=-1)),
    "memory_percent()": ("memory_percent", lambda p: p.memory_percent()),
    "memory_percent('rss')": ("memory_percent", lambda p: p.memory_percent("rss")),
    "memory_percent('vms')": ("memory_percent", lambda p: p.memory_percent(memtype="vms")),
    "memory_percent('uss')": ("memory_percent", lambda p: p.memory_percent(memtype="uss")),
    "memory_percent('pss')": ("memory_percent", lambda p: p.memory_percent(memtype="pss")),
    "memory_percent('swap')": ("memory_percent", lambda p: p.memory_percent(memtype="swap")),
    "memory_percent('bogus')": ("memory_percent", lambda p: p.memory_percent(memtype="bogus")),
    "memory_maps(True)": ("memory_maps", lambda p: p.memory_maps(grouped=True)),
    "memory_maps(False)": ("memory_maps", lambda p: p.memory_maps(grouped=False)),
    "children()": ("children", lambda p: p.children()),
    "children(True)": ("children", lambda p: p.children(recursive=True)),
    "parent()": ("parent", lambda p: p.parent()),
    "parents()": ("parents", lambda p: p.parents()),
    "is_running()": ("is_running", lambda p: p.is_running()),
    "open_files()": ("open_files", lambda p: p.open_files()),
    "net_connections('inet')": ("net_connections", lambda p: p.net_connections(kind="inet")),
    "num_fds()": ("num_fds", lambda p: p.num_fds()),
    "threads()": ("threads", lambda p: p.threads()),
    "as_dict(['name', 'cpu_percent'])": ("as_dict", lambda p: p.as_dict(attrs=["name", "cpu_percent"])),
    "as_dict(['num_threads'], None)": ("as_dict", lambda p: p.as_dict(["num_threads"], None)),
    "__str__()": ("__str__", lambda p: str(p)),
    "__repr__()": ("__repr__", lambda p: repr(p)),
    "__eq__(self)": ("__eq__", lambda p: p == p),
    "__hash__()": ("__hash__", lambda p: hash(p)),
}
PLAIN = {"stat": ["name", "ppid", "cpu_times", "cpu_num"],
         "status": ["uids", "gids", "username", "num_threads", "num_ctx_switches"],
         "smaps": ["memory_maps"]}
SRC_OF = {m: s for s, ms in PLAIN.items() for m in ms}


class ActRunner:
    def __init__(self, ctx, impl):
        self.ctx = ctx
        self.impl = impl
        self.real_time = impl.ps.time
        impl.ps.time = TimeProxy(self.real_time, self._sleep)
        self.pending = []          # worlds the next sleeps make current
        self.slept = []            # read counters at each sleep of the running call
        self.forms = {}
        self.ref = {}
        for name in FORMS:
            self.measure(name)

    def close(self):
        self.impl.ps.time = self.real_time

    def _sleep(self, secs):
        self.slept.append([self.impl.reads[s] for s in SRC3])
        if self.pending:
            self.set_world(self.pending.pop(0))

    def set_world(self, w):
        for s, v in zip(SRC3, w):
            if self.impl.ver[s] != v:
                self.impl.ver[s] = v
                self.impl._write(s)

    def outcome_kind(self, fn):
        try:
            fn(self.impl.p)
        except BaseException as e:  # noqa: BLE001
            if isinstance(e, (KeyboardInterrupt, SystemExit)):
                raise
            return "exc:" + type(e).__name__
        return "ok"

    def measure(self, name):
        """what a form asks, measured OUTSIDE any block on a fresh object: body = gets before the sleep, tick, gets after"""
        self.impl.reset_light()
        self.pending, self.slept = [[2, 2, 2]], []
        r0 = [self.impl.reads[s] for s in SRC3]
        self.ref[name] = self.outcome_kind(FORMS[name][1])
        marks = [r0] + self.slept + [[self.impl.reads[s] for s in SRC3]]
        body = []
        for k in range(len(marks) - 1):
            if k:
                body.append(["tick"])
            for i in range(3):
                body.extend([["get", i, False]] * (marks[k + 1][i] - marks[k][i]))
        self.forms[name] = body
        self.pending = []

    def body_of(self, name):
        if name in FORMS:
            return "__init__.Process." + FORMS[name][0], self.forms[name]
        vf = hasattr(getattr(type(self.impl.p), name), "cache_activate")
        return "__init__.Process." + name, [["get", SRC3.index(SRC_OF[name]), vf]]

    def driver_line(self, w0, hist):
        dh = []
        for o in hist:
            if o[0] == "call":
                fn, body = self.body_of(o[1])
                dh.append(["call", fn, body, o[2] if len(o) > 2 else []])
            elif o[0] == "exit":
                dh.append(["exit"])
            else:
                dh.append(o)
        return {"op": "act", "w": w0, "hist": dh}

    def run_impl(self, w0, hist):
        """rows: per op {"out":…, "reads":[3 counters since the outermost enter] or None outside a block}"""
        impl = self.impl
        impl.reset_light()
        self.set_world(w0)
        rows, depth, base = [], 0, None
        for o in hist:
            out = None
            if o[0] == "enter":
                r = impl._do({"op": "enter"})
                if depth == 0:
                    base = [impl.reads[s] for s in SRC3]
                depth += 1
                out = r if r["kind"] != "unit" else None
            elif o[0] == "exit":
                r = impl._do({"op": "exit", "exc": bool(len(o) > 1 and o[1])})
                depth = max(0, depth - 1)
                out = r if r["kind"] != "unit" else None
            elif o[0] == "change":
                self.set_world(o[1])
            elif o[0] == "call":
                name = o[1]
                self.pending, self.slept = [list(w) for w in (o[2] if len(o) > 2 else [])], []
                if name in FORMS:
                    out = {"form": self.outcome_kind(FORMS[name][1])}
                else:
                    out = impl.outcome(name, lambda: getattr(impl.p, name)())
                # a world the call did not consume (it did not sleep): it becomes current after the call, as in the model
                # (the model's `tick` consumes worlds only at blocking points; leftovers are dropped there too)
                self.pending = []
            rows.append({"out": out, "reads": [impl.reads[s] - b for s, b in zip(SRC3, base)] if depth > 0 and base else None})
        while impl.cms:
            impl._do({"op": "exit", "exc": False})
        return rows


def judge(cases, runner, ctx):
    """[(tag, w0, hist, bad)] with bad = None | (index, kind, impl row, model, spec)"""
    lines = [runner.driver_line(w0, hist) for _, w0, hist in cases]
    answers = ctx.driver().batch(lines)
    verdicts = []
    for (tag, w0, hist), ans in zip(cases, answers):
        if "bad" in ans:
            raise RuntimeError("driver rejected %r: %s" % (hist, ans))
        rows = runner.run_impl(w0, hist)
        bad = None
        for i, (o, row) in enumerate(zip(hist, rows)):
            mo = {"out": ans["model"]["outs"][i], "reads": ans["model"]["reads"][i]}
            sp = {"out": ans["spec"]["outs"][i]}
            kind = None
            if o[0] == "call" and o[1] in FORMS:
                if row["out"]["form"] != runner.ref[o[1]]:
                    kind = "spec"
                    sp = dict(sp, outcome_outside_a_block=runner.ref[o[1]])
            elif o[0] == "call":
                got = row["out"]
                if got.get("kind") != "ok" or got["value"] != sp["out"]:
                    kind = "spec"
                elif got["value"] != mo["out"]:
                    kind = "model"
            elif row["out"] is not None:
                kind = "spec"
            if kind is None and row["reads"] is not None:
                if any(r > 1 for r in row["reads"]):
                    kind = "spec"
                    sp = dict(sp, reads_per_block="at most 1 of each of %s" % SRC3)
                elif row["reads"] != mo["reads"]:
                    kind = "model"
            if kind:
                bad = (i, kind, row, mo, sp)
                break
        verdicts.append((tag, w0, hist, bad))
    return verdicts


# ------------------------------------------------------------------------------------------------ generators
class Worlds:
    def __init__(self):
        self.k = 1
        self.cur = [1, 1, 1]

    def fresh(self, which=(0, 1, 2)):
        self.k += 1
        self.cur = [self.k if i in which else self.cur[i] for i in range(3)]
        return list(self.cur)


def call_op(runner, name, W):
    body = runner.forms.get(name, [])
    n = sum(1 for st in body if st[0] == "tick")
    return ["call", name, [W.fresh() for _ in range(n)]]


def cases_for(ctx, runner, thorough, factor=1):
    cases = []
    plains = [m for ms in PLAIN.values() for m in ms]
    forms = list(FORMS)
    # exhaustive: every form F around every plain method m: first read, F, kernel change, same source again, after the block
    for F in forms:
        for m in plains:
            src = SRC_OF[m]
            other = PLAIN[src][(PLAIN[src].index(m) + 1) % len(PLAIN[src])]
            W = Worlds()
            h = [["enter"], ["call", m], call_op(runner, F, W), ["change", W.fresh()], ["call", m], ["call", other], ["exit"],
                 ["call", m]]
            cases.append(("act:pairs", [1, 1, 1], h))
    # structured: F is the first thing of the block; F in a nested block; F before an exit by exception; F twice
    for F in forms:
        for j, src in enumerate(SRC3):
            m = PLAIN[src][0]
            m2 = PLAIN[src][-1]
            W = Worlds()
            cases.append(("act:structured", [1, 1, 1],
                          [["enter"], call_op(runner, F, W), ["call", m], ["change", W.fresh()], ["call", m2], ["exit", True], ["call", m]]))
            W = Worlds()
            cases.append(("act:structured", [1, 1, 1],
                          [["enter"], ["call", m], ["enter"], call_op(runner, F, W), ["exit"], ["change", W.fresh()], ["call", m2],
                           call_op(runner, F, W), ["call", m], ["exit"], ["call", m2]]))
    rng = ctx.rng
    n = (2000 if thorough else 150) * factor
    for _ in range(n):
        W = Worlds()
        h, depth = [], 0
        for _ in range(rng.randint(4, 14)):
            r = rng.random()
            if r < 0.15 and depth < 3:
                h.append(["enter"])
                depth += 1
            elif r < 0.25 and depth > 0:
                h.append(["exit", True] if rng.random() < 0.3 else ["exit"])
                depth -= 1
            elif r < 0.45:
                h.append(["change", W.fresh(tuple(i for i in range(3) if rng.random() < 0.7))])
            elif r < 0.70:
                h.append(call_op(runner, rng.choice(forms), W))
            else:
                h.append(["call", rng.choice(plains)])
        if depth == 0:
            h.insert(0, ["enter"])
        cases.append(("act:random", [1, 1, 1], h))
    return cases


def well_nested(h):
    d = 0
    for o in h:
        if o[0] == "enter":
            d += 1
        elif o[0] == "exit":
            d -= 1
            if d < 0:
                return False
    return True


def correspond_act(ctx, impl, res):
    thorough = ctx.tier == "thorough"
    runner = ActRunner(ctx, impl)
    try:
        res.extra["act_forms"] = {k: {"asks": runner.forms[k], "outside": runner.ref[k]} for k in FORMS}
        cases = cases_for(ctx, runner, thorough, factor=min(ctx.budget_factor, 3))
        verdicts = judge(cases, runner, ctx)
        reported = {"spec": 0, "model": 0}
        sampled = False
        for tag, w0, hist, bad in verdicts:
            res.count("family:" + tag)
            res.count("ops", len(hist))
            res.count("act_blocking_calls", sum(1 for o in hist if o[0] == "call" and len(o) > 2 and o[2]))
            res.count("act_calls_with_arguments", sum(1 for o in hist if o[0] == "call" and o[1] in FORMS))
            smp = None
            if tag == "act:random" and not sampled and not bad:
                sampled = True
                smp = {"family": tag, "history": hist}
            res.case(("act", repr(hist)), nontrivial=True, sample=smp)
            if bad:
                res.count("act_disagreement:" + bad[1])
            if bad and reported[bad[1]] < 2:
                reported[bad[1]] += 1
                i, kind, row, mo, sp = bad
                res.disagree(kind, {"act": {"w": w0, "hist": hist[:i + 1]}, "source": tag}, row, mo, sp,
                             note="step %d (%s): %s" % (
                                 i, hist[i][1] if hist[i][0] == "call" else hist[i][0],
                                 "inside the block the answer is not the content at the first read of its source in the block, or a "
                                 "cached source was read more than once in the block, or a call ends differently than outside a block"
                                 if kind == "spec" else
                                 "the implementation agrees with the specification but not with the Lean model built from the "
                                 "translator's fact cacheOpSites"))
        res.extra["act_exhaustive"] = ("every call form of %d (public method x arguments, blocking and not) around every plain grouped "
                                       "method of %d inside one block, first / nested / before an exceptional exit (act:pairs, "
                                       "act:structured)" % (len(FORMS), sum(len(v) for v in PLAIN.values())))
    finally:
        runner.close()


def fails(ctx, impl, w0, hist):
    runner = ActRunner(ctx, impl)
    try:
        v = judge([("replay", w0, hist)], runner, ctx)[0]
        return v[3] is not None and v[3][1] == "spec", v
    finally:
        runner.close()


def shrink(ctx, impl, d):
    from harness.common.shrink import ddmin
    a = d["input"]["act"]
    w0, hist = a["w"], a["hist"]
    small = ddmin(hist, lambda h: bool(h) and well_nested(h) and fails(ctx, impl, w0, h)[0], max_tests=60)
    ok, v = fails(ctx, impl, w0, small)
    if ok:
        i, kind, row, mo, sp = v[3]
        return dict(d, input={"act": {"w": w0, "hist": small[:i + 1]}, "source": "shrunk"}, impl=row, model=mo, spec=sp)
    return d
