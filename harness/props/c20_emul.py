"""Platform emulation for C20: run the REAL `_psbsd.py`, `_psosx.py`, `_pssunos.py`, `_psaix.py`,
`_pswindows.py` and the REAL front end `__init__.py` on Linux over a scripted native layer.

How
---
* The snapshot's `psutil` package directory is loaded a second (third, …) time under an alias
  package name (`psutil_c20_<ident>`), with `sys.platform` / `os.name` patched only while the
  alias package's modules are being executed, and with stub native modules
  (`_psutil_bsd/_osx/_sunos/_aix/_windows/_posix`) pre-seeded in `sys.modules` under the alias.
  Everything is restored afterwards; the Linux `psutil` of the same interpreter is untouched
  (checked by `Emu.load`).
* A stub module exposes exactly the functions the real extension registers for that platform:
  the `PyMethodDef` table and the `PyModule_AddIntConstant` calls of the C source are read
  through a tiny C-preprocessor evaluator with the platform's defines.
* After the import, the names `os`, `time`, `glob`, `subprocess`, `get_procfs_path`,
  `isfile_strict`, `get_terminal_map` inside the alias modules are replaced by scripted proxies
  (an in-memory /proc for SunOS/AIX, `ntpath` as `os.path` on Windows, no real sleeping).
* Every scripted primitive is a *native call*: it is appended to `World.trace`, and the call
  with index `World.fault_at` raises `OSError(errno)` (with `.winerror` on Windows). From that
  point on the pid is "gone", "zombie" or "alive" **as seen by the module's own probe**
  (`World.state`): only the primitives that answer "does the pid exist / is it a zombie"
  follow the state (one-shot info record on BSD/macOS, `os.kill(pid, 0)`, `/proc/<pid>` and
  `/proc/<pid>/psinfo`, `proc_name` used by `_assert_alive`, `pids()`, `pid_exists`), every
  other primitive keeps answering.
* Records hold a DISTINCT value in every slot (`slot_value`), so a swapped slot shows.
* Answer shapes (seeded round 5): `World.empty` names native calls whose answer about THIS process
  (a list / dict / str) is handed back EMPTY — the native call succeeds, it just found nothing
  (no thread, no socket, no open file). That is the only way the "empty answer → is the process
  still there?" re-checks of the Solaris / AIX layers are reached.
* `os.path.exists / isfile / islink` are what `genericpath` / `posixpath` define: ONE `stat()` /
  `lstat()` call whose OSError is swallowed and answered `False`. They are traced native calls and
  they CAN be faulted: the faulted call answers `False` (the OS error never reaches the caller) —
  an OS failure hidden behind such a yes/no question is still an OS failure of a native call the
  method makes.
"""
import errno
import importlib.util
import ntpath
import os
import posixpath
import re
import signal
import socket
import sys
import types

# make sure nothing is imported for the first time while sys.platform / os.name are patched
import contextlib, enum, functools, collections, glob as _glob_mod, subprocess as _subprocess_mod  # noqa: E401,F401
import ipaddress, shutil, threading, datetime, time as _time_mod, stat as _stat_mod, warnings  # noqa: E401,F401
import xml.etree.ElementTree  # noqa: F401
try:
    import pwd, resource  # noqa: E401,F401
except ImportError:  # pragma: no cover
    pass

IDENTS = ["freebsd", "openbsd", "netbsd", "macos", "sunos", "aix", "windows"]

PLATFORM = {  # ident -> (sys.platform, os.name, platform module, ext module, ext C file)
    "freebsd": ("freebsd14", "posix", "_psbsd", "_psutil_bsd", "_psutil_bsd.c"),
    "openbsd": ("openbsd7", "posix", "_psbsd", "_psutil_bsd", "_psutil_bsd.c"),
    "netbsd": ("netbsd10", "posix", "_psbsd", "_psutil_bsd", "_psutil_bsd.c"),
    "macos": ("darwin", "posix", "_psosx", "_psutil_osx", "_psutil_osx.c"),
    "sunos": ("sunos5", "posix", "_pssunos", "_psutil_sunos", "_psutil_sunos.c"),
    "aix": ("aix7", "posix", "_psaix", "_psutil_aix", "_psutil_aix.c"),
    "windows": ("win32", "nt", "_pswindows", "_psutil_windows", "_psutil_windows.c"),
}

_FBSD_RLIMITS = ["AS", "CORE", "CPU", "DATA", "FSIZE", "MEMLOCK", "NOFILE", "NPROC", "RSS", "STACK",
                 "SWAP", "SBSIZE", "NPTS"]
DEFINES = {
    "freebsd": dict({"PSUTIL_FREEBSD": 1, "PSUTIL_BSD": 1, "PSUTIL_POSIX": 1, "__FreeBSD_version": 1400000,
                     "HAVE_LONG_LONG": 1}, **{"RLIMIT_" + r: 1 for r in _FBSD_RLIMITS}),
    "openbsd": {"PSUTIL_OPENBSD": 1, "PSUTIL_BSD": 1, "PSUTIL_POSIX": 1},
    "netbsd": {"PSUTIL_NETBSD": 1, "PSUTIL_BSD": 1, "PSUTIL_POSIX": 1},
    "macos": {"PSUTIL_OSX": 1, "PSUTIL_POSIX": 1},
    "sunos": {"PSUTIL_SUNOS": 1, "PSUTIL_POSIX": 1},
    "aix": {"PSUTIL_AIX": 1, "PSUTIL_POSIX": 1, "CURR_VERSION_THREAD": 1, "CURR_VERSION_PROCESS": 1,
            "CURR_VERSION_NETINTERFACE": 3},
    "windows": {"PSUTIL_WINDOWS": 1, "_WIN64": 1},
}

# Windows error codes the property speaks about
ERROR_ACCESS_DENIED = 5
ERROR_PRIVILEGE_NOT_HELD = 1314
ERROR_PARTIAL_COPY = 299
ERROR_INVALID_PARAMETER = 87
KNOWN_CONST = {
    "ERROR_ACCESS_DENIED": 5, "ERROR_PRIVILEGE_NOT_HELD": 1314, "ERROR_INVALID_NAME": 123,
    "ERROR_SERVICE_DOES_NOT_EXIST": 1060, "INFINITE": 0xFFFFFFFF, "PSUTIL_CONN_NONE": 128,
    "WINDOWS_VISTA": 60, "WINDOWS_7": 61, "WINDOWS_8": 62, "WINDOWS_8_1": 63, "WINDOWS_10": 100,
    "WINVER": 100, "AF_LINK": 18, "PRNODEV": -1,
    "ABOVE_NORMAL_PRIORITY_CLASS": 32768, "BELOW_NORMAL_PRIORITY_CLASS": 16384, "HIGH_PRIORITY_CLASS": 128,
    "IDLE_PRIORITY_CLASS": 64, "NORMAL_PRIORITY_CLASS": 32, "REALTIME_PRIORITY_CLASS": 256,
}


class EmuError(Exception):
    """the emulation itself failed (infrastructure, not a property violation)"""


class Unscripted(Exception):
    """the implementation made a native call the emulator has no script for"""


# ------------------------------------------------------------------ mini C preprocessor


def _cpp_eval(expr, D):
    e = expr
    e = re.sub(r"/\*.*?\*/", " ", e)
    e = re.sub(r"//.*$", " ", e)
    e = re.sub(r"defined\s*\(\s*(\w+)\s*\)", lambda m: "1" if m.group(1) in D else "0", e)
    e = re.sub(r"defined\s+(\w+)", lambda m: "1" if m.group(1) in D else "0", e)
    e = e.replace("&&", " and ").replace("||", " or ")
    e = re.sub(r"!(?!=)", " not ", e)
    e = re.sub(r"\b([A-Za-z_]\w*)\b", lambda m: m.group(1) if m.group(1) in ("and", "or", "not")
               else str(int(D.get(m.group(1), 0))), e)
    e = re.sub(r"(\d+)[uUlL]+\b", r"\1", e)
    if not re.fullmatch(r"[\d\s()<>=!andort+\-*]+", e):
        raise EmuError("cannot evaluate preprocessor condition %r" % expr)
    return bool(eval(e, {"__builtins__": {}}, {}))  # digits/and/or/not/comparisons only


def cpp_active_lines(text, D):
    """Lines of a C file that are active under the defines D (conditionals only; no macro expansion)."""
    text = text.replace("\\\n", " ")
    out = []
    stack = []   # (parent_active, this_branch_taken_already, currently_active)
    active = True
    for line in text.split("\n"):
        s = line.strip()
        m = re.match(r"#\s*(ifdef|ifndef|if|elif|else|endif)\b(.*)", s)
        if not m:
            if active:
                out.append(line)
            continue
        kw, rest = m.group(1), m.group(2).strip()
        if kw in ("if", "ifdef", "ifndef"):
            if kw == "ifdef":
                c = rest.split()[0] in D
            elif kw == "ifndef":
                c = rest.split()[0] not in D
            else:
                c = _cpp_eval(rest, D) if active else False
            stack.append((active, c, active and c))
            active = active and c
        elif kw == "elif":
            parent, taken, _ = stack.pop()
            c = (not taken) and parent and _cpp_eval(rest, D)
            stack.append((parent, taken or c, c))
            active = c
        elif kw == "else":
            parent, taken, _ = stack.pop()
            c = parent and not taken
            stack.append((parent, True, c))
            active = c
        else:
            parent, _, _ = stack.pop()
            active = parent
    return out


def ext_surface(pkg_dir, cfile, D):
    """(function names, constant names, exception names) the C extension registers under D."""
    with open(os.path.join(pkg_dir, cfile), encoding="utf-8") as f:
        lines = cpp_active_lines(f.read(), D)
    txt = "\n".join(lines)
    funcs = re.findall(r'^\s*\{\s*"(\w+)"\s*,', txt, re.M)
    consts = re.findall(r'PyModule_Add(?:IntConstant|Object)\s*\(\s*\w+\s*,\s*"(\w+)"', txt)
    excs = re.findall(r'(\w+)\s*=\s*PyErr_NewException', txt)
    if not funcs:
        raise EmuError("no PyMethodDef entries recognised in %s" % cfile)
    return funcs, consts, excs


# ------------------------------------------------------------------ the scripted world


def slot_value(record, i):
    """distinct value per (record, slot): record k, slot i -> 1000*k + 101 + i"""
    return 1000 * record + 101 + i


REC = {"oneshot": 1, "kinfo": 1, "taskinfo": 2, "basic": 1, "cred": 3, "pinfo": 1, "meminfo": 4,
       "cputimes": 5, "io": 6, "ctxsw": 7, "times": 8}


def rec(name, n):
    return tuple(slot_value(REC[name], i) for i in range(n))


class World:
    """state of the scripted native layer for ONE call of a Process method"""

    def __init__(self, emu, pid=42, fault_at=None, err=None, state="alive", pid0_listed=True,
                 sticky=False, fault2_at=None, err2=None, overrides=None, zcode=None, empty=()):
        self.emu = emu
        self.pid = pid
        self.fault_at = fault_at          # index in the native-call sequence, or None
        self.err = err                    # (errno, winerror|None)
        self.fault2_at = fault2_at        # a second, later index (two-fault sequences), or None
        self.err2 = err2
        self.overrides = overrides or {}  # native name -> script(world, *args) for this one case
        self.zcode = zcode                # native status-code NAME the record holds when state == "zombie" (default SZOMB)
        self.empty = frozenset(empty or ())   # native calls whose per-process list / dict / str answer comes back empty
        self.answers = []                 # per traced call: (name, about this process?, kind of collection answered | None)
        self.state = state                # seen by the probe primitives AFTER the fault fired
        self.pid0_listed = pid0_listed
        self.sticky = sticky              # the faulted *function* keeps failing afterwards
        self.sticky_name = None
        self.switched = False
        self.trace = []
        self.sleeps = 0
        self.slept = 0.0                  # total duration handed to time.sleep

    base_state = "alive"                  # what the pid is BEFORE the fault fires (block histories set it per step)
    base_zcode = None

    def cur_state(self):
        return self.state if self.switched else self.base_state


# yes/no questions about a path: one stat()/lstat() whose OSError is swallowed (genericpath.exists / isfile,
# posixpath.islink: `except (OSError, ValueError): return False`)
PATH_PROBES = ("os.path.exists", "os.path.isfile", "os.path.islink", "os.path.isdir", "os.path.lexists")


def about_pid(w, args):
    """is this native call a question about the scripted process (first argument = its pid, or a path below
    <procfs>/<pid>)?"""
    if not args:
        return False
    a = args[0]
    if isinstance(a, bool):
        return False
    if isinstance(a, int):
        return a == w.pid
    if isinstance(a, bytes):
        a = a.decode("latin-1")
    if isinstance(a, str):
        return a == "%s/%d" % (PROCFS, w.pid) or a.startswith("%s/%d/" % (PROCFS, w.pid))
    return False


def collection_kind(r):
    if isinstance(r, list):
        return "list"
    if isinstance(r, dict):
        return "dict"
    if isinstance(r, str):
        return "str"
    return None


def make_oserror(err, windows):
    eno, winerr = err
    e = OSError(eno, os.strerror(eno) + " (scripted by the C20 emulator)")
    if windows:
        # on a real Windows `OSError.winerror` always exists (None for errors raised from Python code)
        e.winerror = winerr
    return e


class NativeFn:
    def __init__(self, emu, name, script):
        self.emu, self.name, self.script = emu, name, script
        self.__name__ = name.split(".")[-1]

    def __call__(self, *a, **kw):
        w = self.emu.world
        if w is None:
            raise Unscripted("native call %s outside a scripted case" % self.name)
        idx = len(w.trace)
        w.trace.append(self.name)
        w.answers.append((self.name, about_pid(w, a), None))
        if idx == w.fault_at or (w.sticky and w.sticky_name == self.name):
            w.switched = True
            w.sticky_name = self.name
            if self.name in PATH_PROBES:
                return False        # the stat() inside the path question failed: swallowed, answered "no"
            raise make_oserror(w.err, self.emu.windows)
        if w.fault2_at is not None and idx == w.fault2_at:
            w.switched = True
            if self.name in PATH_PROBES:
                return False
            raise make_oserror(w.err2, self.emu.windows)
        script = w.overrides.get(self.name, self.script)
        if script is None:
            raise Unscripted(self.name)
        r = script(w, *a, **kw)
        kind = collection_kind(r)
        if kind is not None and w.answers[idx][1]:
            w.answers[idx] = (self.name, True, kind if len(r) else None)
            if self.name in w.empty:
                return type(r)()
        return r

    def __repr__(self):
        return "<scripted native %s>" % self.name


def _gone_err(w, procfs=False):
    return make_oserror((errno.ENOENT if procfs else errno.ESRCH, None), w.emu.windows)


class StatResult:
    def __init__(self, st_rdev=0, st_mode=_stat_mod.S_IFREG | 0o644):
        self.st_rdev = st_rdev
        self.st_mode = st_mode
        self.st_size = 0


# ------------------------------------------------------------------ per-platform scripts

TTY_NR = 777        # value of the tty slot
TTY_NAME = "/dev/ttyC20"
PROCFS = "/c20proc"


def scripts_for(emu):
    """name -> script(world, *args) for the native functions of this identity."""
    ident = emu.ident
    S = {}

    def const(name):
        return emu.consts[name]

    # ---- system-wide bits used by Process methods
    def pids(w, *a):
        base = [p for p in (1, 5) if p != w.pid]
        if w.pid0_listed:
            base.insert(0, 0)
        if w.pid != 0 and w.cur_state() != "gone":
            base.append(w.pid)
        return sorted(set(base))
    S["pids"] = pids
    S["per_cpu_times"] = lambda w, *a: [(11.0, 12.0, 13.0, 14.0, 15.0)[:emu.n_cputimes] for _ in range(2)]
    S["cpu_count_logical"] = lambda w, *a: 2
    S["check_pid_range"] = lambda w, pid: None
    S["set_debug"] = lambda w, *a: None
    S["getpagesize"] = lambda w, *a: 4096
    S["net_if_addrs"] = lambda w, *a: list(emu.netif_raw)
    S["getpriority"] = lambda w, pid: 9
    S["setpriority"] = lambda w, pid, v: None

    if ident in ("freebsd", "openbsd", "netbsd"):
        def oneshot(w, pid):
            st = w.cur_state()
            if st == "gone":
                raise _gone_err(w)
            r = list(rec("oneshot", 25))
            kmap = emu.mod.kinfo_proc_map
            r[kmap["status"]] = const(w.zcode or "SZOMB") if st == "zombie" else const("SRUN")
            r[kmap["ttynr"]] = TTY_NR
            r[kmap["name"]] = "c20proc"
            return tuple(r)
        S["proc_oneshot_info"] = oneshot

        def proc_name(w, pid):
            if w.cur_state() == "gone":
                raise _gone_err(w)
            return "c20proc"
        S["proc_name"] = proc_name
        S["proc_exe"] = lambda w, pid: "/usr/bin/c20proc"
        S["proc_cmdline"] = lambda w, pid: ["/usr/bin/c20proc", "-x"]
        S["proc_environ"] = lambda w, pid: {"A": "1"}
        S["proc_num_threads"] = lambda w, pid: 3
        S["proc_threads"] = lambda w, pid: [(1, 2.5, 3.5), (2, 4.5, 5.5)]
        conn = (7, socket.AF_INET, socket.SOCK_STREAM, ("10.0.0.1", 80), ("10.0.0.2", 9000), None)
        S["proc_net_connections"] = lambda w, pid, fams, types: [conn[:5] + (const("TCPS_LISTEN"),)]
        if ident == "netbsd":
            S["net_connections"] = lambda w, pid, kind: [conn[:5] + (const("TCPS_LISTEN"), pid)]
        else:
            S["net_connections"] = lambda w, pid, fams, types: [conn[:5] + (const("TCPS_LISTEN"), pid)]
        S["proc_cwd"] = lambda w, pid: "/home/c20"
        S["proc_open_files"] = lambda w, pid: [("/tmp/f1", 3), ("/tmp/f2", 4)]
        S["proc_num_fds"] = lambda w, pid: 6
        S["proc_cpu_affinity_get"] = lambda w, pid: [0, 1]
        S["proc_cpu_affinity_set"] = lambda w, pid, cpus: None
        S["proc_memory_maps"] = lambda w, pid: [("0x1-0x2", "r-x", "/lib/x.so", 1, 2, 3, 4)]
        S["proc_getrlimit"] = lambda w, pid, res: (31, 32)
        S["proc_setrlimit"] = lambda w, pid, res, soft, hard: None
        S["os.readlink"] = lambda w, p: "/usr/bin/c20proc"
    elif ident == "macos":
        def kinfo(w, pid):
            st = w.cur_state()
            if st == "gone":
                raise _gone_err(w)
            r = list(rec("kinfo", 11))
            kmap = emu.mod.kinfo_proc_map
            r[kmap["status"]] = const(w.zcode or "SZOMB") if st == "zombie" else const("SRUN")
            r[kmap["ttynr"]] = TTY_NR
            r[kmap["name"]] = "c20proc"
            return tuple(r)
        S["proc_kinfo_oneshot"] = kinfo
        S["proc_pidtaskinfo_oneshot"] = lambda w, pid: rec("taskinfo", 8)
        S["proc_name"] = lambda w, pid: "c20proc"
        S["proc_exe"] = lambda w, pid: "/usr/bin/c20proc"
        S["proc_cmdline"] = lambda w, pid: ["/usr/bin/c20proc", "-x"]
        S["proc_environ"] = lambda w, pid: "A=1\0B=2\0\0"
        S["proc_cwd"] = lambda w, pid: "/home/c20"
        S["proc_memory_uss"] = lambda w, pid: 999
        S["proc_open_files"] = lambda w, pid: [("/tmp/f1", 3), ("/tmp/f2", 4)]
        S["proc_net_connections"] = lambda w, pid, fams, types: [
            (7, socket.AF_INET, socket.SOCK_STREAM, ("10.0.0.1", 80), ("10.0.0.2", 9000), const("TCPS_LISTEN"))]
        S["proc_num_fds"] = lambda w, pid: 6
        S["proc_threads"] = lambda w, pid: [(1, 2.5, 3.5), (2, 4.5, 5.5)]
    elif ident in ("sunos", "aix"):
        n_basic = 12 if ident == "sunos" else 8

        def basic(w, pid, *a):
            r = list(rec("basic", n_basic))
            m = emu.mod.proc_info_map
            r[m["status"]] = const(w.zcode or "SZOMB") if w.cur_state() == "zombie" else const("SRUN" if ident == "sunos" else "SACTIVE")
            r[m["ttynr"]] = TTY_NR
            return tuple(r)
        S["proc_basic_info"] = basic
        S["proc_cred"] = lambda w, pid, *a: rec("cred", 6)
        S["proc_name_and_args"] = lambda w, pid, *a: ("c20proc", "/usr/bin/c20proc -x")
        S["proc_name"] = lambda w, pid, *a: "c20proc\x00\x00"
        S["proc_args"] = lambda w, pid: ["/usr/bin/c20proc", "-x"]
        S["proc_environ"] = lambda w, pid, *a: {"A": "1"}
        S["proc_cpu_times"] = lambda w, pid, *a: tuple(float(x) for x in rec("cputimes", 4))
        S["proc_cpu_num"] = lambda w, pid, *a: 1
        S["proc_num_ctx_switches"] = lambda w, pid, *a: rec("ctxsw", 2)
        S["query_process_thread"] = lambda w, pid, tid, *a: (2.5 + tid, 3.5 + tid)
        S["proc_threads"] = lambda w, pid: [(1, 2.5, 3.5), (2, 4.5, 5.5)]
        S["proc_io_counters"] = lambda w, pid: rec("io", 4)
        S["proc_memory_maps"] = lambda w, pid, *a: [(0x1000, 0x2000, "r-x", "a.out", 11, 12, 13),
                                                     (0x3000, 0x4000, "rw-", "[heap]", 21, 22, 23)]
        S["net_connections"] = lambda w, pid: [
            (7, socket.AF_INET, socket.SOCK_STREAM, ("10.0.0.1", 80), ("10.0.0.2", 9000), const("TCPS_LISTEN"), pid)]

        # in-memory procfs
        def _pidpath(p):
            p = os.fspath(p)
            if isinstance(p, bytes):
                p = p.decode()
            if not p.startswith(PROCFS):
                return None
            return [x for x in p[len(PROCFS):].split("/") if x]

        def os_stat(w, p, *a, **k):
            parts = _pidpath(p)
            if parts is None:
                if p == TTY_NAME:
                    tty = TTY_NR
                    if ident == "aix":
                        tty = ((TTY_NR & 0x0000FFFF00000000) >> 16) | (TTY_NR & 0xFFFF)
                    return StatResult(st_rdev=tty, st_mode=_stat_mod.S_IFCHR | 0o620)
                return StatResult()
            if parts and parts[0].isdigit() and w.cur_state() == "gone":
                raise _gone_err(w, procfs=True)
            return StatResult(st_mode=_stat_mod.S_IFDIR | 0o555)
        S["os.stat"] = os_stat

        def os_listdir(w, p):
            parts = _pidpath(p)
            isb = isinstance(p, bytes)
            if parts is None:
                raise Unscripted("os.listdir(%r)" % (p,))
            if not parts:
                out = [str(x) for x in pids(w)]
            elif parts[-1] == "fd":
                out = ["0", "1", "5"]
            elif parts[-1] == "lwp":
                out = ["1", "2"]
            else:
                raise Unscripted("os.listdir(%r)" % (p,))
            return [x.encode() for x in out] if isb else out
        S["os.listdir"] = os_listdir

        def os_readlink(w, p):
            parts = _pidpath(p)
            if parts is None:
                raise Unscripted("os.readlink(%r)" % (p,))
            leaf = parts[-1]
            if leaf == "a.out":
                return "/usr/bin/c20proc"
            if leaf == "cwd":
                return "/home/c20/" if ident == "aix" else "/home/c20"
            if leaf in ("0", "1", "2", "255"):
                return "/dev/pts/%s" % leaf if len(parts) >= 2 and parts[-2] == "path" and w.emu.in_terminal else "/tmp/fd%s" % leaf
            if leaf == "5":
                return "/tmp/fd5"
            return "/resolved/" + leaf
        S["os.readlink"] = os_readlink
        S["os.kill"] = lambda w, pid, sig: (_ for _ in ()).throw(_gone_err(w)) if w.cur_state() == "gone" else None
        S["os.path.exists"] = lambda w, p: not (_pidpath(p) and _pidpath(p)[0].isdigit() and w.cur_state() == "gone")
        S["os.path.lexists"] = S["os.path.exists"]
        S["os.path.isdir"] = lambda w, p: bool(_pidpath(p)) and len(_pidpath(p)) == 1 and _pidpath(p)[0].isdigit() \
            and w.cur_state() != "gone"      # <procfs>/<pid> itself
        S["os.path.islink"] = lambda w, p: True
        S["os.path.isfile"] = lambda w, p: True
        S["os.access"] = lambda w, p, mode: True
    elif ident == "windows":
        S["proc_info"] = lambda w, pid: rec("pinfo", 22)
        S["proc_exe"] = lambda w, pid: "\\Device\\HarddiskVolume1\\Windows\\c20proc.exe"
        S["QueryDosDevice"] = lambda w, raw: "C:"
        S["proc_cmdline"] = lambda w, pid, use_peb=True: ["c20proc.exe", "/x", "peb" if use_peb else "nopeb"]
        S["proc_environ"] = lambda w, pid: "A=1\0B=2\0\0"
        S["ppid_map"] = lambda w: {1: 0, 5: 1, w.pid: 7}
        S["proc_memory_info"] = lambda w, pid: rec("meminfo", 10)
        S["proc_memory_uss"] = lambda w, pid: 3
        S["proc_memory_maps"] = lambda w, pid: [(0x1000, "r", "\\Device\\HarddiskVolume1\\x.dll", 77)]
        S["proc_kill"] = lambda w, pid: None
        S["proc_wait"] = lambda w, pid, t: 0
        S["pid_exists"] = lambda w, pid: False
        S["proc_username"] = lambda w, pid: ("DOM", "user")
        S["proc_times"] = lambda w, pid: tuple(float(x) for x in rec("times", 3))
        S["proc_threads"] = lambda w, pid: [(1, 2.5, 3.5), (2, 4.5, 5.5)]
        S["proc_suspend_or_resume"] = lambda w, pid, flag: None
        S["proc_cwd"] = lambda w, pid: "C:\\Users\\c20\\"
        S["proc_open_files"] = lambda w, pid: ["\\Device\\HarddiskVolume1\\f1.txt"]
        S["net_connections"] = lambda w, pid, fams, types: [
            (7, socket.AF_INET, socket.SOCK_STREAM, ("10.0.0.1", 80), ("10.0.0.2", 9000),
             const("MIB_TCP_STATE_LISTEN"), pid)]
        S["proc_priority_get"] = lambda w, pid: KNOWN_CONST["HIGH_PRIORITY_CLASS"]
        S["proc_priority_set"] = lambda w, pid, v: None
        S["proc_io_priority_get"] = lambda w, pid: 2
        S["proc_io_priority_set"] = lambda w, pid, v: None
        S["proc_io_counters"] = lambda w, pid: rec("io", 6)
        S["proc_is_suspended"] = lambda w, pid: False
        S["proc_cpu_affinity_get"] = lambda w, pid: 0b101
        S["proc_cpu_affinity_set"] = lambda w, pid, mask: None
        S["proc_num_handles"] = lambda w, pid: 55
        S["os.kill"] = lambda w, pid, sig: None
    # posix wait
    S["os.waitpid"] = lambda w, pid, flags: (pid, 0)
    if "os.kill" not in S:
        S["os.kill"] = lambda w, pid, sig: (_ for _ in ()).throw(_gone_err(w)) if w.cur_state() == "gone" else None
    return S


OS_NATIVE = ["kill", "stat", "lstat", "readlink", "listdir", "waitpid", "access"]
OSPATH_NATIVE = ["exists", "islink", "isfile", "isdir", "lexists"]


class PathProxy:
    def __init__(self, emu, real):
        self._emu, self._real = emu, real
        for n in OSPATH_NATIVE:
            key = "os.path." + n
            if key in emu.scripts:
                setattr(self, n, NativeFn(emu, key, emu.scripts[key]))

    def __getattr__(self, n):
        return getattr(self._real, n)


class OsProxy:
    """stands in for the `os` module inside the alias package's modules"""

    def __init__(self, emu):
        self._emu = emu
        self.path = PathProxy(emu, ntpath if emu.windows else posixpath)
        self.name = "nt" if emu.windows else "posix"
        self.sep = self.path.sep
        self.environ = {"PATH": "/usr/bin:/bin"}
        for n in OS_NATIVE:
            key = "os." + n
            setattr(self, n, NativeFn(emu, key, emu.scripts.get(key)))

    def __getattr__(self, n):
        return getattr(os, n)


class TimeProxy:
    def __init__(self, emu):
        self._emu = emu
        self._t = 1000.0

    def sleep(self, s):
        w = self._emu.world
        if w is not None:
            w.sleeps += 1
            w.slept += s
        self._t += s

    def monotonic(self):
        return self._t

    def time(self):
        return self._t

    def __getattr__(self, n):
        return getattr(_time_mod, n)


class GlobProxy:
    def __init__(self, emu):
        self._emu = emu

    def glob(self, pat, **kw):
        return ["/dev/null", TTY_NAME]


class FakePopen:
    def __init__(self, emu, cmd, **kw):
        self.cmd = cmd
        self.returncode = 0

    def communicate(self):
        if "procfiles" in self.cmd[0]:
            return (b"42 : /usr/bin/c20proc\n  Current rlimit: 2000 file descriptors\n"
                    b"   3: S_IFREG mode:0644 dev:10,4 ino:1 uid:0 gid:0 rdev:0,0\n"
                    b"      O_RDONLY size:1  name:/tmp/f1\n"), b""
        return b"", b""


class SignalProxy:
    """`signal` as `_pswindows` / the front end see it on Windows: the two console events exist"""
    CTRL_C_EVENT = 0
    CTRL_BREAK_EVENT = 1

    def __getattr__(self, n):
        return getattr(signal, n)


class SubprocessProxy:
    PIPE = -1

    def __init__(self, emu):
        self._emu = emu

    def Popen(self, cmd, **kw):
        return FakePopen(self._emu, cmd, **kw)


# ------------------------------------------------------------------ the emulated package


class Emu:
    """One emulated platform identity: alias package + scripted native layer."""

    def __init__(self, pkg_dir, ident):
        assert ident in PLATFORM, ident
        self.pkg_dir = pkg_dir
        self.ident = ident
        self.sys_platform, self.os_name, self.modname, self.extname, self.cfile = PLATFORM[ident]
        self.windows = ident == "windows"
        self.alias = "psutil_c20_" + ident
        self.world = None
        self.in_terminal = False
        self.netif_raw = []
        self.consts = {}
        self.pkg = None
        self.mod = None
        self.n_cputimes = 5
        self.scripts = {}
        self.ext_funcs = []
        self.posix_funcs = []

    # ---- stub native modules
    def _version(self):
        with open(os.path.join(self.pkg_dir, "__init__.py"), encoding="utf-8") as f:
            m = re.search(r'^__version__\s*=\s*"([\d.]+)"', f.read(), re.M)
        if not m:
            raise EmuError("__version__ not found")
        return int(m.group(1).replace(".", ""))

    def _mk_stub(self, fullname, funcs, consts, excs):
        m = types.ModuleType(fullname)
        m.__file__ = "<C20 scripted stub of %s>" % fullname
        nxt = 1
        for c in consts:
            if c == "version":
                v = self._version()
            elif c in KNOWN_CONST:
                v = KNOWN_CONST[c]
            elif c == "RLIM_INFINITY":
                v = 2**63 - 1
            elif c in self.consts:
                v = self.consts[c]
            else:
                v = nxt
                nxt += 1
            self.consts[c] = v
            setattr(m, c, v)
        for e in excs:
            setattr(m, e, type(e, (Exception,), {}))
        for f in funcs:
            setattr(m, f, NativeFn(self, f, None))   # scripts attached after the import
        return m

    def load(self):
        if self.alias in sys.modules:
            raise EmuError("%s already loaded" % self.alias)
        D = DEFINES[self.ident]
        self.ext_funcs, ec, ee = ext_surface(self.pkg_dir, self.cfile, D)
        stubs = {self.extname: self._mk_stub(self.alias + "." + self.extname, self.ext_funcs, ec, ee)}
        if not self.windows:
            self.posix_funcs, pc, pe = ext_surface(self.pkg_dir, "_psutil_posix.c", D)
            stubs["_psutil_posix"] = self._mk_stub(self.alias + "._psutil_posix", self.posix_funcs, pc, pe)
        linux_ps = sys.modules.get("psutil")
        linux_plat = getattr(linux_ps, "_psplatform", None)
        spec = importlib.util.spec_from_file_location(
            self.alias, os.path.join(self.pkg_dir, "__init__.py"), submodule_search_locations=[self.pkg_dir])
        pkg = importlib.util.module_from_spec(spec)
        saved = (sys.platform, os.name)
        added = [self.alias]
        sys.modules[self.alias] = pkg
        for n, st in stubs.items():
            sys.modules[self.alias + "." + n] = st
            setattr(pkg, n, st)
            added.append(self.alias + "." + n)
        # a scripted world is needed already while importing (PAGESIZE = cext_posix.getpagesize())
        self.scripts = {"getpagesize": lambda w, *a: 4096}
        self._attach_scripts(stubs)
        self.world = World(self)
        try:
            sys.platform, os.name = self.sys_platform, self.os_name
            try:
                spec.loader.exec_module(pkg)
            finally:
                sys.platform, os.name = saved
        except BaseException as e:
            for n in list(sys.modules):
                if n == self.alias or n.startswith(self.alias + "."):
                    del sys.modules[n]
            raise EmuError("import of %s as %s failed: %s: %s" % (self.pkg_dir, self.ident, type(e).__name__, e))
        finally:
            self.world = None
        if (sys.platform, os.name) != saved:
            raise EmuError("sys.platform/os.name not restored")
        if sys.modules.get("psutil") is not linux_ps or getattr(linux_ps, "_psplatform", None) is not linux_plat:
            raise EmuError("the Linux psutil of this interpreter was disturbed by the emulation")
        self.pkg = pkg
        self.mod = pkg._psplatform
        if not self.mod.__name__.endswith(self.modname):
            raise EmuError("alias package picked %s, expected %s" % (self.mod.__name__, self.modname))
        self.common = sys.modules[self.alias + "._common"]
        self.n_cputimes = len(self.mod.scputimes._fields)
        self.scripts = scripts_for(self)
        self._attach_scripts(stubs)
        self._patch_modules()
        return self

    def _attach_scripts(self, stubs):
        for st in stubs.values():
            for n, f in vars(st).items():
                if isinstance(f, NativeFn):
                    f.script = self.scripts.get(n)

    def _patch_modules(self):
        """replace OS access of the alias modules by scripted proxies (from outside; no source hooks)"""
        osp = OsProxy(self)
        self.osproxy = osp
        tp = TimeProxy(self)
        names = [self.modname, "_psposix", "_common"]
        for n in names:
            m = sys.modules.get(self.alias + "." + n)
            if m is None:
                continue
            if hasattr(m, "os"):
                m.os = osp
            if hasattr(m, "time") and isinstance(m.time, types.ModuleType):
                m.time = tp
            if hasattr(m, "glob") and isinstance(m.glob, types.ModuleType):
                m.glob = GlobProxy(self)
            if hasattr(m, "subprocess") and isinstance(m.subprocess, types.ModuleType):
                m.subprocess = SubprocessProxy(self)
            if self.windows and n == self.modname and isinstance(getattr(m, "signal", None), types.ModuleType):
                m.signal = SignalProxy()
            if hasattr(m, "get_procfs_path"):
                m.get_procfs_path = lambda: PROCFS
            if n != "_common" and hasattr(m, "isfile_strict"):
                m.isfile_strict = lambda p: True
        psx = sys.modules.get(self.alias + "._psposix")
        if psx is not None:
            psx.get_terminal_map = lambda: {TTY_NR: TTY_NAME}
        if hasattr(self.pkg, "PROCFS_PATH"):
            self.pkg.PROCFS_PATH = PROCFS

    def unload(self):
        for n in list(sys.modules):
            if n == self.alias or n.startswith(self.alias + "."):
                del sys.modules[n]

    # ---- running one case
    def clear_caches(self):
        for n in (self.modname, "_psposix", "_common"):
            m = sys.modules.get(self.alias + "." + n)
            if m is None:
                continue
            for v in list(vars(m).values()):
                cc = getattr(v, "cache_clear", None)
                if callable(cc) and not isinstance(v, type):
                    try:
                        cc()
                    except TypeError:
                        pass
        if self.windows:
            self.mod._loadavg_inititialized = False
            self.mod._last_btime = 0

    def process_methods(self):
        """public methods of the platform module's Process class (what the front end calls)"""
        out = []
        for n, v in vars(self.mod.Process).items():
            if n.startswith("_") or not isinstance(getattr(v, "__wrapped__", v), types.FunctionType) \
                    and not isinstance(v, types.FunctionType):
                continue
            if n in ("oneshot_enter", "oneshot_exit"):
                continue
            out.append(n)
        return sorted(out)

    def method_args(self, meth):
        m = self.mod
        if meth == "nice_set":
            return (5,)
        if meth == "cpu_affinity_set":
            return ([0, 1],)
        if meth == "rlimit":
            return (self.consts.get("RLIMIT_NOFILE", 8),)
        if meth == "send_signal":
            return (signal.SIGTERM,)
        if meth == "wait":
            return (0.01,) if self.windows else (None,)
        if meth == "ionice_set":
            return (m.IOPriority.IOPRIO_NORMAL, 0)
        return ()

    def run(self, meth, pid=42, fault_at=None, err=None, state="alive", pid0_listed=True,
            name="c20cached", ppid=7, sticky=False, args=None, fault2_at=None, err2=None, zcode=None, empty=(),
            with_answers=False):
        """Call the platform module's Process(pid).<meth>() over a scripted world.
        Returns (observable, trace). Every exception is an observable."""
        self.clear_caches()
        w = World(self, pid, fault_at, err, state, pid0_listed, sticky, fault2_at, err2, zcode=zcode, empty=empty)
        self.world = w
        self.in_terminal = meth == "terminal"
        try:
            try:
                p = self.mod.Process(pid)
                p._name, p._ppid = name, ppid
                r = getattr(p, meth)(*(self.method_args(meth) if args is None else args))
                if isinstance(r, types.GeneratorType):
                    r = list(r)
                obs = {"kind": "value", "value": canon(r)}
            except Unscripted as e:
                obs = {"kind": "unscripted", "what": str(e)}
            except BaseException as e:  # noqa: BLE001 - every exception is an observable
                obs = canon_exc(e, self)
        finally:
            self.world = None
            self.in_terminal = False
        obs["sleeps"] = w.sleeps
        if w.sleeps:
            obs["slept"] = round(w.slept, 6)
        if with_answers:
            return obs, w.trace, w.answers
        return obs, w.trace

    def run_block(self, history, meth, pid=42, fault_k=None, err=None, state="alive", pid0_listed=True,
                  name="c20cached", ppid=7, zcode=None, exited=False):
        """One `oneshot()` block on ONE Process object: `oneshot_enter()`, then every (method, pid state) of `history`
        in order without fault (the pid is in that state while the call runs), then — after `oneshot_exit()` when
        `exited` — `meth` whose native call number `fault_k` (counted within that last call) raises `err`, the pid being
        in `state` from that moment on (before it: the state of the last history step).
        Returns (observable of the last call, [observables of the history], trace of the last call, [traces of the
        history calls])."""
        self.clear_caches()
        w = World(self, pid, None, err, state, pid0_listed, False, None, None, zcode=zcode)
        self.world = w
        hobs, htr = [], []
        p = None
        entered = False

        def one(m, args=None):
            try:
                r = getattr(p, m)(*(self.method_args(m) if args is None else args))
                if isinstance(r, types.GeneratorType):
                    r = list(r)
                return {"kind": "value", "value": canon(r)}
            except Unscripted as e:
                return {"kind": "unscripted", "what": str(e)}
            except BaseException as e:  # noqa: BLE001 - every exception is an observable
                return canon_exc(e, self)
        try:
            p = self.mod.Process(pid)
            p._name, p._ppid = name, ppid
            p.oneshot_enter()
            entered = True
            for m, st in history:
                w.base_state = st
                n0 = len(w.trace)
                self.in_terminal = m == "terminal"
                hobs.append(one(m))
                htr.append(w.trace[n0:])
            if exited:
                p.oneshot_exit()
                entered = False
            n0 = len(w.trace)
            if fault_k is not None:
                w.fault_at = n0 + fault_k
            self.in_terminal = meth == "terminal"
            cached = (getattr(p, "_name", None), getattr(p, "_ppid", None))   # what the object holds when the call starts
            obs = one(meth)
            obs["cached"] = cached
            tr = w.trace[n0:]
        finally:
            try:
                if entered:
                    w.fault_at = None
                    p.oneshot_exit()
            finally:
                self.world = None
                self.in_terminal = False
        obs["sleeps"] = w.sleeps
        return obs, hobs, tr, htr

    def call(self, fn, *a, world=None, **kw):
        """call any function of the alias package over a scripted world (system-wide functions)"""
        self.clear_caches()
        w = world or World(self)
        self.world = w
        try:
            try:
                return {"kind": "value", "value": canon(fn(*a, **kw))}, w.trace
            except Unscripted as e:
                return {"kind": "unscripted", "what": str(e)}, w.trace
            except BaseException as e:  # noqa: BLE001
                return canon_exc(e, self), w.trace
        finally:
            self.world = None


def canon_exc(e, emu):
    cls = type(e).__name__
    out = {"kind": "exc", "exc": cls}
    common = emu.common
    if isinstance(e, common.Error):
        out["psutil"] = True
        out["pid"] = getattr(e, "pid", None)
        out["name"] = getattr(e, "name", None)
        if isinstance(e, common.ZombieProcess):
            out["ppid"] = getattr(e, "ppid", None)
    elif isinstance(e, OSError):
        out["errno"] = e.errno
        out["winerror"] = getattr(e, "winerror", None)
    else:
        out["msg"] = str(e)[:200]
    return out


def canon(v):
    """JSON-able canonical form of a return value (namedtuples keep type name and field names)"""
    if isinstance(v, tuple) and hasattr(v, "_fields"):
        return {"nt": type(v).__name__, "fields": [[f, canon(x)] for f, x in zip(v._fields, v)]}
    if isinstance(v, enum.Enum):
        return {"enum": type(v).__name__, "name": v.name, "value": canon(v.value)}
    if isinstance(v, (list, tuple)):
        return [canon(x) for x in v]
    if isinstance(v, (set, frozenset)):
        return sorted((canon(x) for x in v), key=repr)
    if isinstance(v, dict):
        return {"dict": sorted(([canon(k), canon(x)] for k, x in v.items()), key=repr)}
    if isinstance(v, (int, float, str, bool)) or v is None:
        return v
    if isinstance(v, bytes):
        return {"bytes": v.hex()}
    return {"repr": repr(v)[:200]}


def load_all(pkg_dir, idents=IDENTS):
    return {i: Emu(pkg_dir, i).load() for i in idents}
