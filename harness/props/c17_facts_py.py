"""C17 translator, round 2: facts for Model/C17Py.lean.

  §16 users.c decode SHAPE        the text (whitespace removed) of what feeds each string slot of the tuple, of every
                                  call that mentions ut_user / ut_line / ut_host, how often they are mentioned, char locals
  §17 RootFsDeviceFinder          ast over _pslinux.py (normalised by ast.unparse, then matched)
  §18 net_if_stats()              ast over _pslinux.py + errno values + <linux/ethtool.h> + _common.NicDuplex
  §19 net_if_addrs() front end    ast over psutil/__init__.py

Contract of §16 — DIFFERENT from the other C17 facts on purpose: the extractors are TOTAL.  They never raise for a
shape they do not understand; they return the text they found (or an empty list), so that ANY decoding shape other
than `PyUnicode_DecodeFSDefaultAndSize(ut->F, strnlen(ut->F, sizeof(ut->F)))` changes the generated value and
`ushape_good` (Props/C17.lean) stops building.  (The older `userBounded`… facts are skipped — baseline kept — on an
unknown shape; that is how seeded change C17-2 slipped past the obligations and was only caught by the correspondence.)
"""
import ast
import errno
import re

from harness.common import extract
from harness.common.extract import NotRecognised, lean_bool, lean_bytes, lean_list, lean_nat, lean_str

UT_MEMBERS = ("ut_user", "ut_line", "ut_host")
C_KEYWORDS = {"if", "while", "for", "switch", "return", "sizeof"}


def _nows(s):
    return re.sub(r"\s+", "", s)


def _balanced(src, i):
    """index one past the ')' matching the '(' at src[i]"""
    depth = 0
    j = i
    instr = None
    while j < len(src):
        ch = src[j]
        if instr:
            if ch == "\\":
                j += 1
            elif ch == instr:
                instr = None
        elif ch in "\"'":
            instr = ch
        elif ch == "(":
            depth += 1
        elif ch == ")":
            depth -= 1
            if depth == 0:
                return j + 1
        j += 1
    return len(src)


def users_shape(body):
    """(slotExprs, fieldUses, mentions, charLocals) of the body of psutil_users — total, see module docstring."""
    # string slots of the tuple: the py_ variables given to Py_BuildValue
    slot_vars = []
    m = re.search(r"Py_BuildValue\s*\(\s*\"[^\"]*\"\s*\w*\s*,(.*?)\)\s*;", body, re.S)
    if m:
        for a in m.group(1).split(","):
            a = a.strip()
            if re.fullmatch(r"py_\w+", a):
                slot_vars.append(a)
    slot_exprs = []
    for v in slot_vars:
        rhs = []
        for mm in re.finditer(r"\b%s\s*=(?!=)\s*([^;]*);" % re.escape(v), body):
            e = _nows(mm.group(1))
            if e not in ("NULL", "0"):
                rhs.append(e)
        slot_exprs.append((v, rhs))
    # outermost calls mentioning one of the three members
    uses = []
    i = 0
    pat = re.compile(r"\b([A-Za-z_]\w*)\s*\(")
    while True:
        mm = pat.search(body, i)
        if not mm:
            break
        name = mm.group(1)
        op = mm.end() - 1
        if name in C_KEYWORDS:
            i = mm.end()
            continue
        end = _balanced(body, op)
        text = body[mm.start():end]
        if re.search(r"\b(?:%s)\b" % "|".join(UT_MEMBERS), text):
            uses.append(_nows(text))
        i = end
    mentions = [(f, len(re.findall(r"\b%s\b" % f, body))) for f in UT_MEMBERS]
    locs = [_nows(x) for x in re.findall(r"\bchar\s+\w+\s*\[[^\]]*\]", body)]
    return slot_exprs, uses, mentions, locs


# ---------------------------------------------------------------------------------- RootFsDeviceFinder

def _method(cls, name):
    for n in cls.body:
        if isinstance(n, ast.FunctionDef) and n.name == name:
            return n
    raise NotRecognised("RootFsDeviceFinder.%s not found" % name)


def rootfs_facts(tree):
    cls = extract.find_class(tree, "RootFsDeviceFinder")
    d = {}
    init = ast.unparse(_method(cls, "__init__"))
    init_ok = bool(re.search(r"self\.major = os\.major\(dev\)", init)) and bool(re.search(r"self\.minor = os\.minor\(dev\)", init)) \
        and bool(re.search(r"dev = os\.stat\('/'\)\.st_dev", init))
    pp = ast.unparse(_method(cls, "ask_proc_partitions"))
    m = re.search(r"for line in f\.readlines\(\)\[(\d+):\]:", pp)
    if not m:
        raise NotRecognised("ask_proc_partitions: readlines()[K:] not recognised")
    d["partSkip"] = int(m.group(1))
    if "fields = line.split()" not in pp:
        raise NotRecognised("ask_proc_partitions: fields = line.split() not recognised")
    m = re.search(r"if len\(fields\) < (\d+):\n\s+continue", pp)
    if not m:
        raise NotRecognised("ask_proc_partitions: field count guard not recognised")
    d["partMinFields"] = int(m.group(1))
    ma = re.search(r"major = int\(fields\[(\d+)\]\) if fields\[(\d+)\]\.isdigit\(\) else None", pp)
    mi = re.search(r"minor = int\(fields\[(\d+)\]\) if fields\[(\d+)\]\.isdigit\(\) else None", pp)
    na = re.search(r"name = fields\[(\d+)\]", pp)
    if not (ma and mi and na) or ma.group(1) != ma.group(2) or mi.group(1) != mi.group(2):
        raise NotRecognised("ask_proc_partitions: major/minor/name extraction not recognised")
    d["partMajorIdx"], d["partMinorIdx"], d["partNameIdx"] = int(ma.group(1)), int(mi.group(1)), int(na.group(1))
    cmp_ = re.search(r"if major == self\.(\w+) and minor == self\.(\w+):\n\s+if name:\n\s+return f'([^'{]*)\{name\}'", pp)
    if not cmp_:
        raise NotRecognised("ask_proc_partitions: comparison / return not recognised")
    orders = [[cmp_.group(1), cmp_.group(2)]]
    prefixes = [cmp_.group(3)]
    sd = ast.unparse(_method(cls, "ask_sys_dev_block"))
    m = re.search(r"path = f'/sys/dev/block/\{self\.(\w+)\}:\{self\.(\w+)\}/uevent'", sd)
    k = re.search(r"if line\.startswith\('([^']*)'\):\n\s+name = line\.strip\(\)\.rpartition\('([^']*)'\)\[2\]\n\s+if name:\n\s+return f'([^'{]*)\{name\}'", sd)
    if not (m and k):
        raise NotRecognised("ask_sys_dev_block not recognised")
    orders.append([m.group(1), m.group(2)])
    d["ueventKeys"] = [k.group(1), k.group(2)]
    prefixes.append(k.group(3))
    sc = ast.unparse(_method(cls, "ask_sys_class_block"))
    m = re.search(r"needle = f'\{self\.(\w+)\}:\{self\.(\w+)\}'", sc)
    k = re.search(r"data = f\.read\(\)\.strip\(\)\n\s+if data == needle:\n\s+name = os\.path\.basename\(os\.path\.dirname\(file\)\)\n\s+return f'([^'{]*)\{name\}'", sc)
    g = re.search(r"glob\.iglob\('/sys/class/block/\*/dev'\)", sc)
    fnf = re.search(r"except FileNotFoundError:\n\s+continue", sc)
    if not (m and k and g and fnf):
        raise NotRecognised("ask_sys_class_block not recognised")
    orders.append([m.group(1), m.group(2)])
    prefixes.append(k.group(1))
    d["devPrefixes"] = prefixes
    d["needleOrder"] = orders[0] if (init_ok and all(o == orders[0] for o in orders)) else ["mixed"]
    fd = _method(cls, "find")
    order = []
    for st in fd.body:
        if isinstance(st, ast.If) and ast.unparse(st.test) == "path is None":
            calls = [c for c in ast.walk(st) if isinstance(c, ast.Call) and extract.dotted(c.func).startswith("self.ask_")]
            handlers = [h for h in ast.walk(st) if isinstance(h, ast.ExceptHandler)]
            if len(calls) != 1 or len(handlers) != 1 or ast.unparse(handlers[0].type) != "OSError":
                raise NotRecognised("find(): step not recognised")
            order.append(extract.dotted(calls[0].func)[5:])
    d["order"] = order
    txt = ast.unparse(fd)
    d["existsCheck"] = bool(re.search(r"if path is not None and os\.path\.exists\(path\):\n\s+return path", txt))
    if not d["existsCheck"] and not re.search(r"return path", txt):
        raise NotRecognised("find(): return not recognised")
    return d


# ---------------------------------------------------------------------------------- net_if_stats

def ethtool_const(name, src_linux_c):
    with open("/usr/include/linux/ethtool.h", encoding="utf-8", errors="replace") as f:
        h = f.read()
    m = re.search(r"#\s*define\s+%s\s+(0x[0-9a-fA-F]+|\d+)" % re.escape(name), h)
    if m:
        return int(m.group(1), 0)
    m = re.search(r"#ifndef\s+%s\s+#define\s+%s\s+(0x[0-9a-fA-F]+|\d+)" % (name, name), src_linux_c)
    if m:
        return int(m.group(1), 0)
    raise NotRecognised("%s not found" % name)


def netifstats_facts(tree, common_tree, net_c, linux_c, c_function):
    fn = extract.find_def(tree, "net_if_stats")
    txt = ast.unparse(fn)
    d = {}
    # duplex_map = {cext.DUPLEX_FULL: NIC_DUPLEX_FULL, …}
    dm = None
    for n in ast.walk(fn):
        if isinstance(n, ast.Assign) and extract.dotted(n.targets[0]) == "duplex_map" and isinstance(n.value, ast.Dict):
            dm = n.value
    if dm is None:
        raise NotRecognised("duplex_map not found")
    enum = {}
    cls = extract.find_class(common_tree, "NicDuplex")
    for st in cls.body:
        if isinstance(st, ast.Assign):
            enum[st.targets[0].id] = extract.const(st.value)
    pairs = []
    for k, v in zip(dm.keys, dm.values):
        kd, vd = extract.dotted(k), extract.dotted(v)
        if not kd.startswith("cext.DUPLEX_") or vd not in enum:
            raise NotRecognised("duplex_map entry %s: %s" % (kd, vd))
        pairs.append((ethtool_const(kd[5:], linux_c), enum[vd]))
    d["duplexMap"] = pairs
    # the try body: calls in order
    tr = [n for n in ast.walk(fn) if isinstance(n, ast.Try)]
    if len(tr) != 1:
        raise NotRecognised("net_if_stats: try block not recognised")
    order = []
    for st in tr[0].body:
        calls = [c for c in ast.walk(st) if isinstance(c, ast.Call)]
        if len(calls) != 1 or [ast.unparse(a) for a in calls[0].args] != ["name"]:
            raise NotRecognised("net_if_stats: statement in try not recognised")
        order.append(extract.dotted(calls[0].func).split(".")[-1])
    d["callOrder"] = order
    h = tr[0].handlers
    if len(h) != 1 or ast.unparse(h[0].type) != "OSError":
        raise NotRecognised("net_if_stats: handler not recognised")
    m = re.search(r"if err\.errno != errno\.(\w+):\n\s+raise\n", ast.unparse(h[0]))
    if not m:
        raise NotRecognised("net_if_stats: errno test not recognised")
    d["skipErrno"] = getattr(errno, m.group(1))
    m = re.search(r"output_flags = '([^']*)'\.join\(flags\)", txt)
    if not m:
        raise NotRecognised("flags join not recognised")
    d["flagSep"] = m.group(1)
    if not re.search(r"ret\[name\] = _common\.snicstats\(isup, duplex_map\[duplex\], speed, mtu, output_flags\)", txt):
        raise NotRecognised("snicstats(...) argument order not recognised")
    # C: errno values tolerated by net_if_duplex_speed
    body = c_function(net_c, "psutil_net_if_duplex_speed")
    m = re.search(r"if\s*\(((?:\s*\(?\s*errno\s*==\s*\w+\s*\)?\s*(?:\|\|)?)+)\)\s*\{[^}]*duplex\s*=\s*(\w+)\s*;\s*speed\s*=\s*0\s*;", body)
    if not m:
        raise NotRecognised("net_if_duplex_speed: tolerated errno branch not recognised")
    d["ethTolerated"] = [getattr(errno, x) for x in re.findall(r"errno\s*==\s*(\w+)", m.group(1))]
    d["duplexUnknownC"] = ethtool_const(m.group(2), linux_c)
    return d


# ---------------------------------------------------------------------------------- net_if_addrs front end

def netifaddrs_facts(init_tree, pslinux_tree):
    fn = extract.find_def(init_tree, "net_if_addrs")
    txt = ast.unparse(fn)
    d = {}
    m = re.search(r"rawlist\.sort\(key=lambda x: x\[(\d+)\]\)", txt)
    d["sortKeyIdx"] = int(m.group(1)) if m else 0
    if not re.search(r"for \(?name, fam, addr, mask, broadcast, ptp\)? in rawlist:", txt):
        raise NotRecognised("net_if_addrs: row unpacking not recognised")
    m = re.search(r"if fam == _psplatform\.AF_LINK:\n\s+separator = '([^']*)' if POSIX else '[^']*'\n\s+while addr\.count\(separator\) < (\d+):\n\s+addr \+= f'\{separator\}([^'{]*)'", txt)
    if not m:
        raise NotRecognised("net_if_addrs: MAC padding loop not recognised")
    d["sep"], d["minSeps"], d["padText"] = m.group(1), int(m.group(2)), m.group(3)
    if not re.search(r"nt = _common\.snicaddr\(fam, addr, mask, broadcast, ptp\)", txt) or "ret[name].append(nt)" not in txt:
        raise NotRecognised("net_if_addrs: snicaddr / append not recognised")
    src = ast.unparse(pslinux_tree)
    if not (re.search(r"\{'AF_LINK': int\(socket\.AF_PACKET\)\}", src) and re.search(r"^AF_LINK = AddressFamily\.AF_LINK$", src, re.M)):
        raise NotRecognised("_pslinux.AF_LINK is not AddressFamily.AF_LINK = int(socket.AF_PACKET)")
    import socket
    d["afLink"] = int(socket.AF_PACKET)
    return d


# ---------------------------------------------------------------------------------- all facts

def facts(snap, F, c_source, c_function):
    cache = {}

    def memo(key, fn):
        if key not in cache:
            try:
                cache[key] = ("ok", fn())
            except Exception as e:
                cache[key] = ("err", e)
        st, v = cache[key]
        if st == "err":
            raise v
        return v

    def shape():
        def go():
            try:
                body = c_function(c_source(snap, "arch/linux/users.c"), "psutil_users")
            except Exception:
                return [], [], [(f, 0) for f in UT_MEMBERS], []
            return users_shape(body)
        return memo("shape", go)

    pair_ls = lambda p: "(%s, %s)" % (lean_str(p[0]), lean_list(p[1], lean_str))
    F.try_add("usersSlotExprs", "List (String × List String)", lambda: lean_list(shape()[0], pair_ls),
              "users.c: for each py_ string variable of the tuple, the right-hand sides assigned to it in the loop (whitespace removed)")
    F.try_add("usersFieldUses", "List String", lambda: lean_list(shape()[1], lean_str),
              "users.c: every outermost call expression that mentions ut_user / ut_line / ut_host (whitespace removed, source order)")
    F.try_add("usersMentions", "List (String × Nat)", lambda: lean_list(shape()[2], lambda p: "(%s, %d)" % (lean_str(p[0]), p[1])),
              "users.c: occurrences of each of the three members in psutil_users")
    F.try_add("usersCharLocals", "List String", lambda: lean_list(shape()[3], lean_str),
              "users.c: `char x[N]` locals of psutil_users (a bounded copy into a local changes the cut-at-width semantics)")

    pslinux = lambda: memo("pslinux", lambda: extract.parse_module(snap, "_pslinux.py"))
    rf = lambda: memo("rootfs", lambda: rootfs_facts(pslinux()))
    bl = lambda s: lean_bytes(s.encode())
    F.try_add("rootPartSkip", "Nat", lambda: lean_nat(rf()["partSkip"]), "ask_proc_partitions: f.readlines()[K:]")
    F.try_add("rootPartMinFields", "Nat", lambda: lean_nat(rf()["partMinFields"]), "ask_proc_partitions: if len(fields) < K: continue")
    F.try_add("rootPartMajorIdx", "Nat", lambda: lean_nat(rf()["partMajorIdx"]), "index of the major number in line.split()")
    F.try_add("rootPartMinorIdx", "Nat", lambda: lean_nat(rf()["partMinorIdx"]), "index of the minor number")
    F.try_add("rootPartNameIdx", "Nat", lambda: lean_nat(rf()["partNameIdx"]), "index of the device name")
    F.try_add("rootDevPrefixes", "List (List Nat)", lambda: lean_list(rf()["devPrefixes"], bl), "prefix of the returned path, per strategy")
    F.try_add("rootUeventKeys", "List (List Nat)", lambda: lean_list(rf()["ueventKeys"], bl), "ask_sys_dev_block: startswith(K0) / rpartition(K1)[2]")
    F.try_add("rootFindOrder", "List String", lambda: lean_list(rf()["order"], lean_str), "find(): strategies in the order tried (each under `if path is None`, OSError swallowed)")
    F.try_add("rootExistsCheck", "Bool", lambda: lean_bool(rf()["existsCheck"]), "find(): `path is not None and os.path.exists(path)`")
    F.try_add("rootNeedleOrder", "List String", lambda: lean_list(rf()["needleOrder"], lean_str),
              "the (self.major, self.minor) order every comparison / path / needle uses (and __init__ fills them from os.major / os.minor of os.stat('/').st_dev); [\"mixed\"] when they disagree")

    ns = lambda: memo("nis", lambda: netifstats_facts(pslinux(), memo("common", lambda: extract.parse_module(snap, "_common.py")),
                                                      c_source(snap, "arch/linux/net.c"), c_source(snap, "_psutil_linux.c"), c_function))
    F.try_add("nisEthTolerated", "List Nat", lambda: lean_list(ns()["ethTolerated"], lean_nat), "net_if_duplex_speed: errno values answered with (DUPLEX_UNKNOWN, 0)")
    F.try_add("nisDuplexUnknownC", "Nat", lambda: lean_nat(ns()["duplexUnknownC"]), "value of the duplex constant answered then")
    F.try_add("nisDuplexMap", "List (Nat × Nat)", lambda: lean_list(ns()["duplexMap"], lambda p: "(%d, %d)" % p), "net_if_stats(): duplex_map as (ethtool value, NicDuplex value)")
    F.try_add("nisSkipErrno", "Nat", lambda: lean_nat(ns()["skipErrno"]), "net_if_stats(): errno for which a NIC is skipped")
    F.try_add("nisCallOrder", "List String", lambda: lean_list(ns()["callOrder"], lean_str), "net_if_stats(): calls inside the try, in order")
    F.try_add("nisFlagSep", "List Nat", lambda: bl(ns()["flagSep"]), "net_if_stats(): separator of the flags string")

    na = lambda: memo("nifa", lambda: netifaddrs_facts(extract.parse_module(snap, "__init__.py"), pslinux()))
    F.try_add("nifaAfLink", "Int", lambda: str(na()["afLink"]), "psutil.AF_LINK on Linux (socket.AF_PACKET)")
    F.try_add("nifaSep", "Nat", lambda: lean_nat(ord(na()["sep"])), "net_if_addrs(): MAC separator on POSIX")
    F.try_add("nifaMinSeps", "Nat", lambda: lean_nat(na()["minSeps"]), "net_if_addrs(): while addr.count(sep) < K")
    F.try_add("nifaPadText", "List Nat", lambda: bl(na()["padText"]), "net_if_addrs(): text appended after the separator")
    F.try_add("nifaSortKeyIdx", "Nat", lambda: lean_nat(na()["sortKeyIdx"]), "net_if_addrs(): rawlist.sort(key=lambda x: x[K]) (0 when absent)")
