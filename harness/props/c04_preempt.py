"""C04 — deterministic bounded-pre-emption exploration of two threads using process_iter() at once.

Two real threads run small programs over the fake procfs of c04.Impl

    iter        out = [p for p in psutil.process_iter()]      (one next() per loop turn)
    iter attrs  out = [p for p in psutil.process_iter(attrs=[...])]   (programs attrs_name / attrs_name_warm)
    clear       psutil.process_iter.cache_clear()
    is_running  <object yielded by the warm-up iteration>.is_running()     (flags a recycled PID)

and a controller hands a baton between them. Scheduling points (`sys.settrace`, modelled on
c16_preempt.py):

  * every LINE executed in `psutil.process_iter` (generator body and its inner `add` / `remove`),
    in the `cache_clear` lambda and in `Process.is_running`;
  * every BYTECODE of those code objects that reads or writes one of the shared globals
    (`_pmap`, `_pids_reused`) and the bytecode after it (so that a thread can be stopped between
    loading the shared object and using it, and right after a store);
  * in `Process._init`: its entry and the line that reads the start time (`_get_ident`) — `_init`
    touches neither `_pmap` nor `_pids_reused`, these two points exist so that the table can change
    between the listing, `Process(pid)` and the read of `/proc/<pid>/stat`;
  * granularity "opcode": every bytecode of the first three (sampled only);
  * ITEM boundaries: the consumer loop of `iter` before each next().

Kernel events (exit / spawn / PID reuse) are injected by the controller at baton hand-overs. Explored:
every schedule with at most two pre-emptions

    A a points · [events] · B b points · [events] · A to the end · B to the end        (and B first)

for all (a, b) x a pool of event placements (thorough / search; quick: a stratified sample), and
the item-boundary schedules with three pre-emptions (A i items · B j items · A k items · B to the
end · A to the end, and B first; always all of them for small tables).

Directed schedules (programs with `attrs`, BOTH tiers, never sampled): the thread that iterates with attrs is parked at
every scheduling point between `Process(pid)` having succeeded inside `add(pid)` and the `as_dict` call of the same loop
turn (for a cached PID: at the `if attrs is not None` / `as_dict` lines), the kernel event "exit of that PID" is injected
at that hand-over, the other thread runs 0 / half / all of its points. So `add(pid)` succeeds, `as_dict` raises
NoSuchProcess and `remove(pid)` has to run for a PID that is in `new_pids`.

Oracle — written from the property statement only:
  * no exception escapes from process_iter() / cache_clear() / is_running();
  * the PIDs one iteration yields are strictly ascending (hence no duplicates);
  * each yielded PID was a listed PID at some moment between the start and the end of that iteration;
  * a PID that was listed, as the same process, during the whole iteration is yielded (a PID may be
    left out only if it vanished) — except a PID flagged by is_running() (known finding
    C04-flagged-pid-skipped, reported as such);
  * after both threads finished, a sequential process_iter() yields exactly the listed PIDs (twice in a
    row, the second time the very same objects), and nothing raises;
  * programs with `respawn`: before that sequential iteration every PID number that exited during the run is taken
    again by a process with ANOTHER start time. A Process object that process_iter() hands out for the FIRST time (never
    yielded before, to anybody) must describe the process that holds the PID now (`is_running()` True) — a cache entry
    left behind for a process that vanished before it was ever yielded is thereby a failing input;
  * an iteration with attrs=[names] yields objects whose `.info` has exactly those keys.

Item-boundary schedules are, in addition, put through the Lean model: there a run IS a history
`iter; iter; next g…` with kernel events in between (`Op.next g mid`, theorem C04_overlap_safety speaks
about exactly these), so PIDs and object-identity classes of every next() are compared with the model's.
"""
import dis
import sys
import threading

from harness.props import c16_sched

SHARED = {"_pmap", "_pids_reused"}
F_L19 = "C04-flagged-pid-skipped"
F_POP = "C04-reused-pop-race"
F_OVERLAP = "C04-overlap-identity"


class Drift(Exception):
    pass


def _nested_codes(code, acc):
    acc.add(code)
    for c in code.co_consts:
        if hasattr(c, "co_code") and c not in acc:
            _nested_codes(c, acc)
    return acc


def _shared_offsets(code):
    """offset -> "load" for the bytecodes that access a shared global, "after" for the bytecode after each"""
    out = {}
    prev_shared = False
    for ins in dis.get_instructions(code):
        if prev_shared:
            out[ins.offset] = "after"
        prev_shared = ins.opname in ("LOAD_GLOBAL", "STORE_GLOBAL", "DELETE_GLOBAL") and ins.argval in SHARED
        if prev_shared:
            out[ins.offset] = "load"
    return out


def _drain_lines(code):
    """line numbers of the drain loop's truth test (`while _pids_reused:`) and of `_pids_reused.pop()`"""
    test, pop = set(), set()
    ins = list(dis.get_instructions(code))
    for i, x in enumerate(ins):
        if x.opname == "LOAD_GLOBAL" and x.argval == "_pids_reused" and x.positions:
            nxt = ins[i + 1] if i + 1 < len(ins) else None
            if nxt is not None and nxt.opname in ("LOAD_ATTR", "LOAD_METHOD") and nxt.argval == "pop":
                pop.add(x.positions.lineno)
            elif nxt is not None and (nxt.opname.startswith("POP_JUMP") or nxt.opname == "TO_BOOL"):
                test.add(x.positions.lineno)
    return test, pop


class Explorer:
    def __init__(self, impl, gran="line"):
        c16_sched.ensure_opcode_tracing()
        self.impl = impl
        self.ps = impl.ps
        self.gran = gran
        ps = self.ps
        body = set()
        _nested_codes(ps.process_iter.__code__, body)
        body.add(ps.process_iter.cache_clear.__code__)
        body.add(ps.Process.is_running.__code__)
        self.body = body
        self.shared = {c: _shared_offsets(c) for c in body}
        self.gen_code = ps.process_iter.__code__
        self.test_lines, self.pop_lines = _drain_lines(self.gen_code)
        self.publish_lines = {ins.positions.lineno for ins in dis.get_instructions(self.gen_code)
                              if ins.opname == "STORE_GLOBAL" and ins.argval == "_pmap" and ins.positions}
        if not self.publish_lines:
            raise Drift("process_iter: no `_pmap = ...` statement found")
        self.asdict_lines = {ins.positions.lineno for ins in dis.get_instructions(self.gen_code)
                             if ins.opname in ("LOAD_ATTR", "LOAD_METHOD") and ins.argval == "as_dict" and ins.positions}
        if not self.asdict_lines:
            raise Drift("process_iter: no call of as_dict found")
        self.ptrace = None          # tid -> labels of the scheduling points passed (probe runs only)
        init = ps.Process._init.__code__
        self.init_code = init
        self.init_lines = set()
        for ins in dis.get_instructions(init):
            if ins.opname in ("LOAD_ATTR", "LOAD_METHOD") and ins.argval == "_get_ident" and ins.positions:
                self.init_lines.add(ins.positions.lineno)
        if not self.init_lines:
            raise Drift("Process._init: no call of _get_ident found")

    # ---- worker side -------------------------------------------------------------------
    def _tracer(self, frame, event, arg):
        if event != "call":
            return None
        code = frame.f_code
        if code in self.body:
            frame.f_trace_opcodes = True
            return self._local_body
        if code is self.init_code:
            if not self.free:
                self._point("points", ("init", "call", None))
            return self._local_init
        return None

    def _local_init(self, frame, event, arg):
        if event == "line" and frame.f_lineno in self.init_lines and not self.free:
            self._point("points", ("init", "ident", frame.f_locals.get("pid")))
        return self._local_init

    def _local_body(self, frame, event, arg):
        if frame.f_code is self.gen_code:
            self._fine_event(frame, event, arg)
        if self.free:
            return self._local_body
        if event == "line":
            self._last = (id(frame), frame.f_lasti)
            if self.ptrace is None:
                self._point("points")
            else:
                gen = frame.f_code is self.gen_code
                self._point("points", ("gen" if gen else frame.f_code.co_name,
                                       "as_dict" if gen and frame.f_lineno in self.asdict_lines else frame.f_lineno,
                                       frame.f_locals.get("pid") if gen else None))
        elif event == "opcode":
            kind = self.shared[frame.f_code].get(frame.f_lasti)
            if self.gran == "opcode" or kind is not None:
                if self._last != (id(frame), frame.f_lasti):
                    self._point("points", ("op", None, None))
            self._last = None
            if kind == "after" and frame.f_code is self.gen_code:
                # the drain loop: the truth test / the pop() happen now (no scheduling point before they complete
                # at line granularity)
                ln = frame.f_lineno
                if ln in self.test_lines or ln in self.pop_lines:
                    self.glog.append(("drain", self.tids.get(threading.get_ident()), "test" if ln in self.test_lines else "pop"))
        return self._local_body

    def _fine_event(self, frame, event, arg):
        """what THIS generator frame reads from the shared world, statement by statement (Lean: Model/C04Fine.lean):
        `_pmap` at the copy, the listing, the PIDs handed out by `_pids_reused.pop()`, NoSuchProcess at `add(pid)` /
        `as_dict`, and what it yields and finally publishes — read off the frame's own locals"""
        if event == "opcode" or self.fine is None:
            return
        rec = self.fine.get(id(frame))
        if rec is None:
            rec = self.fine[id(frame)] = {"frame": frame, "tid": self.tids.get(threading.get_ident()), "copy": None,
                                          "listing": None, "popped": [], "pop_err": False, "ls": None, "nsp": [],
                                          "yields": [], "pmap": None, "pending": False, "keep": [], "exc": None,
                                          "order": len(self.fine), "has_attrs": None}
        loc = frame.f_locals
        if rec["has_attrs"] is None and "attrs" in loc:
            rec["has_attrs"] = loc["attrs"] is not None        # the generator frame's own argument
        if event == "line":
            if rec["pending"]:                       # the `pop()` statement completed: its value is in `pid`
                rec["popped"].append(int(loc["pid"]))
            rec["pending"] = frame.f_lineno in self.pop_lines
            if rec["copy"] is None and "pmap" in loc:
                rec["copy"] = [(int(k), id(v)) for k, v in loc["pmap"].items()]
                rec["keep"].extend(loc["pmap"].values())
            if rec["listing"] is None and "a" in loc:
                rec["listing"] = sorted(int(x) for x in loc["a"])
            if frame.f_lineno in self.publish_lines and "pmap" in loc:
                # `_pmap = pmap` is about to run: this is the value published (afterwards the local and the global are
                # the SAME dict, which cache_clear() of another thread may empty)
                rec["pmap"] = [(int(k), id(v)) for k, v in loc["pmap"].items()]
            if rec["ls"] is None and "ls" in loc:
                rec["ls"] = [(int(k), None if v is None else id(v)) for k, v in loc["ls"]]
        elif event == "exception":
            name = arg[0].__name__
            if name == "KeyError" and frame.f_lineno in self.pop_lines:
                rec["pop_err"] = True
                rec["pending"] = False
            elif name == "NoSuchProcess":
                # `proc` still None: raised by Process(pid) inside add(pid); otherwise add(pid) succeeded (or the object
                # was cached) and the exception comes out of as_dict
                rec["nsp"].append((int(loc["pid"]), loc.get("proc") is None))
            elif name not in ("StopIteration", "GeneratorExit"):
                rec["exc"] = name
        elif event == "return":
            if arg is not None:                      # a `yield`
                rec["yields"].append((int(arg.pid), id(arg)))
                rec["keep"].append(arg)

    def _point(self, kind, where=None):
        tid = self.tids.get(threading.get_ident())
        if tid is None:
            return
        if self.ptrace is not None and kind == "points":
            self.ptrace.setdefault(tid, []).append(where)
        self.npoints[tid][kind] += 1
        mode, n = self.budget[tid]
        if mode is None:
            return
        if mode != kind:
            return
        if n > 0:
            self.budget[tid] = (mode, n - 1)
            return
        self.parked[tid] = True
        self.ctrl.set()
        self.go[tid].wait()
        self.go[tid].clear()

    def _worker(self, tid, prog):
        self.tids[threading.get_ident()] = tid
        log = self.log[tid] = []
        self.parked[tid] = True
        self.ctrl.set()
        self.go[tid].wait()
        self.go[tid].clear()
        sys.settrace(self._tracer)
        ps = self.ps
        try:
            for item in prog:
                v0 = self.version
                rec = {"item": item[0], "v0": v0}
                if item[0] == "iter" and len(item) > 1:
                    rec["attrs"] = item[1]
                log.append(rec)
                try:
                    if item[0] == "iter":
                        out = rec["out"] = []
                        attrs = list(item[1]) if len(item) > 1 and item[1] is not None else None
                        g = ps.process_iter() if attrs is None else ps.process_iter(attrs=list(attrs))
                        self.glog.append(("iter", tid, attrs))
                        while True:
                            self._point("items")
                            try:
                                p = next(g)
                            except StopIteration:
                                self.glog.append(("next", tid, None))
                                break
                            out.append((int(p.pid), self.impl._canon(p)))
                            info = None
                            if attrs is not None:
                                d = getattr(p, "info", None)
                                info = sorted(d.keys()) if isinstance(d, dict) else "<no info dict>"
                                if info != sorted(attrs):
                                    rec.setdefault("info_bad", []).append((int(p.pid), info))
                            self.glog.append(("next", tid, out[-1], info))
                    elif item[0] == "clear":
                        ps.process_iter.cache_clear()
                        self.glog.append(("clear", tid))
                    elif item[0] == "is_running":
                        obj = self.objs[item[1]]
                        rec["ret"] = bool(obj.is_running())
                        self.glog.append(("is_running", tid, item[1], rec["ret"]))
                except BaseException as e:  # noqa: BLE001 — every exception is an observable
                    if isinstance(e, (KeyboardInterrupt, SystemExit)):
                        raise
                    rec["exc"] = type(e).__name__
                    self.glog.append(("exc", tid, type(e).__name__))
                rec["v1"] = self.version
        finally:
            sys.settrace(None)
            self.done[tid] = True
            self.parked[tid] = True
            self.ctrl.set()

    # ---- controller side ---------------------------------------------------------------
    def _kev(self, ev):
        self.impl.kev(ev)
        self.version += 1
        self.tables.append({p["pid"]: p["start"] for p in self.impl.k.procs})
        self.glog.append(("kev", ev))

    def _grant(self, tid, mode, n, events):
        for ev in events:
            self._kev(ev)
        if self.done[tid]:
            return
        self.budget[tid] = (mode, n)
        self.parked[tid] = False
        self.ctrl.clear()
        self.go[tid].set()
        while not self.parked[tid]:
            if not self.ctrl.wait(20.0):
                raise Drift("thread %d neither finished nor reached a scheduling point" % tid)
            self.ctrl.clear()

    def run(self, prog, plan):
        """prog: dict(setup=[ops], warm=bool, flag=[pids], threads=[[items], [items]]);
        plan: list of (tid, mode, n, [events]); completed by 'thread 0 to the end, thread 1 to the end'."""
        impl = self.impl
        ps = self.ps
        impl.reset()
        self.version = 0
        self.free = False
        self._last = None
        self.tids, self.log = {}, {}
        self.glog = []
        self.tables = []
        self.objs = {}
        self.fine = {}
        for op in prog["setup"]:
            impl.kev(op["ev"])
        problem = None
        pre = []
        try:
            if prog.get("warm"):
                for p in ps.process_iter():
                    self.objs[int(p.pid)] = p
                    pre.append((int(p.pid), impl._canon(p)))
            for op in prog.get("after_warm", []):
                impl.kev(op["ev"])
            for pid in prog.get("flag", []):
                self.objs[pid].is_running()
        except Exception as e:  # noqa: BLE001
            return {"problem": "set-up raised %s" % type(e).__name__}
        self.tables.append({p["pid"]: p["start"] for p in impl.k.procs})
        nt = len(prog["threads"])
        self.go = {t: threading.Event() for t in range(nt)}
        self.parked = {t: False for t in range(nt)}
        self.done = {t: False for t in range(nt)}
        self.budget = {t: (None, None) for t in range(nt)}
        self.npoints = {t: {"points": 0, "items": 0} for t in range(nt)}
        self.ctrl = threading.Event()
        threads = [threading.Thread(target=self._worker, args=(t, p), daemon=True)
                   for t, p in enumerate(prog["threads"])]
        try:
            for t, th in enumerate(threads):
                th.start()
                while not self.parked[t]:
                    self.ctrl.wait(20.0)
                    self.ctrl.clear()
            for tid, mode, n, events in plan:
                self._grant(tid, mode, n, events)
            for tid in range(nt):
                self._grant(tid, None, None, [])
        except Drift as e:
            problem = str(e)
        finally:
            self.free = True
            for t in self.go:
                self.budget[t] = (None, None)
                self.go[t].set()
            for th in threads:
                th.join(20.0)
            if any(th.is_alive() for th in threads):
                problem = (problem or "") + " [a worker thread did not terminate]"
        # the sequential epilogue: (programs with `respawn`: every PID number that exited during the run is taken again,
        # with another start time, then) two more iterations
        final = []
        respawned = []
        final_check = []
        flagged_before_final = sorted(int(x) for x in getattr(ps, "_pids_reused", ()))
        if problem is None:
            handed_out = {c for _, c in pre}
            for lg in self.log.values():
                for rec in lg:
                    handed_out.update(c for _, c in rec.get("out", ()))
            if prog.get("respawn"):
                ever = set().union(*[set(tb) for tb in self.tables])
                for pid in sorted(ever - set(self.tables[-1])):
                    self._kev({"k": "spawn", "p": {"pid": pid, "start": RESPAWN_START + pid, "zombie": False,
                                                   "foreign": False, "status": "ok"}})
                    respawned.append(pid)
            first_objs = None
            for _ in range(3 if flagged_before_final else 2):
                try:
                    objs = list(ps.process_iter())
                    final.append([(int(p.pid), impl._canon(p)) for p in objs])
                    if first_objs is None:
                        first_objs = objs
                except Exception as e:  # noqa: BLE001
                    final.append({"exc": type(e).__name__})
                    break
            # afterwards (is_running() flags recycled PIDs: it must not run between the iterations judged above): does each
            # object of the first sequential iteration describe the process that holds its PID now, and had it been
            # handed out before?
            for p in first_objs or ():
                try:
                    alive = bool(p.is_running())
                except Exception as e:  # noqa: BLE001
                    alive = "exc:" + type(e).__name__
                final_check.append((int(p.pid), impl._canon(p) not in handed_out, alive))
        fine = []
        for rec in sorted(self.fine.values(), key=lambda r: r["order"]):
            fine.append({k: rec[k] for k in ("tid", "copy", "listing", "popped", "pop_err", "ls", "nsp", "yields", "pmap", "exc",
                                             "has_attrs")})
        self.fine = {}
        return {"problem": problem, "pre": pre, "logs": {str(t): self.log.get(t, []) for t in range(nt)}, "fine": fine,
                "glog": list(self.glog), "tables": [dict(t) for t in self.tables], "final": final,
                "flagged_before_final": flagged_before_final, "respawned": respawned, "final_check": final_check,
                "points": {str(t): dict(v) for t, v in self.npoints.items()},
                "listed_end": sorted(p["pid"] for p in impl.k.procs)}


def judge(prog, run):
    """→ list of (clause text, finding id or None); empty = every clause holds"""
    bad = []
    if run.get("problem"):
        return [("explorer: " + run["problem"], None)]
    tables = run["tables"]
    flaggers = set()
    for t, lg in run["logs"].items():
        for rec in lg:
            if rec["item"] == "is_running":
                flaggers.add(True)
    flag_pids = set(prog.get("flag", [])) | {it[1] for th in prog["threads"] for it in th if it[0] == "is_running"}
    for t, lg in run["logs"].items():
        for rec in lg:
            if "exc" in rec:
                fid = None
                if rec["exc"] == "KeyError" and rec["item"] == "iter" and flag_pids:
                    fid = F_POP
                bad.append(("thread %s: %s raised %s" % (t, rec["item"], rec["exc"]), fid))
                continue
            if rec["item"] != "iter":
                continue
            if rec.get("info_bad"):
                bad.append(("thread %s: process_iter(attrs=%r) yielded object(s) whose .info keys differ: %r"
                            % (t, rec.get("attrs"), rec["info_bad"]), None))
            pids = [p for p, _ in rec["out"]]
            if any(a >= b for a, b in zip(pids, pids[1:])):
                bad.append(("thread %s: yielded PIDs not strictly ascending: %r" % (t, pids), None))
            during = tables[rec["v0"]:rec["v1"] + 1]
            ever = set().union(*[set(tb) for tb in during])
            if set(pids) - ever:
                bad.append(("thread %s: yielded PID(s) %r never listed during the iteration"
                            % (t, sorted(set(pids) - ever)), None))
            always = {p for p in during[0] if all(tb.get(p) == during[0][p] for tb in during)}
            missing = always - set(pids)
            if missing:
                if missing <= flag_pids:
                    bad.append(("thread %s: listed PID(s) %r left out (flagged by is_running)" % (t, sorted(missing)), F_L19))
                else:
                    bad.append(("thread %s: PID(s) %r were listed during the whole iteration and not yielded (got %r)"
                                % (t, sorted(missing - flag_pids), pids), None))
    final = run["final"]
    listed = run["listed_end"]
    for i, f in enumerate(final):
        if isinstance(f, dict):
            bad.append(("sequential iteration after the threads raised %s" % f["exc"], None))
            return bad
    if final:
        seqs = final
        if run["flagged_before_final"]:
            # an iteration that starts with a flagged PID: region of the known finding; judged from the next one on
            if [p for p, _ in seqs[0]] != listed:
                bad.append(("sequential iteration started with flagged PID(s) %r and yielded %r of %r"
                            % (run["flagged_before_final"], [p for p, _ in seqs[0]], listed), F_L19))
            seqs = seqs[1:]
        if [p for p, _ in seqs[0]] != listed:
            bad.append(("after both threads finished a sequential process_iter() yielded %r, listed are %r"
                        % ([p for p, _ in seqs[0]], listed), None))
        elif len(seqs) > 1 and seqs[1] != seqs[0]:
            bad.append(("two sequential iterations in a row yielded different objects: %r then %r" % (seqs[0], seqs[1]), None))
    # "found recycled by is_running() -> replaced by a fresh object" (seeded round 5): a warm object on which is_running()
    # answered False during the run while a process holds its PID at the end (the number was recycled) must not be handed
    # out by ANY of the sequential iterations after the threads — whatever the other thread did meanwhile (an iteration in
    # flight republishing its private table, cache_clear()). Two iterating threads: region of C04-overlap-identity (the
    # stale entry is republished after the other iteration consumed the flag).
    warm_obj = dict(run.get("pre", ()))
    stale = {warm_obj[e[2]]: e[2] for e in run.get("glog", ())
             if e[0] == "is_running" and e[3] is False and e[2] in warm_obj and e[2] in listed}
    if stale and final:
        iterating = sum(1 for th in prog["threads"] if any(it[0] == "iter" for it in th))
        for n, seq in enumerate(final):
            again = sorted(p for p, c in seq if c in stale)
            if again:
                bad.append(("stale object kept: is_running() found PID(s) %r recycled during the run, yet sequential iteration "
                            "number %d after the threads still yields the very same object(s) for them" % (again, n + 1),
                            F_OVERLAP if iterating >= 2 else None))
                break
    if not run["flagged_before_final"]:
        for pid, first_time, alive in run.get("final_check", ()):
            if first_time and alive is not True and pid in listed:
                bad.append(("stale cache entry: after both threads finished%s a sequential process_iter() handed out for PID %d, "
                            "for the first time, a Process object that is not the process holding that PID now "
                            "(is_running() -> %r): an entry of a process that vanished before it was ever yielded was kept"
                            % (" and PID(s) %r were re-spawned with another start time" % (run.get("respawned"),)
                               if run.get("respawned") else "", pid, alive), None))
    return bad


# ------------------------------------------------------------------------------ programs and plans


def _sp(pid, start):
    return {"op": "kev", "ev": {"k": "spawn", "p": {"pid": pid, "start": start, "zombie": False, "foreign": False,
                                                   "status": "ok"}}}


def _ex(pid):
    return {"op": "kev", "ev": {"k": "exit", "pid": pid}}


BASE = [_sp(1, 101), _sp(5, 105), _sp(9, 109)]
EVENT_POOL = [
    [{"k": "exit", "pid": 5}],
    [{"k": "spawn", "p": {"pid": 7, "start": 300, "zombie": False, "foreign": False, "status": "ok"}}],
    [{"k": "exit", "pid": 9}, {"k": "spawn", "p": {"pid": 9, "start": 301, "zombie": False, "foreign": False,
                                                  "status": "ok"}}],
]

PROGS = [
    ("cold2", {"setup": BASE, "warm": False, "threads": [[["iter"]], [["iter"]]]}),
    ("warm2", {"setup": BASE, "warm": True, "threads": [[["iter"]], [["iter"]]]}),
    ("clear", {"setup": BASE, "warm": True, "threads": [[["iter"]], [["clear"]]]}),
    ("flag", {"setup": BASE, "warm": True, "after_warm": [_ex(5), _sp(5, 999)],
              "threads": [[["iter"]], [["is_running", 5], ["iter"]]]}),
    # seeded round 5: one thread iterates, the other finds PID 5 recycled and clears the cache (either order)
    ("flagclear", {"setup": BASE, "warm": True, "after_warm": [_ex(5), _sp(5, 999)],
                   "threads": [[["iter"]], [["is_running", 5], ["clear"]]]}),
    ("clearflag", {"setup": BASE, "warm": True, "after_warm": [_ex(5), _sp(5, 999)],
                   "threads": [[["iter"]], [["clear"], ["is_running", 5]]]}),
    ("flagged2", {"setup": BASE, "warm": True, "after_warm": [_ex(5), _sp(5, 999)], "flag": [5],
                  "threads": [[["iter"]], [["iter"]]]}),
    # attrs: `proc.info = proc.as_dict(...)` runs between add(pid) and the yield. Cold cache: every PID is NEW;
    # warm: 1, 5, 9 cached and 7 new, both threads with attrs. Epilogue: exited PID numbers re-spawned (see judge).
    ("attrs_name", {"setup": BASE, "warm": False, "respawn": True, "threads": [[["iter", ["name"]]], [["iter"]]]}),
    ("attrs_name_warm", {"setup": BASE, "warm": True, "after_warm": [_sp(7, 207)], "respawn": True, "full_sample": 2500,
                         "threads": [[["iter", ["name"]]], [["iter", ["name"]]]]}),
]
ATTRS_PROGS = {name for name, prog in PROGS if any(len(it) > 1 and it[0] == "iter" for th in prog["threads"] for it in th)}


def attrs_windows(labels):
    """labels: the scheduling points one thread passed (Explorer.ptrace). → [(pid, index, new)]: the points at which the
    thread, if parked THERE, stands between `Process(pid)` having read the start time inside add(pid) (new PID) — or the
    cached object having been taken from the to-do list — and the `as_dict` call of the same loop turn"""
    out = []
    ident_at = {}
    for i, lab in enumerate(labels):
        if lab is None:
            continue
        if lab[0] == "init" and lab[1] == "ident":
            ident_at[lab[2]] = i
        elif lab[0] == "gen" and lab[1] == "as_dict":
            pid = lab[2]
            j = ident_at.pop(pid, None)
            if j is not None:
                out.extend((pid, x, True) for x in range(j + 1, i + 1))
            else:
                out.extend((pid, x, False) for x in (i - 1, i))
    return out


def vanish_plans(ex, prog, full):
    """the directed schedules: thread t (iterating with attrs) is parked inside the window of PID p, `exit p` happens at
    that hand-over, the other thread runs 0 / half / all of its points (or had run some before); t then calls as_dict"""
    plans = []
    hits = 0
    for t, th in enumerate(prog["threads"]):
        if not any(it[0] == "iter" and len(it) > 1 and it[1] is not None for it in th):
            continue
        o = 1 - t
        ex.ptrace = {}
        try:
            probe = ex.run(prog, [(t, None, None, [])])     # t alone, on the cache as the program starts with it
            labels = ex.ptrace.get(t, [])
        finally:
            ex.ptrace = None
        if probe.get("problem"):
            continue
        no = probe["points"][str(o)]["points"]
        for pid, idx, new in attrs_windows(labels):
            hits += new
            ev = [{"k": "exit", "pid": pid}]
            plans.append([(t, "points", idx, []), (o, "points", 0, ev), (t, None, None, [])])
            plans.append([(t, "points", idx, []), (o, None, None, ev), (t, None, None, [])])
            plans.append([(o, "points", max(1, no // 3), []), (t, "points", idx, []), (o, None, None, ev), (t, None, None, [])])
            if full:
                plans.append([(t, "points", idx, []), (o, "points", no // 2, ev), (t, None, None, [])])
                plans.append([(o, "points", 2, []), (t, "points", idx, []), (o, "points", no // 2, ev), (t, None, None, [])])
                plans.append([(o, None, None, []), (t, "points", idx, []), (o, None, None, ev), (t, None, None, [])])
    return plans, hits


def two_preemption_plans(na, nb, events=True):
    """all (a, b), both orders, without kernel events; with each event set at either hand-over on the sub-lattice
    (a + 2b + variant) % 6 == 0"""
    out = []
    for first, second, n1, n2 in ((0, 1, na, nb), (1, 0, nb, na)):
        for a in range(n1 + 1):
            for b in range(n2 + 1):
                out.append([(first, "points", a, []), (second, "points", b, []), (first, None, None, [])])
                if events:
                    for k, evs in enumerate(EVENT_POOL):
                        if (a + 2 * b + 2 * k) % 6 == 0:
                            out.append([(first, "points", a, []), (second, "points", b, evs), (first, None, None, [])])
                        if (a + 2 * b + 2 * k + 1) % 6 == 0:
                            out.append([(first, "points", a, []), (second, "points", b, []), (first, None, None, evs)])
    return out


def item_plans(ia, ib):
    """A i items · B j items · A k items · B to the end · A to the end (and B first), with one event set at one
    of the three hand-overs"""
    out = []
    for first, second, n1, n2 in ((0, 1, ia, ib), (1, 0, ib, ia)):
        for i in range(n1 + 1):
            for j in range(n2 + 1):
                for k in range(0, n1 + 1 - i):
                    base = [(first, "items", i, []), (second, "items", j, []), (first, "items", k, []),
                            (second, None, None, [])]
                    out.append(base)
                    for evs in EVENT_POOL:
                        for pos in (1, 2, 3):
                            pl = list(base)
                            pl[pos] = pl[pos][:3] + (evs,)
                            out.append(pl)
    return out


def _stratified(plans, budget, rng):
    if len(plans) <= budget:
        return plans
    step = max(1, len(plans) // (budget // 2))
    keep = plans[::step]
    rest = rng.sample(plans, min(len(plans), budget - len(keep))) if budget > len(keep) else []
    return keep + rest


# ------------------------------------------------------------------------------ the Lean model on item-boundary runs


def model_history(prog, run):
    """the history (ops of c04.py) a run at item granularity amounts to, with the implementation's outputs"""
    h, outs = [], []
    for op in prog["setup"]:
        h.append(op)
        outs.append({"kind": "unit"})
    g = 0
    pre = run["pre"]
    if prog.get("warm"):
        h.append({"op": "iter", "attrs": None})
        outs.append({"kind": "gen", "g": 0})
        for pid, obj in pre:
            h.append({"op": "next", "g": 0, "mid": []})
            outs.append({"kind": "yield", "obj": obj, "pid": pid, "info": None})
        h.append({"op": "next", "g": 0, "mid": []})
        outs.append({"kind": "stop"})
        g = 1
    for op in prog.get("after_warm", []):
        h.append(op)
        outs.append({"kind": "unit"})
    step_of = {}
    if prog.get("warm"):
        base = len(prog["setup"]) + 1
        for i, (pid, obj) in enumerate(pre):
            step_of[pid] = base + i
    for pid in prog.get("flag", []):
        h.append({"op": "is_running", "at": step_of[pid]})
        outs.append({"kind": "bool", "v": False})
    gen_of = {}
    for e in run["glog"]:
        if e[0] == "kev":
            h.append({"op": "kev", "ev": e[1]})
            outs.append({"kind": "unit"})
        elif e[0] == "iter":
            gen_of[e[1]] = g
            h.append({"op": "iter", "attrs": e[2] if len(e) > 2 else None})
            outs.append({"kind": "gen", "g": g})
            g += 1
        elif e[0] == "next":
            h.append({"op": "next", "g": gen_of[e[1]], "mid": []})
            outs.append({"kind": "stop"} if e[2] is None else {"kind": "yield", "obj": e[2][1], "pid": e[2][0],
                                                               "info": e[3] if len(e) > 3 else None})
        elif e[0] == "clear":
            h.append({"op": "cache_clear"})
            outs.append({"kind": "unit"})
        elif e[0] == "is_running":
            h.append({"op": "is_running", "at": step_of[e[2]]})
            outs.append({"kind": "bool", "v": e[3]})
        elif e[0] == "exc":
            return None, None
    for f in run["final"]:
        if isinstance(f, dict):
            return None, None
        h.append({"op": "iter", "attrs": None})
        outs.append({"kind": "gen", "g": g})
        for pid, obj in f:
            h.append({"op": "next", "g": g, "mid": []})
            outs.append({"kind": "yield", "obj": obj, "pid": pid, "info": None})
        h.append({"op": "next", "g": g, "mid": []})
        outs.append({"kind": "stop"})
        g += 1
    return h, outs


def compare_with_model(ctx, batch):
    """batch: list of (tag, h, impl_outs). → list of (tag, step, impl, model)"""
    from harness.props import c04
    lines = []
    for _, h, _ in batch:
        lines.append({"op": "reset"})
        lines.extend(c04.model_line(o) for o in h)
    outs = ctx.driver().batch(lines) if lines else []
    diffs = []
    i = 0
    for tag, h, impl_outs in batch:
        i += 1
        cm, ci = c04.Canon(), c04.Canon()
        for step, (o, io) in enumerate(zip(h, impl_outs)):
            m = outs[i]
            i += 1
            mo = cm.out(m["model"])
            im = ci.out(io)
            if im != mo:
                diffs.append((tag, step, h[:step + 1], im, mo))
                i += len(h) - step - 1
                break
    return diffs, len(lines)


def drain_schedule(run):
    """the drain-loop steps of the two threads in the order they really happened"""
    return [(e[1], e[2]) for e in run["glog"] if e[0] == "drain"]


def compare_drain(ctx, items):
    """items: (tag, flagged set at the start, run). The real threads' drain-loop steps are replayed on the Lean
    drain model (`drainRun cfg.popGuarded`): KeyError out of process_iter() in thread t <-> the model's thread t
    ends in KeyError."""
    lines = [{"op": "drain_race", "set": fl, "sched": [bool(t) for t, _ in drain_schedule(run)]} for _, fl, run in items]
    outs = ctx.driver().batch(lines) if lines else []
    diffs = []
    for (tag, fl, run), m in zip(items, outs):
        mo = m["model"]
        for t, key in (("0", "a"), ("1", "b")):
            raised = any(rec.get("exc") == "KeyError" for rec in run["logs"].get(t, []))
            other = any("exc" in rec and rec.get("exc") != "KeyError" for rec in run["logs"].get(t, []))
            if other:
                continue
            if raised != (mo[key] == "KeyError") or (not raised and mo[key] != "done"):
                diffs.append((tag, drain_schedule(run), {"thread": t, "KeyError": raised}, mo))
                break
    return diffs, len(lines)


FINE_BASE = 1000000
RESPAWN_START = 7000


def fine_line(rec):
    """→ (driver line, what the real generator did) for one recorded generator run, or None when the run ended in an
    exception other than those the fine model knows"""
    if rec["copy"] is None or rec["exc"] is not None:
        return None
    ref = {}
    for pid, oid in rec["copy"]:
        ref.setdefault(oid, len(ref))

    def r(pid, oid):
        return ref[oid] if oid in ref else FINE_BASE + pid
    listing = rec["listing"] or []
    failed_new = {pid for pid, at_create in rec["nsp"] if at_create}       # NoSuchProcess out of Process(pid)
    failed_fill = {pid for pid, at_create in rec["nsp"] if not at_create}  # NoSuchProcess out of as_dict
    has_attrs = bool(rec.get("has_attrs"))
    ls = rec["ls"] or []
    touches = [{"create": None if (oid is None and pid in failed_new) else 0, "fill": pid not in failed_fill} for pid, oid in ls]
    line = {"op": "fine", "copy": [{"pid": pid, "ref": ref[oid]} for pid, oid in rec["copy"]], "listing": listing,
            "popped": rec["popped"], "pop_err": rec["pop_err"], "invalid": False, "has_attrs": has_attrs, "base": FINE_BASE,
            "touches": touches}
    real = {"todo": [[pid, None if oid is None else r(pid, oid)] for pid, oid in ls],
            "yields": [[pid, r(pid, oid)] for pid, oid in rec["yields"]],
            "published": None if rec["ls"] is None else sorted([pid, r(pid, oid)] for pid, oid in (rec["pmap"] or [])),
            "exc": None}
    return line, real


def compare_fine(ctx, items):
    """items: (tag, run). Every generator run of the real threads — whatever the schedule did between its statements — is
    put through the statement-granularity thread model with the values it really read (theorems C04_fine_*)."""
    lines, reals, tags = [], [], []
    for tag, run in items:
        for rec in run.get("fine", []):
            lr = fine_line(rec)
            if lr is None:
                continue
            lines.append(lr[0])
            reals.append(lr[1])
            tags.append(tag)
    outs = ctx.driver().batch(lines) if lines else []
    diffs = []
    stats = {"popped": 0, "new_pid_vanished": 0, "stale_copy": 0, "has_attrs": 0, "new_pid_vanished_after_init": 0,
             "cached_pid_vanished_at_as_dict": 0}
    for tag, line, real, m in zip(tags, lines, reals, outs):
        stats["popped"] += bool(line["popped"])
        stats["new_pid_vanished"] += any(t["create"] is None for t in line["touches"])
        if line["has_attrs"]:
            stats["has_attrs"] += 1
            lost = [(oid is None) for (pid, oid), t in zip(real["todo"], line["touches"])
                    if t["create"] is not None and not t["fill"]]
            stats["new_pid_vanished_after_init"] += any(lost)
            stats["cached_pid_vanished_at_as_dict"] += any(not x for x in lost)
        stats["stale_copy"] += bool({c["pid"] for c in line["copy"]} - set(line["listing"]))
        if "bad" in m:
            diffs.append((tag, line, real, m))
            continue
        mo = dict(m["model"])
        if mo.get("published") is not None:
            mo["published"] = sorted(mo["published"])
        if mo != real:
            diffs.append((tag, line, real, mo))
    return diffs, len(lines), stats


# ------------------------------------------------------------------------------ entry points


def known_ids(ctx):
    return {f["id"] for f in ctx.findings}


def explore(ctx, res, impl, full=False, budget=60):
    """Runs the exploration on `impl` (a c04.Impl). Records 'spec' disagreements (first violating
    schedule per program and clause family) and 'model' disagreements of the item-boundary runs."""
    old = sys.getswitchinterval()
    kids = known_ids(ctx)
    total = 0
    model_batch = []
    drain_batch = []
    fine_batch = []

    def flush():
        fdiffs, nlf, fstats = compare_fine(ctx, fine_batch)
        res.count("preempt_fine_generator_runs", nlf)
        for k, v in fstats.items():
            res.count("preempt_fine:" + k, v)
        res.extra["driver_lines"] = res.extra.get("driver_lines", 0) + nlf
        for (pname, gran, plan), line, real, mo in fdiffs[:2]:
            res.disagree("model", {"preempt": {"program": pname, "gran": gran, "plan": plan}, "fine": line}, real, mo, None,
                         note="a generator run of a real thread (statement granularity): to-do list / yields / published map "
                              "differ from the Lean thread model fineRun fed with the values the thread really read")
        del fine_batch[:]
        diffs, nl = compare_with_model(ctx, model_batch)
        res.count("preempt_model_histories", len(model_batch))
        res.extra["driver_lines"] = res.extra.get("driver_lines", 0) + nl
        for (pname, plan), step, hist, im, mo in diffs[:2]:
            res.disagree("model", {"preempt": {"program": pname, "gran": "line", "plan": plan}, "history": hist}, im, mo, None,
                         note="item-boundary schedule of two threads: step %d differs from the Lean model run on the "
                              "same history" % step)
        ddiffs, nl2 = compare_drain(ctx, drain_batch)
        res.count("preempt_drain_schedules", len(drain_batch))
        res.extra["driver_lines"] = res.extra.get("driver_lines", 0) + nl2
        for (pname, plan), sched, im, mo in ddiffs[:2]:
            res.disagree("model", {"preempt": {"program": pname, "gran": "line", "plan": plan}, "drain_schedule": sched}, im, mo,
                         None, note="the drain-loop steps of the two real threads, replayed on the Lean drain model "
                                    "(drainRun cfg.popGuarded), give another verdict about KeyError")
        del model_batch[:]
        del drain_batch[:]
    try:
        ex = Explorer(impl, "line")
        exo = Explorer(impl, "opcode")
        for pname, prog in PROGS:
            solo = ex.run(prog, [])
            if solo.get("problem"):
                res.disagree("model", {"preempt": {"program": pname, "plan": "solo"}}, solo["problem"], None, None,
                             note="bounded-pre-emption explorer could not run the program: " + solo["problem"])
                continue
            na, nb = solo["points"]["0"]["points"], solo["points"]["1"]["points"]
            ia, ib = solo["points"]["0"]["items"], solo["points"]["1"]["items"]
            res.count("preempt_points:%s" % pname, na + nb)
            reported = set()
            plans2 = two_preemption_plans(na + 2, nb + 2, events=True)
            plans3 = item_plans(ia, ib)
            directed = pname in ATTRS_PROGS
            if not full:
                # the attrs programs get their directed schedules in full; the undirected sample is halved for them
                plans2 = _stratified(plans2, budget // 2 if directed else budget, ctx.rng)
                plans3 = _stratified(plans3, max(10, budget // (6 if directed else 3)), ctx.rng)
            elif prog.get("full_sample"):
                # thorough-tier budget: this program's two-pre-emption lattice is sampled (its directed and item-boundary
                # schedules are complete); said so in `preempt_exhaustive`
                plans2 = _stratified(plans2, prog["full_sample"], ctx.rng)
            plansv = []
            if directed:
                plansv, nwin = vanish_plans(ex, prog, full)
                res.count("preempt_vanish_windows:%s" % pname, nwin)
                if not nwin:
                    res.disagree("model", {"preempt": {"program": pname, "plan": "probe"}}, "no window", None, None,
                                 note="bounded-pre-emption explorer: no scheduling point found between Process(pid) inside "
                                      "add(pid) and the as_dict call of process_iter(attrs=...) — the directed schedules "
                                      "(new PID vanishes after Process._init) cannot be placed any more")
            oso = exo.run(prog, [])
            oa, ob = oso["points"]["0"]["points"], oso["points"]["1"]["points"]
            nop = (budget * 4) if full else max(6, budget // (12 if directed else 6))
            planso = [[(f, "points", ctx.rng.randrange(n1 + 1), []), (1 - f, "points", ctx.rng.randrange(n2 + 1),
                                                                  ctx.rng.choice(EVENT_POOL + [[]])),
                       (f, None, None, [])]
                      for f, n1, n2 in [((0, oa, ob) if ctx.rng.random() < 0.5 else (1, ob, oa)) for _ in range(nop)]]
            vanished_after_init = 0
            for kind, explorer, plans in (("vanish-after-init", ex, plansv), ("2-switch", ex, plans2),
                                          ("item-3-switch", ex, plans3), ("opcode-2-switch", exo, planso)):
                if kind == "2-switch" and directed and plansv and not vanished_after_init:
                    res.disagree("model", {"preempt": {"program": pname, "plan": "vanish-after-init"}}, 0, None, None,
                                 note="bounded-pre-emption explorer: none of the %d directed schedules made as_dict raise "
                                      "NoSuchProcess for a PID whose Process(pid) had just succeeded — the path add(pid) ok → "
                                      "as_dict NoSuchProcess → remove(pid) is no longer exercised" % len(plansv))
                for plan in plans:
                    run = explorer.run(prog, plan)
                    if kind == "vanish-after-init":
                        hit = any(r.get("has_attrs") and any(not c for _, c in r["nsp"]) and r["ls"] is not None
                                  and any(oid is None and (pid, False) in r["nsp"] for pid, oid in r["ls"])
                                  for r in run.get("fine", []))
                        vanished_after_init += hit
                        res.count("preempt_directed:new_pid_vanished_after_init", int(hit))
                    total += 1
                    res.count("preempt:%s:%s" % (pname, kind))
                    res.case(("preempt", pname, kind, plan), nontrivial=True)
                    for why, fid in judge(prog, run):
                        key = (fid, why.split(":")[0])
                        inp = {"preempt": {"program": pname, "gran": explorer.gran, "plan": plan}}
                        if fid is not None and fid in kids:
                            res.known_seen[fid] = res.known_seen.get(fid, 0) + 1
                            res.count("in_region:" + fid)
                            continue
                        if key in reported and not full:
                            continue
                        reported.add(key)
                        res.disagree("spec", inp, {"logs": run.get("logs"), "final": run.get("final")}, None,
                                     {"clause": why},
                                     note="bounded-pre-emption exploration of process_iter() (oracle from the statement): " + why)
                    if not run.get("problem"):
                        fine_batch.append(((pname, explorer.gran, plan), {"fine": run.get("fine", [])}))
                    if pname == "flagged2" and explorer.gran == "line" and not run.get("problem"):
                        drain_batch.append(((pname, plan), list(prog["flag"]),
                                            {"glog": [e for e in run["glog"] if e[0] == "drain"], "logs": run["logs"]}))
                    if kind == "item-3-switch" and not run.get("problem"):
                        h, outs = model_history(prog, run)
                        if h is not None:
                            model_batch.append(((pname, plan), h, outs))
                    if len(model_batch) + len(drain_batch) >= 1500 or len(fine_batch) >= 1500:
                        flush()
        flush()
        res.extra["preempt_schedules"] = res.extra.get("preempt_schedules", 0) + total
        if full:
            res.extra["preempt_exhaustive"] = (
                "every schedule with at most two pre-emptions of %d two-thread programs at line + shared-global-bytecode "
                "granularity without kernel events, and with each of %d event sets at either hand-over on a 1/6 sub-lattice "
                "of (a, b); every item-boundary schedule with three pre-emptions x event placements (also run through the "
                "Lean model); opcode granularity sampled; programs %r: a stratified sample of the two-pre-emption lattice instead; "
                "programs %r: in addition every directed schedule 'exit of PID p while the attrs thread stands between "
                "Process(p) inside add(p) and as_dict' (also in the quick tier)"
                % (len([1 for _, pr in PROGS if not pr.get("full_sample")]), len(EVENT_POOL),
                   sorted(n for n, pr in PROGS if pr.get("full_sample")), sorted(ATTRS_PROGS)))
    finally:
        sys.setswitchinterval(old)
    return total


def replay(ctx, rp, res):
    from harness.props import c04
    p = rp["input"]["preempt"]
    prog = dict(PROGS)[p["program"]]
    impl = c04.Impl(ctx)
    try:
        ex = Explorer(impl, p.get("gran", "line"))
        plan = [tuple(x) for x in p["plan"]]
        run = ex.run(prog, plan)
        kids = known_ids(ctx)
        for why, fid in judge(prog, run):
            if fid is None or fid not in kids:
                return True
        if rp["input"].get("fine"):
            diffs, _, _ = compare_fine(ctx, [((p["program"], p.get("gran", "line"), plan), run)])
            return bool(diffs)
        if rp["input"].get("history"):
            h, outs = model_history(prog, run)
            if h is not None:
                diffs, _ = compare_with_model(ctx, [((p["program"], plan), h, outs)])
                return bool(diffs)
        return False
    finally:
        impl.close()


def check_finding_pop(ctx, impl):
    """does the `_pids_reused.pop()` race still raise KeyError out of process_iter()?"""
    ex = Explorer(impl, "line")
    prog = dict(PROGS)["flagged2"]
    solo = ex.run(prog, [])
    na = solo["points"]["0"]["points"]
    for a in range(na + 1):
        run = ex.run(prog, [(0, "points", a, []), (1, None, None, [])])
        for why, fid in judge(prog, run):
            if fid == F_POP:
                return {"program": "flagged2", "gran": "line", "plan": [(0, "points", a, []), (1, None, None, [])], "why": why}
    return None
