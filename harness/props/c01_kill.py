"""C01, seeded round C01-8 — the pid argument of EVERY kill(2) the package can issue.

Translator: `kill_facts` lists every call site through which a function of the package (the modules loaded on Linux)
hands its PID to `os.kill` or to a package function that transitively does, with the sign classes {neg, zero, pos} of
that PID for which control reaches the call (abstract interpretation of the guards that dominate it, short-circuit
operators included), and the public entry points.  Model/C01Kill.lean walks that graph; obligation `kcfg_good`.

Correspondence: family `entry` — public calls that take a caller-chosen integer (psutil.pid_exists(n), psutil.Process(n))
on simulated process tables, with an `os.kill` recorder that logs EVERY call (signal 0 included, before any errno);
the kill(2) pid arguments are compared with `killsOf` of the model and judged by Spec/C01Kill.lean (`noGroupKillB`,
decided in Lean on the list the real call produced).

This module does not import c01.py (c01.py imports it); the `Impl` instance is handed in.
"""
import ast
import errno
import os

from harness.common import extract

MODS = ["__init__.py", "_common.py", "_pslinux.py", "_psposix.py"]          # what `import psutil` loads on Linux
ALIAS = {"_psplatform": "_pslinux.py", "_pslinux": "_pslinux.py", "_psposix": "_psposix.py", "_common": "_common.py"}
PLATFORM = {"POSIX": True, "LINUX": True, "WINDOWS": False, "MACOS": False, "OSX": False, "FREEBSD": False,
            "OPENBSD": False, "NETBSD": False, "BSD": False, "SUNOS": False, "AIX": False}
CLS = ("neg", "zero", "pos")
SAMPLES = {"neg": (-1, -2, -7, -10 ** 9), "zero": (0,), "pos": (1, 2, 7, 10 ** 9)}
DRIVER_FILE = os.path.join("Driver", "C01Kill.lean")


# ------------------------------------------------------------------------------ translator

class Fn:
    def __init__(self, mod, qual, node, cls):
        self.mod, self.qual, self.node, self.cls = mod, qual, node, cls
        self.name = "%s:%s" % (mod, qual)
        a = node.args
        self.params = [x.arg for x in a.posonlyargs + a.args + a.kwonlyargs]
        self.is_method = cls is not None and bool(self.params) and self.params[0] in ("self", "cls")
        self.has_pid_param = "pid" in self.params
        self.defaults = {}
        pos = a.posonlyargs + a.args
        for p, d in zip(pos[len(pos) - len(a.defaults):], a.defaults):
            self.defaults[p.arg] = d
        for p, d in zip(a.kwonlyargs, a.kw_defaults):
            if d is not None:
                self.defaults[p.arg] = d
        # names that hold the function's own PID (flow-insensitive): the parameter `pid`, or `self.pid` and its copies
        self.aliases = {"pid"} if self.has_pid_param else set()
        changed = True
        while changed:
            changed = False
            for n in ast.walk(node):
                if isinstance(n, ast.Assign) and len(n.targets) == 1:
                    pairs = []
                    t, v = n.targets[0], n.value
                    if isinstance(t, ast.Name):
                        pairs.append((t, v))
                    elif isinstance(t, ast.Tuple) and isinstance(v, ast.Tuple) and len(t.elts) == len(v.elts):
                        pairs.extend(zip(t.elts, v.elts))
                    for tt, vv in pairs:
                        if isinstance(tt, ast.Name) and tt.id not in self.aliases and self.own(vv):
                            self.aliases.add(tt.id)
                            changed = True

    def own(self, e):
        if isinstance(e, ast.Name):
            return e.id in self.aliases
        if isinstance(e, ast.Attribute) and e.attr == "pid" and isinstance(e.value, ast.Name) and e.value.id == "self":
            return self.is_method and not self.has_pid_param
        return False


def _functions(snap):
    fns = {}
    imports = {}
    for mod in MODS:
        try:
            tree = extract.parse_module(snap, mod)
        except OSError:
            continue
        imports[mod] = {}
        for n in ast.walk(tree):
            if isinstance(n, ast.ImportFrom) and n.level == 1 and n.module:
                for a in n.names:
                    imports[mod][a.asname or a.name] = (n.module + ".py", a.name)

        def visit(node, qual, cls):
            for ch in ast.iter_child_nodes(node):
                if isinstance(ch, ast.ClassDef):
                    q = (qual + "." if qual else "") + ch.name
                    visit(ch, q, q)
                elif isinstance(ch, (ast.FunctionDef, ast.AsyncFunctionDef)):
                    q = (qual + "." if qual else "") + ch.name
                    f = Fn(mod, q, ch, cls)
                    fns.setdefault(f.name, f)
                    visit(ch, q, None)
                elif not isinstance(ch, ast.expr):
                    visit(ch, qual, cls)
        visit(tree, "", None)
    return fns, imports


def _resolve(fn, func, fns, imports):
    """qualified name of the package function (or "os.kill") a call's callee expression denotes, or None"""
    d = extract.dotted(func)
    if d == "os.kill":
        return "os.kill"
    if isinstance(func, ast.Name):
        if func.id in fn.defaults:
            return _resolve_default(fn, fn.defaults[func.id], fns, imports)
        if func.id in fn.params:
            return None
        cand = "%s:%s" % (fn.mod, func.id)
        if cand in fns:
            return cand
        imp = imports.get(fn.mod, {}).get(func.id)
        if imp and "%s:%s" % imp in fns:
            return "%s:%s" % imp
        if func.id == "kill" and imports.get(fn.mod, {}).get("kill") is None:
            return None
        return None
    if isinstance(func, ast.Attribute) and isinstance(func.value, ast.Name):
        base = func.value.id
        if base in ALIAS and "%s:%s" % (ALIAS[base], func.attr) in fns:
            return "%s:%s" % (ALIAS[base], func.attr)
        if base in ("self", "cls") and fn.cls:
            cand = "%s:%s.%s" % (fn.mod, fn.cls, func.attr)
            if cand in fns:
                return cand
    return None


def _resolve_default(fn, d, fns, imports):
    if extract.dotted(d) == "os.kill":
        return "os.kill"
    if isinstance(d, ast.Name):
        cand = "%s:%s" % (fn.mod, d.id)
        return cand if cand in fns else None
    if isinstance(d, ast.Attribute) and isinstance(d.value, ast.Name) and d.value.id in ALIAS:
        cand = "%s:%s" % (ALIAS[d.value.id], d.attr)
        return cand if cand in fns else None
    return None


def _pid_arg(call, callee_fn):
    """the expression the call hands to the callee's PID (first positional argument / keyword `pid`), or None"""
    for kw in call.keywords:
        if kw.arg == "pid":
            return kw.value
    if call.args:
        return call.args[0]
    return None


class _Reach:
    """sign classes of the function's own PID for which control reaches each call of interest"""

    def __init__(self, fn, wanted):
        self.fn, self.wanted = fn, wanted          # wanted: id(ast.Call) -> True
        self.reach = {k: set() for k in wanted}

    # -- expressions: returns (classes for which it may be truthy, classes for which it may be falsy)
    def ev(self, e, live):
        live = set(live)
        if e is None or not live:
            if e is not None:
                for c in ast.walk(e):
                    if id(c) in self.reach:
                        self.reach[id(c)] |= set()
            return live, live
        if isinstance(e, ast.BoolOp):
            if isinstance(e.op, ast.And):
                t, f = live, set()
                for v in e.values:
                    t, fi = self.ev(v, t)
                    f |= fi
                return t, f
            t, f = set(), live
            for v in e.values:
                ti, f = self.ev(v, f)
                t |= ti
            return t, f
        if isinstance(e, ast.UnaryOp) and isinstance(e.op, ast.Not):
            t, f = self.ev(e.operand, live)
            return f, t
        if isinstance(e, ast.IfExp):
            t, f = self.ev(e.test, live)
            self.ev(e.body, t)
            self.ev(e.orelse, f)
            return live, live
        if isinstance(e, ast.Name) and e.id in PLATFORM and e.id not in self.fn.params:
            return (live, set()) if PLATFORM[e.id] else (set(), live)
        if isinstance(e, ast.Constant):
            return (live, set()) if e.value else (set(), live)
        if isinstance(e, ast.Compare):
            dec = self._decide(e)
            if dec is not None:
                return {c for c in live if dec[c][0]}, {c for c in live if dec[c][1]}
        if isinstance(e, ast.Call):
            for ch in ast.iter_child_nodes(e):
                if isinstance(ch, ast.expr):
                    self.ev(ch, live)
                elif isinstance(ch, ast.keyword):
                    self.ev(ch.value, live)
            if id(e) in self.reach:
                self.reach[id(e)] |= live
            return live, live
        if isinstance(e, (ast.Lambda, ast.GeneratorExp, ast.ListComp, ast.SetComp, ast.DictComp)):
            for c in ast.walk(e):
                if id(c) in self.reach:
                    self.reach[id(c)] |= live
            return live, live
        for ch in ast.iter_child_nodes(e):
            if isinstance(ch, ast.expr):
                self.ev(ch, live)
        return live, live

    def _decide(self, cmp):
        """per class (may be true, may be false) of a comparison built from the own PID and integer constants only"""
        ok = [True]
        fn = self.fn

        class T(ast.NodeTransformer):
            def generic_visit(self, node):
                if isinstance(node, ast.expr) and fn.own(node):
                    return ast.copy_location(ast.Name(id="__pid__", ctx=ast.Load()), node)
                if isinstance(node, ast.Name) and node.id != "__pid__":
                    ok[0] = False
                if isinstance(node, (ast.Call, ast.Attribute, ast.Subscript, ast.Await, ast.NamedExpr)):
                    ok[0] = False
                if isinstance(node, ast.Constant) and not isinstance(node.value, (int, bool)):
                    ok[0] = False
                return super().generic_visit(node)
        import copy
        tree = T().visit(copy.deepcopy(cmp))
        if not ok[0] or not any(isinstance(n, ast.Name) and n.id == "__pid__" for n in ast.walk(tree)):
            return None
        code = compile(ast.fix_missing_locations(ast.Expression(tree)), "<guard>", "eval")
        out = {}
        for c in CLS:
            vals = [bool(eval(code, {"__builtins__": {}}, {"__pid__": v})) for v in SAMPLES[c]]
            out[c] = (any(vals), not all(vals))
        return out

    # -- statements: returns the classes that fall through
    def walk(self, stmts, live):
        live = set(live)
        for st in stmts:
            live = self.stmt(st, live)
        return live

    def stmt(self, st, live):
        if isinstance(st, ast.If):
            t, f = self.ev(st.test, live)
            return self.walk(st.body, t) | self.walk(st.orelse, f)
        if isinstance(st, ast.Return):
            self.ev(st.value, live)
            return set()
        if isinstance(st, ast.Raise):
            self.ev(st.exc, live)
            self.ev(st.cause, live)
            return set()
        if isinstance(st, ast.Assert):
            # `python -O` drops asserts: not a guard
            self.ev(st.test, live)
            return live
        if isinstance(st, ast.Try) or st.__class__.__name__ == "TryStar":
            a = self.walk(st.body, live)
            out = self.walk(st.orelse, a)
            for h in st.handlers:
                out |= self.walk(h.body, live)
            fin = self.walk(st.finalbody, out | live)
            return out if not st.finalbody else (out & fin if fin else set())
        if isinstance(st, (ast.With, ast.AsyncWith)):
            for it in st.items:
                self.ev(it.context_expr, live)
            return self.walk(st.body, live)
        if isinstance(st, (ast.For, ast.AsyncFor)):
            self.ev(st.iter, live)
            self.walk(st.body, live)
            self.walk(st.orelse, live)
            return live
        if isinstance(st, ast.While):
            self.ev(st.test, live)
            self.walk(st.body, live)
            self.walk(st.orelse, live)
            return live
        if isinstance(st, (ast.FunctionDef, ast.AsyncFunctionDef, ast.ClassDef)):
            return live
        for ch in ast.iter_child_nodes(st):
            if isinstance(ch, ast.expr):
                self.ev(ch, live)
            elif isinstance(ch, ast.stmt):
                live = self.stmt(ch, live)
        return live


def kill_graph(snap):
    """(sites, roots): sites = [(fn, callee, arg, [classes])] sorted; roots = [(fn, "any" | "self.pid")] sorted"""
    fns, imports = _functions(snap)
    calls = {}                                   # fn name -> [(call node, callee name)]
    for f in fns.values():
        lst = []
        for n in ast.walk(f.node):
            if isinstance(n, ast.Call):
                # calls inside nested defs belong to the nested function
                callee = _resolve(f, n.func, fns, imports)
                if callee:
                    lst.append((n, callee))
        nested = set()
        for ch in ast.walk(f.node):
            if ch is not f.node and isinstance(ch, (ast.FunctionDef, ast.AsyncFunctionDef)):
                nested |= {id(x) for x in ast.walk(ch)}
        calls[f.name] = [(n, c) for n, c in lst if id(n) not in nested]
    killers = {"os.kill"}
    flow = {}

    def arg_of(f, n, callee):
        if callee == "os.kill":
            a = n.args[0] if n.args else None
            return a, True
        a = _pid_arg(n, fns[callee])
        g = fns[callee]
        if g.is_method and not g.has_pid_param:
            return None, False                   # the callee works on its own self.pid: an entry point of its own
        return a, True
    changed = True
    while changed:
        changed = False
        for name, lst in calls.items():
            if name in killers:
                continue
            f = fns[name]
            for n, callee in lst:
                if callee in killers:
                    a, flows = arg_of(f, n, callee)
                    if flows:
                        killers.add(name)
                        changed = True
                        break
    sites = []
    for name in sorted(killers - {"os.kill"}):
        f = fns[name]
        wanted = {}
        for n, callee in calls[name]:
            if callee in killers:
                a, flows = arg_of(f, n, callee)
                if flows:
                    wanted[id(n)] = (n, callee, a)
        R = _Reach(f, wanted)
        R.walk(f.node.body, CLS)
        for k, (n, callee, a) in sorted(wanted.items(), key=lambda kv: (kv[1][0].lineno, kv[1][0].col_offset)):
            arg = "pid" if (a is not None and f.own(a)) else "other:" + (extract.unparse(a) if a is not None else "<none>")
            sites.append((name, callee, arg, [c for c in CLS if c in R.reach[k]]))
    roots = []
    for name in sorted(killers - {"os.kill"}):
        f = fns[name]
        if f.is_method and not f.has_pid_param:
            roots.append((name, "self.pid"))
        elif f.mod == "__init__.py" and f.has_pid_param and (f.is_method or (f.cls is None and not f.qual.startswith("_") and "." not in f.qual)):
            roots.append((name, "any"))
    return sites, roots


def kill_facts(snap, F):
    memo = {}

    def graph():
        if "g" not in memo:
            memo["g"] = kill_graph(snap)
        return memo["g"]
    s = extract.lean_str
    F.try_add("killSites", "List (String × String × String × List String)",
              lambda: extract.lean_list(["(%s, %s, %s, %s)" % (s(a), s(b), s(c), extract.lean_list(d, s)) for a, b, c, d in graph()[0]]),
              "every call site in the package (modules loaded on Linux) through which a function hands a PID to os.kill or to a package function "
              "that transitively reaches os.kill: (function, callee, what is handed on: `pid` = the function's own pid parameter / self.pid, "
              "sign classes of that PID for which control reaches the call — the guards that dominate it, `and`/`or` short-circuits included)")
    F.try_add("killRoots", "List (String × String)",
              lambda: extract.lean_list([extract.lean_pair(s(a), s(b)) for a, b in graph()[1]]),
              "public entry points of that call graph: functions/methods of psutil/__init__.py taking a caller-chosen pid (`any`), and methods "
              "working on the PID of their object (`self.pid`, never negative: negRejectedPy / negRejectedC)")


# ------------------------------------------------------------------------------ correspondence: family `entry`

RULE_NOTE = ("; + family `entry`: public calls with a caller-chosen integer (psutil.pid_exists(n), psutil.Process(n), Process(n).wait(0), "
             "Process(n).terminate()) on simulated process tables, every os.kill logged (signal 0 included): structured numbers of both signs "
             "up to 2^64, ALL n in [-12, 12] on three tables (exhaustive_entry), random; non-trivial = n <= 0 or an os.kill was made")

ROOT_OF = {"pid_exists": "__init__.py:pid_exists", "Process": "__init__.py:Process.__init__",
           "Process.wait": "_pslinux.py:Process.wait", "Process.terminate": "__init__.py:Process._send_signal"}
METHOD_CALLS = ("Process.wait", "Process.terminate")
NUMBERS = [-1, -2, -5, -7, -9, -2 ** 31, -2 ** 31 - 1, -2 ** 63, -2 ** 64 - 3, 0, 1, 5, 7, 9, 11, 2 ** 31 - 1, 2 ** 31, 2 ** 64 + 1]


def probe(impl, case):
    """run one public call on the real code over the table `case["table"]`; returns (outcome, [[pid, sig], …]) — EVERY
    os.kill the call made, in order, logged before the simulated kernel answers"""
    ps = impl.ps
    impl.reset(1000)
    for p in case["table"]:
        impl.do({"op": "spawn", "pid": p})
    impl.patch()
    log = []
    kern = impl.kern

    def kill(pid, sig):
        log.append([int(pid), int(sig)])
        pid = int(pid)
        if not -2 ** 31 <= pid < 2 ** 31:
            raise OverflowError("signed integer is greater than maximum" if pid > 0 else "signed integer is less than minimum")
        if pid <= 0:
            return None                          # an existing group, a caller allowed to signal it
        if pid not in kern.procs:
            raise ProcessLookupError(errno.ESRCH, "No such process")
        res = kern.denied.get(pid)
        if res is not None:
            raise OSError(getattr(errno, res), os.strerror(getattr(errno, res)))
        return None
    prev = os.kill
    os.kill = kill
    try:
        try:
            if case["call"] == "pid_exists":
                out = {"kind": "bool", "v": bool(ps.pid_exists(case["pid"]))}
            elif case["call"] == "Process":
                ps.Process(case["pid"])
                out = {"kind": "unit"}
            elif case["call"] == "Process.wait":
                # timeout 0: one pass of wait_pid (os.waitpid is scripted: nobody is a child of the harness)
                ps.Process(case["pid"]).wait(0)
                out = {"kind": "unit"}
            elif case["call"] == "Process.terminate":
                ps.Process(case["pid"]).terminate()
                out = {"kind": "unit"}
            else:
                raise RuntimeError("harness: unknown call %r" % (case["call"],))
        except RuntimeError:
            raise
        except BaseException as e:               # noqa: BLE001 — every exception is an observable
            if isinstance(e, (KeyboardInterrupt, SystemExit)):
                raise
            out = {"kind": "exc", "exc": type(e).__name__}
    finally:
        os.kill = prev
    return out, log


def run_cases(ctx, impl, cases):
    """[(case, outcome, kills, model_kills, spec_ok)]"""
    obs = [probe(impl, c) for c in cases]
    lines = [{"fn": ROOT_OF[c["call"]], "pid": c["pid"], "observed": [k[0] for k in o[1]]} for c, o in zip(cases, obs)]
    outs = ctx.driver(DRIVER_FILE).batch(lines) if lines else []
    rows = []
    for c, (out, log), m in zip(cases, obs, outs):
        if "bad" in m:
            raise RuntimeError("driver rejected %r: %s" % (c, m))
        rows.append((c, out, log, m["model"]["kills"], m["spec"]["ok"]))
    return rows


def problem(row):
    c, out, log, mk, ok = row
    pids = [k[0] for k in log]
    if not ok:
        bad = [k for k in log if k[0] <= 0]
        return ("spec", "psutil.%s called %s: kill(2) addressed to %s" % (
            ("%s(%d)" % (c["call"], c["pid"])) if "." not in c["call"] else ("Process(%d).%s()" % (c["pid"], c["call"].split(".")[1])), ", ".join("os.kill(%d, %d)" % (a, b) for a, b in bad),
            "every process the caller may signal" if bad[0][0] == -1 else
            ("the caller's own process group" if bad[0][0] == 0 else "process group %d" % -bad[0][0])))
    if pids != mk:
        return ("model", "kill(2) pid arguments differ from the model's walk of the extracted call graph")
    return None


def gen_cases(rng, n, tier):
    cases = []
    tables = [[], [5], [5, 7], [1, 5, 7, 9], [0, 5], [7]]
    # structured: every number of the list on two tables, both calls
    for t in ([5, 7], [0, 5]):
        for x in NUMBERS:
            cases.append({"call": "pid_exists", "pid": x, "table": t, "family": "entry:structured"})
            if x <= 0 or x in t:
                cases.append({"call": "Process", "pid": x, "table": t, "family": "entry:structured"})
            if x in t:
                for m in METHOD_CALLS:
                    cases.append({"call": m, "pid": x, "table": t, "family": "entry:structured"})
    # small exhaustive: every n in [-12, 12] x three tables
    for t in ([], [5], [1, 5, 7, 9]):
        for x in range(-12, 13):
            cases.append({"call": "pid_exists", "pid": x, "table": t, "family": "exhaustive_entry"})
            if x <= 0 or x in t:
                cases.append({"call": "Process", "pid": x, "table": t, "family": "exhaustive_entry"})
            if x in t:
                for m in METHOD_CALLS:
                    cases.append({"call": m, "pid": x, "table": t, "family": "exhaustive_entry"})
    # random: negated PIDs of the table (a group id handed through), small and huge numbers
    for _ in range(n):
        t = rng.choice(tables)
        r = rng.random()
        if r < 0.35 and t:
            x = -rng.choice(t) if rng.random() < 0.8 else rng.choice(t)
        elif r < 0.6:
            x = -rng.randrange(1, 40)
        elif r < 0.75:
            x = rng.randrange(0, 40)
        elif r < 0.9:
            x = rng.choice([-1, 1]) * rng.randrange(2 ** 15, 2 ** 70)
        else:
            x = rng.choice([0, -1])
        call = "pid_exists" if (rng.random() < 0.7 or (x > 0 and x not in t)) else "Process"
        if x in t and rng.random() < 0.6:
            call = rng.choice(METHOD_CALLS)
        cases.append({"call": call, "pid": x, "table": t, "family": "entry"})
    return cases


def correspond_entry(ctx, res, impl):
    # own PRNG derived from VERIF_SEED: the history families that run after this one keep the random streams they had
    import random
    cases = gen_cases(random.Random("C01-entry:%s" % ctx.seed), ctx.n(150, 3000), ctx.tier)
    rows = run_cases(ctx, impl, cases)
    for row in rows:
        c, out, log, mk, ok = row
        res.count("family:" + c["family"])
        if c["pid"] < 0:
            res.count("feature:entry:negative_pid")
        elif c["pid"] == 0:
            res.count("feature:entry:pid_zero")
        if log:
            res.count("feature:entry:kill_probe_made")
        res.count("feature:entry:" + c["call"])
        res.case(("entry", c["call"], c["pid"], tuple(c["table"])), nontrivial=c["pid"] <= 0 or bool(log), sample=None)
        pr = problem(row)
        if pr:
            res.disagree(pr[0], {"entry": {"call": c["call"], "pid": c["pid"], "table": c["table"]}, "family": c["family"]},
                         {"outcome": out, "os_kill": log}, {"kills": mk}, {"no_group_kill": ok}, note=pr[1])
    return len(cases)


def fails(ctx, impl, entry):
    rows = run_cases(ctx, impl, [dict(entry)])
    pr = problem(rows[0])
    return (rows[0], pr) if (pr and pr[0] == "spec") else None


def shrink_entry(ctx, impl, d):
    e = dict(d["input"]["entry"])
    best = None
    cands = [dict(e, table=[])]
    sign = -1 if e["pid"] < 0 else 1
    cands += [dict(e, table=[], pid=sign * v) for v in (1, 2, 5) if sign * v != e["pid"]]
    cands += [dict(e, pid=sign * v) for v in (1, 2, 5) if sign * v != e["pid"]]
    for c in cands:
        r = fails(ctx, impl, c)
        if r:
            best = (c, r)
            break
    if best is None:
        return d
    c, (row, pr) = best
    return dict(d, input={"entry": c, "family": "shrunk"}, impl={"outcome": row[1], "os_kill": row[2]},
                model={"kills": row[3]}, spec={"no_group_kill": row[4]}, note=pr[1])
