"""C18 — nice / ionice / cpu_affinity / rlimit: get reads the kernel, set changes exactly that.

Model: lean/PsutilModel/Model/C18.lean (+C18Gen), Spec: Spec/C18.lean, theorems: Props/C18.lean.

Correspondence
  (a) simulated kernel: `psutil.Process(pid)` objects over a fake procfs (`/proc/stat`,
      `/proc/<pid>/stat`, `/proc/<pid>/status` with the kernel's `Cpus_allowed_list` rendering of the
      *current* mask) with recorders in place of `cext_posix.getpriority/setpriority`,
      `cext.proc_ioprio_get/set`, `cext.proc_cpu_affinity_get/set` and `resource.prlimit`. The
      recorders implement the native layer + kernel independently of the Lean text (from the
      C source and the man pages). Every public call is compared with the Lean model and with
      the specification: return value / exception class, the complete kernel state of every
      process afterwards, and the log of successful kernel changes.
  (b) live: the same front-end calls on a child process this harness spawned, through the
      freshly built extension and the real kernel; state read back with `os.getpriority`,
      a raw `ioprio_get` syscall, `os.sched_getaffinity`, `resource.prlimit`; a sibling child
      must stay unchanged. The Lean model runs on the initial state captured from the OS, so
      this validates the simulated kernel (and the C packing) against this kernel.
  (c) who is calling (round 5): in (a) `os.getpid()` as the snapshot's modules see it answers the pid of the simulated
      caller (of the creator while a Process object is made), the module's import-time pid is this harness process's, and
      the caller-addressed primitives (os.getpriority/setpriority/nice, os.sched_*affinity, resource.getrlimit/setrlimit,
      `who = 0`) are recorders over the same simulated kernel: family `caller` assigns the roles importer / creator /
      caller to the processes of the world in every way; in (b) `live-fork` lets a fresh interpreter import psutil and
      fork, and the child makes the calls on its parent, itself and a third process.
"""
import ast
import ctypes
import enum
import errno
import itertools
import json
import os
import re
import resource as real_resource
import subprocess
import sys

from harness.common import extract
from harness.common.extract import NotRecognised
from harness.common.fakeproc import FakeProc
from harness.common.shrink import ddmin

PROP = "C18"
DRIVER_MODULES = ["PsutilModel.Model.C18Gen", "PsutilModel.Spec.C18", "PsutilModel.Spec.C18Refused"]
NEEDS_EXT = True
TRUSTED = [
    "C18 simulated kernel (Lean Model/C18.lean §1 and the independent Python recorders): setpriority clamping, ioprio_check_cap of Linux 6.x (class = bits 13..15 masked with 7, level = bits 0..2, stored as unsigned short), sched_setaffinity = intersection with the cpuset / EINVAL when empty, do_prlimit order of checks; validated on every run against the live kernel (part b), not verified",
    "C18 native layer in part (a) is replaced by recorders: the C packing/unpacking and the cpu_set_t loop run only in part (b); glibc CPU_SET drops values outside 0..1023; CPython resource.prlimit turns EINVAL into ValueError and uses two's complement for rlim_t",
    "C18 errno protocol: getpriority(2)/ioprio_get(2)/sched_getaffinity(2) write errno only on failure and return -1 then; PyArg_ParseTuple between `errno = 0` and the call does not touch errno; in the live run the harness leaves ENOENT in the thread's errno before every call (os.stat of a missing path) and tells the model errno = 2 — that nothing in between resets it is not verified (seeded C18-1 shows it reaches the C code in plain mode)",
    "C18 /proc/stat: one cpuN line per ONLINE CPU (fs/proc/stat.c: for_each_online_cpu), so len(per_cpu_times()) can be smaller than the highest CPU id + 1; lxcfs-style virtualisation may show any smaller set; in the sim part the file is written by the harness, in the live part (live-hole) it is the real file minus one cpuN line behind a symlinked PROCFS_PATH",
    "C18 oneshot block: the status file is cached when the harness's warm-up first reads it (num_threads), so the model is told the mask at block entry",
    "C18 Python object protocol: hash/equality of an IntEnum member or bool are those of the int (set membership in ionice_set), the `i` / PyLong_AsLong / PyLong_AsLongLong conversions accept every int subclass, an iterator is always truthy and has no len(); exercised with real objects in both parts, transcribed in Model §6",
    "C18 vanished process: in the simulated part the Process object is made while /proc/<pid> exists, then the directory is removed and the recorders answer ESRCH; zombie: /proc/<pid>/stat shows state Z (simulated) / a real exited, unreaped child (live); a zombie's I/O context is gone, so its I/O priority is only read in the live part",
    "C18 who is calling: `who = 0` / os.nice / resource.getrlimit / resource.setrlimit act on the calling process (setrlimit(2) is prlimit64(0, ...)); after fork() the child's os.getpid() differs from every pid the program remembered before; in the simulated part os.getpid() is answered by the harness for the modules of the snapshot package that reach it through their global `os` (a module that bound `getpid` by `from os import getpid` would see the real pid), the import-time pid is the harness process's; in the live part (live-fork) a fresh interpreter imports the snapshot and forks, the harness reads /proc-independent kernel state (getpriority, ioprio_get, sched_getaffinity, prlimit) of parent, child and a third process after every call",
    "C18 /proc/<pid>/status: `Cpus_allowed_list` is the task's current mask printed as a range list (%*pbl); the harness renderer is checked against the live kernel on every run",
    "C18 refused get forms: prlimit(2) on a process of another user without CAP_SYS_RESOURCE answers EPERM for the get as for the set (check_prlimit_permission), the other three get forms are never refused by the kernel; /proc/<pid>/limits (fs/proc/base.c proc_pid_limits: header + one row per RLIMIT_* in resource order, `unlimited` for RLIM_INFINITY, world-readable) is written by the harness in the simulated family refused-get and is the real file in live-unpriv (root's child with sixteen different pairs asked by a forked uid-65534 caller)",
]
MANIFEST = {
    "level_text": "Machine-checked Lean 4 proofs over a layered model: simulated kernel (rules + the EPERM/EACCES permission tests of setpriority(2), ioprio_set(2), sched_setaffinity(2), prlimit(2); sched_getaffinity(2) refusing a mask shorter than nr_cpu_ids), native layer (translator's IOPRIO_CLASS_SHIFT; errno protocol of the three getters; the return-value tests of the three setters; the sizing loop of the affinity getter), _pslinux.Process under wrap_exceptions, psutil.Process, and the arguments as Python objects. EVERY property theorem is stated for stepPy - the call as the caller writes it, in an execution context (entry errno, status file cached by oneshot()) - which is what the driver runs against the real code (stepPy cfg, cfg built from the translator's facts); the theorems quantify over every configuration that is Good and has the EINVAL->ValueError fall-through, and cfg_good / cfg_einval_is_valueError are the obligations that the current source is one (the superseded layer `step` of rounds 1-2 is a proof layer in Proofs/C18Step.lean, nothing is claimed about it). C18_refines_py: for every kernel state, existing process, context and request, whatever the specification promises to this caller (expectPy: written from the statement and the man pages; nothing is promised where the caller lacks the privilege) the call yields exactly that result and that kernel (all per-process states + effect log); C18_refines_code_py is the instance for the code as it is, outside the region of the known finding C18-huge-cpu-overflowerror. Named clauses, all for stepPy: C18_py_get_nice/_ionice/_affinity/_rlimit (get returns the kernel's value, every entry errno, nice -1 included, kernels with up to 1024 possible CPU ids through the sizing loop); C18_py_set_then_get_nice/_ionice/_affinity/_rlimit (every valid value the caller is permitted to set, every argument form: success, exactly that attribute replaced, exactly one effect logged, get in any context returns it); C18_py_others_unchanged and C18_exception_no_effect (frame; EVERY raising call leaves the kernel exactly as it was); C18_py_invalid_ValueError_no_effect (level outside 0-7 for EVERY class, level for idle/none, level without class, limits not a pair: ValueError, nothing changes, for every caller); C18_py_empty_selects_all_eligible. CPU lists naming only unusable CPUs: C18_invalid_cpus_Full is the statement for ANY ints; it holds for the code as it is (C18_invalid_cpus, through the obligation cfg_overflow_is_valueError, since /repo 90c3e72 repaired defect C18-huge-cpu-overflowerror); it is refuted for the source as found before that commit (C18_invalid_cpus_counterexample: cpu_affinity([2**63]) raised OverflowError), proved for every list of C longs (C18_py_invalid_cpus_partial) and for any repaired configuration (C18_invalid_cpus_repaired; fact affinityOverflowRaisesValueError); C18_huge_cpu_raises: in the region nothing changes. Privileges: C18_py_nice_refused (foreign process -> EPERM, lowering beyond RLIMIT_NICE -> EACCES: AccessDenied, kernel unchanged) and C18_unchecked_setter_counterexample (with the return-value test dropped from psutil_posix_setpriority the refused call returns None while the kernel keeps the old value; facts setpriorityChecksRetval / ioprioSetChecksRetval / affinitySetChecksRetval feed cfg_good). Sizing loop: C18_affinity_get_sizing_loop (200 CPU ids: two EINVAL rounds then the mask; errno test flipped -> OSError(EINVAL); mask never grows -> no return; success read from errno -> stale EINVAL), facts affinityGetInitBits / affinityGetRetryTest / affinityGetGrowth / affinityGetErrTest feed cfg_good. Counterexamples for the superseded / seeded shapes: C18_stale_errno_counterexample (three broken errno protocols, seeded C18-1), C18_einval_fallthrough_needed (before aebc260; stale status file inside oneshot()), C18_empty_request_shape_counterexamples (empty list resolved through the status file; range(len(per_cpu_times())) with an offline CPU / virtualised /proc/stat, seeded C18-2), C18_empty_selects_all_eligible_with_holes. Arguments as Python objects: C18_arg_form_irrelevant, C18_same_values_same_effect, C18_cpu_iterator; characterisations outside the statement: C18_empty_iterator_is_refused, C18_limits_iterator_TypeError; C18_gone_process, C18_rlimit_pid0_refused, C18_pid0_is_the_caller. Who is calling (round 5, seeded C18-5): stepPyW c rt og (Model/C18Who.lean) is stepPy with every system call addressed as the translator's routing facts addr* say (self.pid | the caller when self.pid == os.getpid() evaluated in the call / remembered on the object / remembered at import | always the caller), made by process k.self of a program whose module was imported by og.importPid and whose object was made by og.createPid; it is what the driver runs (stepPyW cfg routing). cfg_routing_direct is the obligation that every form hands self.pid to every process primitive it calls; C18_any_caller_refines / _code: the refinement for EVERY caller and EVERY fork history; C18_set_reaches_exactly_that_process: no process other than the target - in particular not the caller, not the importing process - changes, and a promised rlimit set shows in the target's kernel state; C18_remembered_pid_shortcut_counterexample: forked child 9 of importer 7 sets its parent's RLIMIT_NOFILE through a short cut keyed on the import-time pid -> the child's limits change, the parent's do not (and the relatives: pid remembered on the object, unconditional caller primitive), invisible in the importing process; C18_caller_shortcut_sound: a short cut keyed on os.getpid() evaluated in the call (or on a remembered pid while no fork lies in between) is sound. Tied to the code by 38 translator facts (total extractors, extracted independently) feeding cfg_good, by an exhaustive differential run against a simulated kernel over a fake procfs in randomised call modes, and by live runs through the freshly built extension: a spawned child as root (state read back from the OS after every call), a real zombie, a /proc/stat with a missing cpuN line, a forked copy of the harness that drops to an unprivileged uid and calls on itself and on root's child (EPERM/EACCES must reach the caller; a set form that returns must show its value in the kernel), and a fresh interpreter under an LD_PRELOAD shim whose sched_getaffinity refuses masks shorter than a pretended nr_cpu_ids of 64..1024 (the growth branch of the sizing loop runs 0-4 rounds).",
    "level_note": "Trusted: Lean kernel + {propext, Classical.choice, Quot.sound}; translator; correspondence harness; the simulated kernel's rules and permission tests (validated live on this kernel only; ioprio class masking is that of Linux >= 6.x); a cpuset is given as cpuset-and-online (the simulated sched_setaffinity intersects with it); /proc/stat shows at most ncpu cpuN lines; ncpu (= nr_cpu_ids) <= 1024; the sim part replaces the 7 native entry points by recorders (C edits are seen by the translator and the live parts only); single-threaded targets; PID reuse guard is C01's. No open finding: C18-huge-cpu-overflowerror was repaired by /repo 90c3e72 (obligation cfg_overflow_is_valueError, full statement C18_invalid_cpus).",
    "technique": "Lean 4 refinement proof by case analysis over requests + bridge lemma (permitted caller, good configuration: complete system calls / errno protocol / failure tests / sizing loop collapse to the proof layer) + bit-arithmetic lemmas + translator-fed proof obligations + exhaustive differential correspondence (simulated kernel) in randomised call modes + live differential runs (root child with poisoned errno, zombie, holed /proc/stat, unprivileged forked caller, LD_PRELOAD shim forcing EINVAL in the affinity getter, a fresh interpreter that imports psutil and forks: the child calls on its parent / itself / a third process) + caller-identity dimension in the simulated part (os.getpid() and the caller-addressed primitives simulated; every assignment of importer / creator / caller roles)",
    "design_ref": "DESIGN.md §5 C18",
}
ASSUMPTIONS = [
    "theorems about successful sets are conditional on the caller being permitted (Spec.permitted: same owner or CAP_SYS_NICE / CAP_SYS_RESOURCE, RLIMIT_NICE, RT class); a process is owned by the caller or not (one `foreign` flag: no setuid/saved-uid distinctions, no user namespaces, no LSM refusals, no PF_NO_SETAFFINITY kernel threads)",
    "the process exists for the whole call and PID != 0 (Process(0) does not exist on Linux; rlimit's PID-0 refusal is modelled and checked)",
    "possible CPU ids are 0..ncpu-1 with ncpu <= 1024 (CPU_SETSIZE of the fixed cpu_set_t in proc.c); which of them are online / in the cpuset is arbitrary; /proc/stat has at most ncpu cpuN lines (one per online CPU, or fewer when virtualised)",
    "arguments are int-like scalars (int, IntEnum member, bool) and list / tuple / set / range / iterator containers of ints; floats, strings, numpy arrays, a bare int where a sequence is expected are not modelled",
    "who is calling: one calling thread; the pids a program can have remembered are the importing process's and the object creator's (Origin); pid namespaces (a pid that means different processes to caller and target) and a pid remembered at other moments (first call, a cache filled before a fork) are not modelled - the behavioural families still make every call from a process whose os.getpid() differs from the import-time one",
    "a get form the kernel refuses: the admissible results are the kernel's own value for that resource of that process or AccessDenied (Spec/C18Refused.lean); the alternative sources modelled are the rows of /proc/<pid>/limits (Model/C18Alt.lean) - an implementation answering from any other source is covered by the behavioural families (every RLIMIT_* x different pairs per resource and per process) but has no model counterpart",
    "the kernel implements prlimit(2) (Linux >= 2.6.36): the ENOSYS branch of _pslinux.Process.rlimit (zombie disambiguation) is never entered by the simulated kernel",
]

T_PID, S_PID, SELF_PID = 4242, 4343, 4444
U64 = 1 << 64
INF = U64 - 1
FINDING_INELIGIBLE = "C18-ineligible-oserror"
FINDING_HUGE_CPU = "C18-huge-cpu-overflowerror"


def _fits_c_long(v):
    return -2 ** 63 <= v < 2 ** 63

# ------------------------------------------------------------------------------ translator


def _methods(tree, cls):
    c = extract.find_class(tree, cls)
    return {n.name: n for n in ast.walk(c) if isinstance(n, ast.FunctionDef)}


def _enum_members(tree, cls):
    c = extract.find_class(tree, cls)
    out = {}
    for st in c.body:
        if isinstance(st, ast.Assign) and len(st.targets) == 1 and isinstance(st.targets[0], ast.Name):
            out[st.targets[0].id] = extract.const(st.value)
    if not out:
        raise NotRecognised("no members in %s" % cls)
    return out


def _raises(node, exc):
    for n in ast.walk(node):
        if isinstance(n, ast.Raise) and n.exc is not None:
            d = extract.dotted(n.exc.func) if isinstance(n.exc, ast.Call) else extract.dotted(n.exc)
            if d == exc:
                return True
    return False


def _ionice_set_facts(tree):
    fn = _methods(tree, "Process")["ionice_set"]
    enum = _enum_members(tree, "IOPriority")
    default = None
    classes = None
    lo = hi = None
    for st in fn.body:
        if not isinstance(st, ast.If):
            continue
        t = st.test
        if isinstance(t, ast.Compare) and extract.dotted(t.left) == "value" and isinstance(t.ops[0], ast.Is) \
                and extract.const(t.comparators[0]) is None:
            a = st.body[0]
            if isinstance(a, ast.Assign) and extract.dotted(a.targets[0]) == "value":
                default = extract.const(a.value)
        elif isinstance(t, ast.BoolOp) and isinstance(t.op, ast.And) and len(t.values) == 2 \
                and extract.dotted(t.values[0]) == "value" and isinstance(t.values[1], ast.Compare) \
                and extract.dotted(t.values[1].left) == "ioclass" and isinstance(t.values[1].ops[0], ast.In) \
                and _raises(st, "ValueError"):
            coll = t.values[1].comparators[0]
            if not isinstance(coll, (ast.Set, ast.Tuple, ast.List)):
                raise NotRecognised("class collection of ionice_set")
            classes = []
            for e in coll.elts:
                d = extract.dotted(e)
                nm = d.split(".")[-1]
                if nm in enum:
                    classes.append(enum[nm])
                else:
                    classes.append(extract.const(e))
        elif isinstance(t, ast.BoolOp) and isinstance(t.op, ast.Or) and len(t.values) == 2 and _raises(st, "ValueError"):
            for cmp_ in t.values:
                if not (isinstance(cmp_, ast.Compare) and extract.dotted(cmp_.left) == "value" and len(cmp_.ops) == 1):
                    raise NotRecognised("range test of ionice_set")
                c = extract.const(cmp_.comparators[0])
                if isinstance(cmp_.ops[0], ast.Lt):
                    lo = c
                elif isinstance(cmp_.ops[0], ast.LtE):
                    lo = c + 1
                elif isinstance(cmp_.ops[0], ast.Gt):
                    hi = c
                elif isinstance(cmp_.ops[0], ast.GtE):
                    hi = c - 1
                else:
                    raise NotRecognised("range test operator of ionice_set")
    if default is None or classes is None or lo is None or hi is None:
        raise NotRecognised("shape of ionice_set not recognised")
    if not extract.calls_in(fn, "proc_ioprio_set"):
        raise NotRecognised("ionice_set does not call proc_ioprio_set")
    return {"default": default, "classes": sorted(classes), "lo": lo, "hi": hi,
            "enum": sorted(enum.values())}


def _rlimit_facts(tree):
    """Total: {"pid0": bool, "pair": n}. A test counts only when it is executed BEFORE the prlimit call it guards (source
    order inside the function: the PID-0 test before every prlimit call, the `len(limits) != n` test before the
    three-argument call). pair = 0: no such test (a value `Cfg.Good.pair` rejects)."""
    fn = _methods(tree, "Process")["rlimit"]
    calls = [n for n in ast.walk(fn) if isinstance(n, ast.Call) and extract.dotted(n.func).split(".")[-1] == "prlimit"]
    first_any = min([c.lineno for c in calls], default=10 ** 9)
    first_set = min([c.lineno for c in calls if len(c.args) + len(c.keywords) >= 3], default=10 ** 9)
    pid0 = False
    pair = 0
    for n in ast.walk(fn):
        if isinstance(n, ast.If) and isinstance(n.test, ast.Compare) and len(n.test.ops) == 1:
            l = n.test.left
            if not isinstance(n.test.comparators[0], ast.Constant):
                continue                                   # e.g. `self.pid == <a remembered pid>`: the routing facts' matter
            if extract.dotted(l) == "self.pid" and isinstance(n.test.ops[0], ast.Eq) \
                    and extract.const(n.test.comparators[0]) == 0 and _raises(n, "ValueError") and n.lineno < first_any:
                pid0 = True
            if isinstance(l, ast.Call) and extract.dotted(l.func) == "len" and l.args and extract.dotted(l.args[0]) == "limits" \
                    and isinstance(n.test.ops[0], ast.NotEq) and _raises(n, "ValueError") and n.lineno < first_set:
                c = extract.const(n.test.comparators[0])
                pair = c if isinstance(c, int) and c >= 0 else 0
    return {"pid0": pid0, "pair": pair}


def _own_nodes(fn):
    """Nodes of the function body, nested function / lambda / class bodies left out."""
    stack = list(fn.body)
    while stack:
        n = stack.pop()
        yield n
        for c in ast.iter_child_nodes(n):
            if not isinstance(c, (ast.FunctionDef, ast.AsyncFunctionDef, ast.Lambda, ast.ClassDef)):
                stack.append(c)


def _rlimit_other_sources(linux_tree, init_tree):
    """Seeded round 5 (C18-7). Number of places where `rlimit` takes an ANSWER from anything but the system call:
    value-returning statements of `_pslinux.Process.rlimit` other than `return resource.prlimit(self.pid, <2nd parameter>)`,
    and of the front-end `Process.rlimit` other than `return self._proc.rlimit(<its two parameters>)`. 0 = the get form
    answers with what prlimit(2) said, or raises."""
    n_other = 0
    fn = _methods(linux_tree, "Process")["rlimit"]
    par = [a.arg for a in fn.args.args]
    for n in _own_nodes(fn):
        if isinstance(n, (ast.Return, ast.Yield, ast.YieldFrom)) and n.value is not None \
                and not (isinstance(n.value, ast.Constant) and n.value.value is None):
            v = n.value
            ok = isinstance(n, ast.Return) and isinstance(v, ast.Call) and extract.dotted(v.func) == "resource.prlimit" \
                and not v.keywords and len(v.args) == 2 and extract.dotted(v.args[0]) == "self.pid" \
                and isinstance(v.args[1], ast.Name) and len(par) >= 2 and v.args[1].id == par[1]
            n_other += 0 if ok else 1
    fe = _methods(init_tree, "Process")["rlimit"]
    fpar = [a.arg for a in fe.args.args]
    for n in _own_nodes(fe):
        if isinstance(n, (ast.Return, ast.Yield, ast.YieldFrom)) and n.value is not None \
                and not (isinstance(n.value, ast.Constant) and n.value.value is None):
            v = n.value
            ok = isinstance(n, ast.Return) and isinstance(v, ast.Call) and extract.dotted(v.func) == "self._proc.rlimit" \
                and not v.keywords and [extract.dotted(a) for a in v.args] == fpar[1:3]
            n_other += 0 if ok else 1
    return n_other


def _front_ionice(tree):
    """`if ioclass is None: if value is not None: raise ValueError` in Process.ionice (total: False when absent)."""
    fn = _methods(tree, "Process")["ionice"]
    for st in ast.walk(fn):
        if isinstance(st, ast.If) and isinstance(st.test, ast.Compare) and extract.dotted(st.test.left) == "ioclass" \
                and isinstance(st.test.ops[0], ast.Is):
            for s2 in st.body:
                if isinstance(s2, ast.If) and isinstance(s2.test, ast.Compare) and extract.dotted(s2.test.left) == "value" \
                        and isinstance(s2.test.ops[0], ast.IsNot) and _raises(s2, "ValueError"):
                    return True
    return False


def _front_affinity_top(tree):
    fn = _methods(tree, "Process")["cpu_affinity"]
    top = None
    for st in fn.body:
        if isinstance(st, ast.If) and isinstance(st.test, ast.Compare) and extract.dotted(st.test.left) == "cpus" \
                and isinstance(st.test.ops[0], ast.Is):
            top = st
    if top is None:
        raise NotRecognised("shape of Process.cpu_affinity")
    return top


def _front_get_sorted(tree):
    """The get branch returns sorted(set(native result)) (total: False for any other expression)."""
    top = _front_affinity_top(tree)
    ret = [s for s in top.body if isinstance(s, ast.Return)]
    if len(ret) != 1 or ret[0].value is None:
        return False
    src = extract.unparse(ret[0].value).replace(" ", "")
    return src in ("sorted(set(self._proc.cpu_affinity_get()))", "sorted(list(set(self._proc.cpu_affinity_get())))")


def _front_set_dedup(tree):
    """The set branch hands list(set(cpus)) to the platform layer (total: False for any other argument)."""
    top = _front_affinity_top(tree)
    calls = extract.calls_in(ast.Module(body=top.orelse, type_ignores=[]), "cpu_affinity_set")
    if len(calls) != 1 or len(calls[0].args) != 1:
        return False
    return extract.unparse(calls[0].args[0]).replace(" ", "") in ("list(set(cpus))", "sorted(set(cpus))")


_COUNT_SHAPES = ("tuple(range(len(cpu_times(percpu=True))))", "list(range(len(cpu_times(percpu=True))))",
                 "range(len(cpu_times(percpu=True)))")


def _request_shape(value):
    """(empty_range, empty_count) for the expression assigned to `cpus` in the empty-list branch. Total: a request
    whose size is not a literal (range(os.cpu_count()), range(len(os.sched_getaffinity(0))), …) is reported as
    `some 0` — a request naming no CPU the model knows about — so that the obligation fails with the new value."""
    v = extract.unparse(value).replace(" ", "").replace('"', "'")
    mm = re.fullmatch(r"(?:list\(|tuple\()?range\((\d+)\)\)?", v)
    if v in _COUNT_SHAPES:
        return None, True
    if mm:
        return int(mm.group(1)), False
    if "_get_eligible_cpus" in v:
        return None, False
    return 0, False


def _front_empty(tree):
    """What cpu_affinity([]) asks the platform layer for on Linux: {"empty_range": n | None, "empty_count": bool}."""
    top = _front_affinity_top(tree)
    empty = None
    for s in top.orelse:
        if isinstance(s, ast.If) and isinstance(s.test, ast.UnaryOp) and isinstance(s.test.op, ast.Not) \
                and extract.dotted(s.test.operand) == "cpus":
            empty = s
        elif isinstance(s, ast.If) and extract.unparse(s.test).replace(" ", "") in ("len(cpus)==0", "cpus==[]"):
            empty = s
    if empty is None or not empty.body:
        # no empty-list branch at all: the empty list goes to the platform layer as it is
        return {"empty_range": 0, "empty_count": False}
    first = empty.body[0]

    def last_assign(stmts):
        a = [x for x in stmts if isinstance(x, ast.Assign) and extract.dotted(x.targets[0]) == "cpus"]
        return a[-1] if a else None
    if isinstance(first, ast.If):
        t = extract.unparse(first.test).replace(" ", "")
        if t in ("hasattr(self._proc,'_get_eligible_cpus')", 'hasattr(self._proc,"_get_eligible_cpus")'):
            return {"empty_range": None, "empty_count": False}
        if t == "LINUX":
            a = last_assign(first.body)
        elif t == "notLINUX":
            a = last_assign(first.orelse)
        else:
            a = last_assign(first.body) or last_assign(first.orelse)
        if a is None:
            return {"empty_range": 0, "empty_count": False}
        r, c = _request_shape(a.value)
        return {"empty_range": r, "empty_count": c}
    a = last_assign(empty.body)
    if a is None:
        return {"empty_range": 0, "empty_count": False}
    # no platform test: one request shape for every platform (seeded C18-2)
    r, c = _request_shape(a.value)
    return {"empty_range": r, "empty_count": c}


def _c_facts(src):
    m = re.search(r"^#define\s+IOPRIO_CLASS_SHIFT\s+(\d+)\s*$", src, re.M)
    if not m:
        raise NotRecognised("IOPRIO_CLASS_SHIFT not found")
    shift = int(m.group(1))

    def norm(s):
        return re.sub(r"\s+", "", s)
    defs = {}
    for mm in re.finditer(r"^#define\s+(IOPRIO_PRIO_\w+)(\([^)]*\))?\s+(.*)$", src, re.M):
        defs[mm.group(1)] = (norm(mm.group(2) or ""), norm(mm.group(3)))
    canon = {
        "IOPRIO_PRIO_MASK": ("", "((1UL<<IOPRIO_CLASS_SHIFT)-1)"),
        "IOPRIO_PRIO_CLASS": ("(mask)", "((mask)>>IOPRIO_CLASS_SHIFT)"),
        "IOPRIO_PRIO_DATA": ("(mask)", "((mask)&IOPRIO_PRIO_MASK)"),
        "IOPRIO_PRIO_VALUE": ("(class,data)", "(((class)<<IOPRIO_CLASS_SHIFT)|data)"),
    }
    ok = all(defs.get(k) == v for k, v in canon.items())
    body = norm(src)
    ok = ok and "ioprio=IOPRIO_PRIO_VALUE(ioclass,iodata);" in body \
        and "ioclass=IOPRIO_PRIO_CLASS(ioprio);" in body and "iodata=IOPRIO_PRIO_DATA(ioprio);" in body \
        and "ioprio_set(IOPRIO_WHO_PROCESS,pid,ioprio)" in body and "ioprio_get(IOPRIO_WHO_PROCESS,pid)" in body
    return shift, ok


def _c_range(src):
    """Bounds of an argument check on (ioclass, iodata) in psutil_proc_ioprio_set before the packing."""
    m = re.search(r"psutil_proc_ioprio_set\(.*?\n}\n", src, re.S)
    if not m:
        raise NotRecognised("psutil_proc_ioprio_set not found")
    body = m.group(0)
    head = body.split("IOPRIO_PRIO_VALUE(")[0]
    if "IOPRIO_PRIO_VALUE(" not in body:
        raise NotRecognised("psutil_proc_ioprio_set does not pack with IOPRIO_PRIO_VALUE")
    mm = re.search(r"if\s*\(\s*ioclass\s*<\s*(-?\d+)\s*\|\|\s*ioclass\s*>\s*(-?\d+)\s*\|\|\s*iodata\s*<\s*(-?\d+)"
                   r"\s*\|\|\s*iodata\s*>\s*(-?\d+)\s*\)\s*\{([^}]*)\}", head)
    if mm:
        blk = re.sub(r"\s+", "", mm.group(5))
        if "PyExc_ValueError" in blk and blk.endswith("returnNULL;"):
            einval = False
        elif blk == "errno=EINVAL;returnPyErr_SetFromErrno(PyExc_OSError);":
            einval = True
        else:
            raise NotRecognised("body of the argument check in psutil_proc_ioprio_set")
        return tuple(int(x) for x in mm.groups()[:4]) + (einval,)
    if re.search(r"\bif\s*\([^)]*(?<!&)\b(ioclass|iodata)\b", head):
        raise NotRecognised("unrecognised argument check in psutil_proc_ioprio_set")
    return None


def _c_function(src, name):
    m = re.search(r"\n" + re.escape(name) + r"\(.*?\n}\n", src, re.S)
    if not m:
        raise NotRecognised("%s not found" % name)
    return m.group(0)


def _errno_proto(src, func, call_re, var):
    """(clears errno before the libc call?, code of the failure test) of one native getter.
    codes: 0 = `errno != 0`; 1 = `<var> == -1 && errno != 0`; 2 = `<var> == -1` (return value only)."""
    body = _c_function(src, func)
    body = re.sub(r"/\*.*?\*/", "", body, flags=re.S)
    body = re.sub(r"//[^\n]*", "", body)
    calls = list(re.finditer(call_re, body))
    if not calls:
        raise NotRecognised("%s: libc call not found" % func)
    first = calls[0]
    head, tail = body[:first.start()], body[first.end():]
    clears = bool(re.search(r"\berrno\s*=\s*0\s*;", head))
    if re.search(r"\berrno\s*=", re.sub(r"\berrno\s*=\s*0\s*;", "", head).replace("==", "")):
        raise NotRecognised("%s: errno assigned something else before the call" % func)
    m = re.search(r"if\s*\((.*?)\)\s*\{?\s*return\s+PyErr_SetFromErrno", tail, re.S)
    if not m:
        raise NotRecognised("%s: failure test not found" % func)
    cond = re.sub(r"\s+", "", m.group(1))
    while cond.startswith("(") and cond.endswith(")") and cond.count("(") == 1:
        cond = cond[1:-1]
    v = re.escape(var)
    if cond == "errno!=0" or cond == "errno":
        return clears, 0
    if re.fullmatch(r"\(?%s==-1\)?&&\(?errno!=0\)?" % v, cond) or re.fullmatch(r"\(?errno!=0\)?&&\(?%s==-1\)?" % v, cond):
        return clears, 1
    if re.fullmatch(r"%s==-1" % v, cond) or re.fullmatch(r"%s<0" % v, cond):
        return clears, 2
    raise NotRecognised("%s: failure test `%s`" % (func, cond))


def _affinity_get_proto(src):
    body = _c_function(src, "psutil_proc_cpu_affinity_get")
    body = re.sub(r"/\*.*?\*/", "", body, flags=re.S)
    body = re.sub(r"//[^\n]*", "", body)
    m = re.search(r"if\s*\(\s*sched_getaffinity\s*\(\s*pid\s*,\s*setsize\s*,\s*mask\s*\)\s*==\s*0\s*\)\s*\{?\s*break\s*;", body)
    if not m:
        raise NotRecognised("psutil_proc_cpu_affinity_get: `if (sched_getaffinity(...) == 0) break;` not found")
    head = body[:m.start()]
    clears = bool(re.search(r"\berrno\s*=\s*0\s*;", head))
    if len(re.findall(r"\bsched_getaffinity\s*\(", body)) != 1:
        raise NotRecognised("psutil_proc_cpu_affinity_get: more than one sched_getaffinity call")
    return clears, 2


def _affinity_set_shape(tree):
    """cpu_affinity_set's except clause. Total: {"einval_ve": bool, "overflow": bool}.
    einval_ve: after the diagnosis loop an OSError (the kernel's EINVAL) is raised as ValueError.
    overflow:  OverflowError (a CPU number that does not fit a C long) is caught AND sent through the diagnosis."""
    fn = _methods(tree, "Process")["cpu_affinity_set"]
    out = {"einval_ve": False, "overflow": False}
    handlers = [h for n in ast.walk(fn) if isinstance(n, ast.Try) for h in n.handlers]
    if len(handlers) != 1 or handlers[0].type is None:
        return out
    h = handlers[0]
    caught = {extract.dotted(n) for n in ast.walk(h.type) if isinstance(n, (ast.Name, ast.Attribute))}
    ifs = [st for st in h.body if isinstance(st, ast.If)]
    if not ifs:
        return out
    t = extract.unparse(ifs[0].test).replace(" ", "")
    diag_overflow = bool(re.search(r"isinstance\(err,\(?[^)]*\bOverflowError\b", t))
    out["overflow"] = "OverflowError" in caught and diag_overflow
    if "err.errno==errno.EINVAL" not in t:
        return out
    blk = ifs[0].body
    loops = [i for i, st in enumerate(blk) if isinstance(st, ast.For)]
    if len(loops) != 1:
        return out
    for st in blk[loops[0] + 1:]:
        if isinstance(st, ast.If) and not st.orelse \
                and extract.unparse(st.test).replace(" ", "") in ("isinstance(err,OSError)", "notisinstance(err,ValueError)",
                                                                   "notisinstance(err,(ValueError,OverflowError))") \
                and st.body and isinstance(st.body[-1], ast.Raise) and _raises(st, "ValueError"):
            out["einval_ve"] = True
    return out


def _strip_c_comments(body):
    body = re.sub(r"/\*.*?\*/", "", body, flags=re.S)
    return re.sub(r"//[^\n]*", "", body)


def _setter_checks(src, func, call_re):
    """Does the native setter notice a failed system call? True for `r = call(…); if (r == -1 | r != 0 | r < 0 | r)
    return PyErr_SetFromErrno…` and for `if (call(…)) {return PyErr_SetFromErrno…}`; False for anything else (total)."""
    body = _strip_c_comments(_c_function(src, func))
    calls = list(re.finditer(call_re, body))
    if not calls:
        return False
    c = calls[-1]
    head, tail = body[:c.start()], body[c.end():]
    m = re.search(r"(\w+)\s*=\s*(?:\([^()]*\)\s*)?$", head)
    if m:
        v = re.escape(m.group(1))
        return bool(re.search(r"if\s*\(\s*(?:%s\s*==\s*-1|%s\s*!=\s*0|%s\s*<\s*0|%s)\s*\)\s*\{?\s*return\s+PyErr_SetFromErrno" % (v, v, v, v), tail))
    if re.search(r"if\s*\(\s*$", head):
        return bool(re.match(r"[^;{]*\)\s*(?:(?:!=\s*0|==\s*-1|<\s*0)\s*)?\)\s*\{?\s*return\s+PyErr_SetFromErrno", tail, re.S))
    return False


def _aff_loop(src):
    """The sizing loop of psutil_proc_cpu_affinity_get. Total: (initBits, retry code, (mul, add))."""
    body = _strip_c_comments(_c_function(src, "psutil_proc_cpu_affinity_get"))
    calls = list(re.finditer(r"\bsched_getaffinity\s*\(", body))
    if not calls:
        return 0, 3, (1, 0)
    head, tail = body[:calls[0].start()], body[calls[0].end():]
    tail = tail.split("PyList_New")[0]
    init = 0
    m = re.search(r"\bncpus\s*=\s*([^;]+);", head)
    if m:
        e = re.sub(r"\s+", "", m.group(1))
        if e in ("sizeof(unsignedlong)*CHAR_BIT", "CHAR_BIT*sizeof(unsignedlong)", "NCPUBITS", "__NCPUBITS"):
            init = 64
        elif re.fullmatch(r"\d+", e):
            init = int(e)
    m = re.search(r"if\s*\(\s*errno\s*(!=|==)\s*EINVAL\s*\)\s*\{?\s*return\s+PyErr_SetFromErrno", tail)
    if m:
        retry = 0 if m.group(1) == "!=" else 1
    elif re.search(r"return\s+PyErr_SetFromErrno", tail):
        retry = 3
    else:
        retry = 2
    grow = (1, 0)
    for m in re.finditer(r"\bncpus\s*(=|\*=|\+=|<<=)\s*([^;]+);|\bncpus\s*\+\+\s*;|\+\+\s*ncpus\s*;", tail):
        if m.group(1) is None:
            grow = (1, 1)
            continue
        op_, e = m.group(1), re.sub(r"\s+", "", m.group(2))
        mm = None
        if op_ == "=" and (mm := re.fullmatch(r"ncpus\*(\d+)|(\d+)\*ncpus", e)):
            grow = (int(mm.group(1) or mm.group(2)), 0)
        elif op_ == "=" and (mm := re.fullmatch(r"ncpus\+(\d+)|(\d+)\+ncpus", e)):
            grow = (1, int(mm.group(1) or mm.group(2)))
        elif op_ == "=" and (mm := re.fullmatch(r"ncpus<<(\d+)", e)):
            grow = (2 ** int(mm.group(1)), 0)
        elif op_ == "*=" and re.fullmatch(r"\d+", e):
            grow = (int(e), 0)
        elif op_ == "+=" and re.fullmatch(r"\d+", e):
            grow = (1, int(e))
        elif op_ == "<<=" and re.fullmatch(r"\d+", e):
            grow = (2 ** int(e), 0)
        else:
            grow = (1, 0)
    return init, retry, grow


# ---- how the native affinity setter holds a CPU number (Model/C18Num.lean: `heldAs bits`) -------------------------
_C_TYPE_WORDS = r"(?:unsigned|signed|long|short|int|char|Py_ssize_t|ssize_t|size_t|pid_t|u?int\d+_t|intptr_t|uintptr_t)"
_C_SIGNED_BITS = {"long": 64, "long int": 64, "int long": 64, "signed long": 64, "signed long int": 64, "long long": 64,
                  "long long int": 64, "Py_ssize_t": 64, "ssize_t": 64, "int64_t": 64, "intptr_t": 64,
                  "int": 32, "signed int": 32, "signed": 32, "int32_t": 32, "pid_t": 32,
                  "short": 16, "short int": 16, "signed short": 16, "int16_t": 16, "signed char": 8, "int8_t": 8}


def _c_signed_bits(t):
    t = " ".join(t.split())
    if t not in _C_SIGNED_BITS:
        raise NotRecognised("CPU number held in / cast to %r: not a signed integer type the model knows" % t)
    return _C_SIGNED_BITS[t]


def _cpu_num_bits(src):
    """Width in bits of the signed C integer a CPU number is held in between `PyLong_AsLong(item)` and `CPU_SET` in
    psutil_proc_cpu_affinity_set: the narrowest of the declared type of the variable that receives the conversion, a
    cast on the conversion and a cast on the argument of CPU_SET. Recognised shape: ONE conversion
    `[T] v = [(T2)] PyLong_AsLong(x);` and ONE `CPU_SET([(T3)] v, …)` with the same `v`; anything else (another
    converter, arithmetic on the number, an unsigned type) is NotRecognised."""
    body = _strip_c_comments(_c_function(src, "psutil_proc_cpu_affinity_set"))
    convs = list(re.finditer(r"\b(\w+)\s*=\s*(?:\(\s*([\w ]+?)\s*\)\s*)?(PyLong_As\w+|_PyLong_As\w+|PyNumber_As\w+|PyLong_Check\w*)\s*\(", body))
    if len(convs) != 1 or convs[0].group(3) != "PyLong_AsLong":
        raise NotRecognised("conversion of the CPU number in psutil_proc_cpu_affinity_set")
    var, cast = convs[0].group(1), convs[0].group(2)
    if len(re.findall(r"\b%s\s*(?:[-+*/%%&|^]|<<|>>)?=(?!=)" % re.escape(var), body)) != 1 or \
            re.search(r"(?:\+\+|--)\s*%s\b|\b%s\s*(?:\+\+|--)" % (re.escape(var), re.escape(var)), body):
        raise NotRecognised("the CPU number is assigned more than once")
    decl = re.search(r"\b((?:%s\s+)+)(?:\w+\s*(?:=[^,;]*)?,\s*)*%s\s*[,;=]" % (_C_TYPE_WORDS, re.escape(var)), body)
    if not decl:
        raise NotRecognised("declaration of %s" % var)
    widths = [_c_signed_bits(decl.group(1))]
    if cast:
        widths.append(_c_signed_bits(cast))
    uses = re.findall(r"\bCPU_SET(?:_S)?\s*\(\s*([^,]*?)\s*,", body)
    if len(uses) != 1:
        raise NotRecognised("CPU_SET in psutil_proc_cpu_affinity_set")
    m = re.fullmatch(r"(?:\(\s*([\w ]+?)\s*\)\s*)?%s" % re.escape(var), uses[0])
    if not m:
        raise NotRecognised("CPU_SET(%s, …): not the converted number" % uses[0])
    if m.group(1):
        widths.append(_c_signed_bits(m.group(1)))
    return min(widths)


# ---- which process does each form address? (Model/C18Who.lean: `Routing`) -----------------------------------------
#
# Every call of a primitive that acts on a process — the extension's entry points, `resource.prlimit`, and the ones that
# act on the CALLER (`who = 0`, or no pid argument at all: os.nice, resource.getrlimit/setrlimit) — in the front-end method
# and in the `_pslinux.Process` methods of each attribute, with its pid argument and the `self.pid == …` tests guarding it.
# Address codes (Addr.ofCode): 0 = self.pid; 1/2/3 = the caller when self.pid == os.getpid() evaluated in the call /
# remembered on the object / remembered in a module global; 4 = always the caller. Anything else is NotRecognised.

_PRIMS = {
    # attr: (group, "get"|"set"|None (by argument count), index of the pid argument or None = implicit caller)
    "getpriority": ("nice", "get", 0), "setpriority": ("nice", "set", 0), "nice": ("nice", "set", None),
    "proc_ioprio_get": ("ionice", "get", 0), "proc_ioprio_set": ("ionice", "set", 0),
    "ioprio_get": ("ionice", "get", 0), "ioprio_set": ("ionice", "set", 0),
    "proc_cpu_affinity_get": ("aff", "get", 0), "proc_cpu_affinity_set": ("aff", "set", 0),
    "sched_getaffinity": ("aff", "get", 0), "sched_setaffinity": ("aff", "set", 0),
    "prlimit": ("rlimit", None, 0), "getrlimit": ("rlimit", "get", None), "setrlimit": ("rlimit", "set", None),
}
_FORM_FUNCS = {"nice": ("nice", ("nice_get", "nice_set")), "ionice": ("ionice", ("ionice_get", "ionice_set")),
               "aff": ("cpu_affinity", ("cpu_affinity_get", "cpu_affinity_set")), "rlimit": ("rlimit", ("rlimit",))}
_ROUTE_FACTS = (("addrNiceGet", "nice", "get"), ("addrNiceSet", "nice", "set"), ("addrIoniceGet", "ionice", "get"),
                ("addrIoniceSet", "ionice", "set"), ("addrAffinityGet", "aff", "get"), ("addrAffinitySet", "aff", "set"),
                ("addrRlimitGet", "rlimit", "get"), ("addrRlimitSet", "rlimit", "set"))


def _has_getpid(node):
    return any(isinstance(n, ast.Call) and extract.dotted(n.func).split(".")[-1] == "getpid" for n in ast.walk(node))


def _pid_source(expr, trees):
    """Where the pid `self.pid` is compared with comes from: 1 = os.getpid() now, 2 = an attribute of the object,
    3 = a module global; both of the latter must have been assigned from os.getpid()."""
    if isinstance(expr, ast.Call) and extract.dotted(expr.func).split(".")[-1] == "getpid":
        return 1
    d = extract.dotted(expr)
    if isinstance(expr, ast.Name):
        for t in trees:
            for st in t.body:
                if isinstance(st, (ast.Assign, ast.AnnAssign)) and st.value is not None and _has_getpid(st.value) and \
                        any(isinstance(x, ast.Name) and x.id == d for x in ast.walk(st)
                            if isinstance(getattr(x, "ctx", None), ast.Store)):
                    return 3
        raise NotRecognised("self.pid compared with %s, which is not a module global set from os.getpid()" % d)
    if d.startswith("self."):
        for t in trees:
            for n in ast.walk(t):
                if isinstance(n, ast.Assign) and _has_getpid(n.value) and any(extract.dotted(x) in (d, d.replace("self._proc.", "self."))
                                                                             for x in n.targets):
                    return 2
        raise NotRecognised("self.pid compared with %s, which is not set from os.getpid()" % d)
    raise NotRecognised("self.pid compared with %s" % ast.dump(expr)[:80])


def _pid_test(test, trees):
    """(source code, polarity) when `test` is `self.pid == E` / `E == self.pid` / `!=`; None otherwise."""
    if isinstance(test, ast.UnaryOp) and isinstance(test.op, ast.Not):
        r = _pid_test(test.operand, trees)
        return None if r is None else (r[0], not r[1])
    if isinstance(test, ast.Compare) and len(test.ops) == 1 and isinstance(test.ops[0], (ast.Eq, ast.NotEq, ast.Is, ast.IsNot)):
        a, b = test.left, test.comparators[0]
        if extract.dotted(b) == "self.pid":
            a, b = b, a
        if extract.dotted(a) == "self.pid" and not (isinstance(b, ast.Constant)):
            return _pid_source(b, trees), isinstance(test.ops[0], (ast.Eq, ast.Is))
    return None


def _routing(linux_tree, init_tree):
    """{(group, 'get'|'set'): address code}; raises NotRecognised for a shape that has no honest code."""
    trees = (linux_tree, init_tree)
    found = {}

    def target(arg, fn, guards):
        """[(kind 'pid'|'caller', guards)] for the pid argument expression `arg`."""
        if arg is None:
            return [("caller", guards)]
        if extract.dotted(arg) == "self.pid":
            return [("pid", guards)]
        if isinstance(arg, ast.Constant) and arg.value == 0 and arg.value is not False:
            return [("caller", guards)]
        if isinstance(arg, ast.IfExp):
            t = _pid_test(arg.test, trees)
            if t is None:
                raise NotRecognised("pid argument chosen by %s" % ast.dump(arg.test)[:80])
            return target(arg.body, fn, guards + [t]) + target(arg.orelse, fn, guards + [(t[0], not t[1])])
        if isinstance(arg, ast.Name):
            vals = [st.value for st in ast.walk(fn) if isinstance(st, ast.Assign)
                    and any(isinstance(x, ast.Name) and x.id == arg.id for x in st.targets)]
            if len(vals) == 1:
                return target(vals[0], fn, guards)
        raise NotRecognised("pid argument %s of a process primitive in %s" % (ast.dump(arg)[:80], fn.name))

    def visit(node, fn, group, guards):
        if isinstance(node, ast.If):
            t = _pid_test(node.test, trees)
            visit(node.test, fn, group, guards)
            for st in node.body:
                visit(st, fn, group, guards + ([t] if t else []))
            for st in node.orelse:
                visit(st, fn, group, guards + ([(t[0], not t[1])] if t else []))
            return
        if isinstance(node, ast.Call) and isinstance(node.func, ast.Attribute) and node.func.attr in _PRIMS \
                and extract.dotted(node.func.value) not in ("self", "self._proc", "proc", "p"):
            g, kind, idx = _PRIMS[node.func.attr]
            base = extract.dotted(node.func.value)
            if base == "os" and node.func.attr in ("getpriority", "setpriority"):
                idx = 1                                        # os.getpriority(which, who)
            if kind is None:
                kind = "get" if len(node.args) + len(node.keywords) <= 2 else "set"
            arg = None
            if idx is not None:
                if len(node.args) <= idx:
                    raise NotRecognised("%s.%s called without a positional pid" % (base, node.func.attr))
                arg = node.args[idx]
            for tg in target(arg, fn, list(guards)):
                found.setdefault((g, kind), []).append(tg)
        for ch in ast.iter_child_nodes(node):
            visit(ch, fn, group, guards)

    front = _methods(init_tree, "Process")
    plat = _methods(linux_tree, "Process")
    for group, (fname, pnames) in _FORM_FUNCS.items():
        for fn in [front.get(fname)] + [plat.get(n) for n in pnames]:
            if fn is None:
                raise NotRecognised("method for %s not found" % group)
            for st in fn.body:
                visit(st, fn, group, [])
    out = {}
    for _, group, kind in _ROUTE_FACTS:
        uses = found.get((group, kind))
        if not uses:
            out[(group, kind)] = NotRecognised("no process primitive found for %s %s" % (group, kind))
            continue
        shapes = set((t, tuple(sorted(set(g)))) for t, g in uses)
        if shapes == {("pid", ())}:
            out[(group, kind)] = 0
        elif shapes == {("caller", ())}:
            out[(group, kind)] = 4
        else:
            srcs = set(s for _, g in shapes for s, _ in g)
            if len(srcs) == 1 and shapes == {("caller", ((list(srcs)[0], True),)), ("pid", ((list(srcs)[0], False),))}:
                out[(group, kind)] = list(srcs)[0]
            else:
                # no honest code (e.g. a caller primitive tried first and the pid call as a fall-back): this form only
                out[(group, kind)] = NotRecognised("addressing of %s %s: %r" % (group, kind, sorted(shapes)))
    return out


def _route_code(rt, group, kind):
    v = rt[(group, kind)]
    if isinstance(v, Exception):
        raise v
    return v


def facts(snap, F):
    cache = {}

    def get(key, fn):
        if key not in cache:
            try:
                cache[key] = ("ok", fn())
            except Exception as e:  # re-raised per fact so that each one is skipped on its own
                cache[key] = ("err", e)
        st, v = cache[key]
        if st == "err":
            raise v
        return v

    linux = lambda: get("linux", lambda: extract.parse_module(snap, "_pslinux.py"))  # noqa: E731
    init = lambda: get("init", lambda: extract.parse_module(snap, "__init__.py"))  # noqa: E731
    cf = lambda: get("c", lambda: _c_facts(snap.source("arch/linux/proc.c")))  # noqa: E731
    ion = lambda: get("ion", lambda: _ionice_set_facts(linux()))  # noqa: E731
    rl = lambda: get("rl", lambda: _rlimit_facts(linux()))  # noqa: E731
    fe = lambda: get("fe", lambda: _front_empty(init()))  # noqa: E731
    shape = lambda: get("shape", lambda: _affinity_set_shape(linux()))  # noqa: E731
    loop = lambda: get("loop", lambda: _aff_loop(procc()))  # noqa: E731

    posix = lambda: get("posix", lambda: snap.source("_psutil_posix.c"))  # noqa: E731
    procc = lambda: get("procc", lambda: snap.source("arch/linux/proc.c"))  # noqa: E731
    gp = lambda: get("gp", lambda: _errno_proto(posix(), "psutil_posix_getpriority", r"\bgetpriority\s*\(", "priority"))  # noqa: E731
    ig = lambda: get("ig", lambda: _errno_proto(procc(), "psutil_proc_ioprio_get", r"\bioprio_get\s*\(", "ioprio"))  # noqa: E731
    ag = lambda: get("ag", lambda: _affinity_get_proto(procc()))  # noqa: E731
    F.try_add("getpriorityClearsErrno", "Bool", lambda: extract.lean_bool(gp()[0]),
              "psutil_posix_getpriority executes `errno = 0;` before getpriority(2) (whose legitimate results include -1)")
    F.try_add("getpriorityErrTest", "Nat", lambda: extract.lean_nat(gp()[1]),
              "failure test after getpriority(2): 0 = `errno != 0`, 1 = `priority == -1 && errno != 0`, 2 = `priority == -1`")
    F.try_add("ioprioGetClearsErrno", "Bool", lambda: extract.lean_bool(ig()[0]),
              "psutil_proc_ioprio_get executes `errno = 0;` before ioprio_get(2)")
    F.try_add("ioprioGetErrTest", "Nat", lambda: extract.lean_nat(ig()[1]),
              "failure test after ioprio_get(2): 0 = `errno != 0`, 1 = `ioprio == -1 && errno != 0`, 2 = `ioprio == -1`")
    F.try_add("affinityGetClearsErrno", "Bool", lambda: extract.lean_bool(ag()[0]),
              "psutil_proc_cpu_affinity_get executes `errno = 0;` before sched_getaffinity(2)")
    F.try_add("affinityGetErrTest", "Nat", lambda: extract.lean_nat(ag()[1]),
              "success test of sched_getaffinity(2): 2 = the return value alone (`== 0` -> break), errno read only after a failure")
    F.try_add("affinityEinvalRaisesValueError", "Bool", lambda: extract.lean_bool(shape()["einval_ve"]),
              "cpu_affinity_set raises ValueError for the kernel's EINVAL when its diagnosis loop finds no offending CPU (fixes/C18-ineligible-valueerror.diff); false = EINVAL is passed on as OSError")
    F.try_add("ioprioClassShift", "Nat", lambda: extract.lean_nat(cf()[0]),
              "IOPRIO_CLASS_SHIFT of psutil/arch/linux/proc.c")
    F.try_add("ioprioMacrosCanonical", "Bool", lambda: extract.lean_bool(cf()[1]),
              "IOPRIO_PRIO_MASK/CLASS/DATA/VALUE have the canonical shape and are what ioprio_get/set use")
    F.try_add("ioprioSetRangeCheck", "Option (Int × Int × Int × Int)",
              lambda: extract.lean_opt(_c_range(snap.source("arch/linux/proc.c")),
                                       lambda t: "(" + ", ".join(extract.lean_int(x) for x in t[:4]) + ")"),
              "bounds (a, b, c, d) of the argument check `if (ioclass < a || ioclass > b || iodata < c || iodata > d)` of psutil_proc_ioprio_set before the packing (what it raises: fact ioprioSetRangeRaisesEinval); none = no such check")
    F.try_add("ioprioSetRangeRaisesEinval", "Bool",
              lambda: extract.lean_bool(bool((_c_range(snap.source("arch/linux/proc.c")) or (0, 0, 0, 0, False))[4])),
              "that argument check raises OSError(EINVAL) (true) or ValueError (false; also when there is no check)")
    F.try_add("ioniceDefaultLevel", "Int", lambda: extract.lean_int(ion()["default"]),
              "`if value is None: value = …` in _pslinux.Process.ionice_set")
    F.try_add("ioniceLevelMin", "Int", lambda: extract.lean_int(ion()["lo"]),
              "ionice_set raises ValueError when value < this")
    F.try_add("ioniceLevelMax", "Int", lambda: extract.lean_int(ion()["hi"]),
              "ionice_set raises ValueError when value > this")
    F.try_add("ioniceNoValueClasses", "List Int",
              lambda: extract.lean_list(ion()["classes"], extract.lean_int),
              "the I/O classes for which ionice_set refuses a non-zero value (enum members resolved)")
    F.try_add("ioPriorityMembers", "List Nat", lambda: extract.lean_list(ion()["enum"], extract.lean_nat),
              "values of the IOPriority enum")
    F.try_add("rlimitPairLen", "Nat", lambda: extract.lean_nat(rl()["pair"]),
              "`len(limits) != …` in _pslinux.Process.rlimit")
    F.try_add("rlimitRefusesPid0", "Bool", lambda: extract.lean_bool(rl()["pid0"]),
              "_pslinux.Process.rlimit raises ValueError for PID 0")
    F.try_add("ioniceValueWithoutClassRaises", "Bool", lambda: extract.lean_bool(_front_ionice(init())),
              "Process.ionice(value=…) without ioclass raises ValueError")
    F.try_add("emptyAffinityRange", "Option Nat", lambda: extract.lean_opt(fe()["empty_range"], extract.lean_nat),
              "cpu_affinity([]) on Linux: `some n` = asks the kernel for CPUs 0..n-1; `none` = uses _get_eligible_cpus() (the current mask of /proc/pid/status)")
    F.try_add("emptyAffinityUsesStatCount", "Bool", lambda: extract.lean_bool(fe()["empty_count"]),
              "cpu_affinity([]) on Linux asks for range(len(cpu_times(percpu=True))): CPUs 0..N-1, N = number of cpuN lines of /proc/stat (misses eligible CPUs with id >= N: offline CPU in the middle, virtualised /proc/stat)")
    F.try_add("affinityGetSortedSet", "Bool", lambda: extract.lean_bool(_front_get_sorted(init())),
              "cpu_affinity() returns sorted(set(...)) of the native result")
    F.try_add("affinitySetDedup", "Bool", lambda: extract.lean_bool(_front_set_dedup(init())),
              "cpu_affinity(cpus) hands list(set(cpus)) to the platform layer")
    F.try_add("affinityOverflowRaisesValueError", "Bool", lambda: extract.lean_bool(shape()["overflow"]),
              "cpu_affinity_set catches the OverflowError of PyLong_AsLong (a CPU number that does not fit a C long) and sends it through its diagnosis loop, which raises ValueError (fixes/C18-affinity-overflow-valueerror.diff); false = it propagates as OverflowError")
    F.try_add("setpriorityChecksRetval", "Bool",
              lambda: extract.lean_bool(_setter_checks(posix(), "psutil_posix_setpriority", r"\bsetpriority\s*\(")),
              "psutil_posix_setpriority tests the return value of setpriority(2) and raises OSError from errno")
    F.try_add("ioprioSetChecksRetval", "Bool",
              lambda: extract.lean_bool(_setter_checks(procc(), "psutil_proc_ioprio_set", r"\bioprio_set\s*\(")),
              "psutil_proc_ioprio_set tests the return value of ioprio_set(2) and raises OSError from errno")
    F.try_add("affinitySetChecksRetval", "Bool",
              lambda: extract.lean_bool(_setter_checks(procc(), "psutil_proc_cpu_affinity_set", r"\bsched_setaffinity\s*\(")),
              "psutil_proc_cpu_affinity_set tests the return value of sched_setaffinity(2) and raises OSError from errno")
    F.try_add("affinityGetInitBits", "Nat", lambda: extract.lean_nat(loop()[0]),
              "psutil_proc_cpu_affinity_get: CPUs in the first mask it tries (`sizeof(unsigned long) * CHAR_BIT` = 64; 0 = not recognised)")
    F.try_add("affinityGetRetryTest", "Nat", lambda: extract.lean_nat(loop()[1]),
              "which failures of sched_getaffinity(2) are retried with a larger mask: 0 = only EINVAL (`if (errno != EINVAL) return error`), 1 = everything but EINVAL (test flipped), 2 = every failure (no test), 3 = none")
    F.try_add("affinityGetGrowth", "Nat × Nat",
              lambda: "(%s, %s)" % tuple(extract.lean_nat(x) for x in loop()[2]),
              "(mul, add): the next mask has `ncpus * mul + add` CPUs; (2, 0) = doubling, (1, 0) = the mask never grows")
    F.try_add("affinitySetCpuBits", "Nat", lambda: extract.lean_nat(_cpu_num_bits(procc())),
              "psutil_proc_cpu_affinity_set: width in bits of the signed C integer that holds a CPU number between PyLong_AsLong(item) and CPU_SET (declared type of the variable, casts on the way); 64 = a C long keeps every number PyLong_AsLong delivers, anything narrower wraps a number >= 2^(bits-1) onto another one before the -1 test and CPU_SET see it")
    F.try_add("rlimitGetOtherSources", "Nat", lambda: extract.lean_nat(_rlimit_other_sources(linux(), init())),
              "number of statements of _pslinux.Process.rlimit / the front-end Process.rlimit that hand back a value which is not "
              "the result of resource.prlimit(self.pid, resource_) (resp. of self._proc.rlimit(resource, limits)): 0 = the get form "
              "answers with what prlimit(2) reported or raises; anything else = an answer taken from another source "
              "(/proc/<pid>/limits, a cache, a default …)")
    rt = lambda: get("rt", lambda: _routing(linux(), init()))  # noqa: E731
    for name, group, kind in _ROUTE_FACTS:
        F.try_add(name, "Nat", (lambda g=group, k=kind: extract.lean_nat(_route_code(rt(), g, k))),
                  "which process the %s form of %s addresses: 0 = every process primitive it calls receives self.pid; 1 / 2 / 3 = a "
                  "primitive acting on the CALLER when self.pid == os.getpid() evaluated in the call / remembered on the object / "
                  "remembered in a module global (else self.pid); 4 = always the caller" % (kind, group))


# ------------------------------------------------------------------------------ simulated kernel


def cpulist(cpus):
    """The kernel's `%*pbl` rendering of a CPU mask: ranges for runs of two or more."""
    cpus = sorted(set(cpus))
    out = []
    i = 0
    while i < len(cpus):
        j = i
        while j + 1 < len(cpus) and cpus[j + 1] == cpus[j] + 1:
            j += 1
        out.append("%d-%d" % (cpus[i], cpus[j]) if j > i else "%d" % cpus[i])
        i = j + 1
    return ",".join(out)


def _c_int(v):
    if isinstance(v, float):
        raise TypeError("integer argument expected, got float")
    if not isinstance(v, int):
        v = v.__index__() if hasattr(v, "__index__") else (_ for _ in ()).throw(TypeError("an integer is required"))
    if v > 2**31 - 1:
        raise OverflowError("signed integer is greater than maximum")
    if v < -2**31:
        raise OverflowError("signed integer is less than minimum")
    return int(v)


def _c_long(v):
    if not isinstance(v, int):
        if hasattr(v, "__index__"):
            v = v.__index__()
        else:
            raise TypeError("an integer is required")
    if not (-2**63 <= v < 2**63):
        raise OverflowError("Python int too large to convert to C long")
    return int(v)


def _oserr(cls, eno):
    return cls(eno, os.strerror(eno))


class Sim:
    """Native layer + kernel, written from the C sources and the man pages."""

    def __init__(self, world, on_affinity=None, native_range=None):
        self.native_range = native_range
        self.self_pid = world["self"]
        self.ncpu = world["ncpu"]
        self.online = list(world.get("online", range(world["ncpu"])))
        self.nr_open = world["nr_open"]
        self.cap = world["cap"]
        # processes of another user: prlimit(2) on them (get and set alike) needs CAP_SYS_RESOURCE (prlimit(2), EPERM)
        self.foreign = {p["pid"] for p in world["procs"] if p.get("foreign")}
        gone = set(world.get("gone_pids", ()))          # processes that have vanished: the kernel answers ESRCH
        self.order = [p["pid"] for p in world["procs"] if p["pid"] not in gone]
        self.procs = {p["pid"]: {"nice": p["nice"], "ioprio": p["ioprio"], "affinity": list(p["affinity"]),
                                 "cpuset": list(p["cpuset"]), "rlimits": [list(x) for x in p["rlimits"]]}
                      for p in world["procs"] if p["pid"] not in gone}
        self.log = []
        self.on_affinity = on_affinity

    def _task(self, who):
        pid = self.self_pid if who == 0 else who
        if pid not in self.procs:
            raise _oserr(ProcessLookupError, errno.ESRCH)
        return pid, self.procs[pid]

    # _psutil_posix
    def getpriority(self, pid):
        _, st = self._task(_c_int(pid))
        return st["nice"]

    def setpriority(self, pid, value):
        pid, value = _c_int(pid), _c_int(value)
        p, st = self._task(pid)
        v = max(-20, min(19, value))
        st["nice"] = v
        self.log.append(["nice", p, v])

    # arch/linux/proc.c
    def proc_ioprio_get(self, pid):
        _, st = self._task(_c_int(pid))
        v = st["ioprio"]
        return (v >> 13, v & ((1 << 13) - 1))

    def proc_ioprio_set(self, pid, ioclass, iodata):
        pid, c, d = _c_int(pid), _c_int(ioclass), _c_int(iodata)
        if self.native_range is not None:
            a, b, x, y, einval = self.native_range
            if c < a or c > b or d < x or d > y:
                if einval:
                    raise _oserr(OSError, errno.EINVAL)
                raise ValueError("ioclass or value out of range")
        v = (c << 13) | d
        v = (v + 2**31) % 2**32 - 2**31          # what this build does on overflow (C17's matter)
        cls, level = (v >> 13) & 7, v & 7
        if cls in (1, 2, 3):
            pass
        elif cls == 0:
            if level:
                raise _oserr(OSError, errno.EINVAL)
        else:
            raise _oserr(OSError, errno.EINVAL)
        p, st = self._task(pid)
        st["ioprio"] = v & 0xFFFF
        self.log.append(["ioprio", p, v & 0xFFFF])

    def proc_cpu_affinity_get(self, pid):
        _, st = self._task(_c_int(pid))
        return sorted(st["affinity"])

    def proc_cpu_affinity_set(self, pid, cpus):
        pid = _c_int(pid)
        if not hasattr(cpus, "__getitem__") or isinstance(cpus, (dict, set, frozenset)):
            raise TypeError("sequence argument expected, got %r" % type(cpus))
        mask = set()
        for item in cpus:
            v = _c_long(item)
            if v == -1:
                raise ValueError("invalid CPU value")
            if 0 <= v < 1024:
                mask.add(v)
        p, st = self._task(pid)
        g = [c for c in sorted(self.online) if c in mask and c in st["cpuset"]]      # cpus_allowed & online & request
        if not g:
            raise _oserr(OSError, errno.EINVAL)
        st["affinity"] = g
        self.log.append(["affinity", p, g])
        if self.on_affinity:
            self.on_affinity(p)

    # CPython resource.prlimit
    def prlimit(self, pid, res, limits=None):
        pid, res = _c_int(pid), _c_int(res)
        if res < 0 or res >= 16:
            raise ValueError("invalid resource specified")
        if limits is None:
            p, st = self._task(pid)
            if p in self.foreign and not self.cap:
                raise _oserr(PermissionError, errno.EPERM)
            s, h = st["rlimits"][res]
            return (s - U64 if s >= 2**63 else s, h - U64 if h >= 2**63 else h)
        t = tuple(limits)
        if len(t) != 2:
            raise ValueError("expected a tuple of 2 integers")
        s, h = _c_long(t[0]) % U64, _c_long(t[1]) % U64
        p, st = self._task(pid)
        if p in self.foreign and not self.cap:
            raise _oserr(PermissionError, errno.EPERM)
        old = st["rlimits"][res]
        if s > h:
            raise ValueError("current limit exceeds maximum limit")
        if res == 7 and h > self.nr_open:
            raise _oserr(PermissionError, errno.EPERM)
        if h > old[1] and not self.cap:
            raise _oserr(PermissionError, errno.EPERM)
        st["rlimits"][res] = [s, h]
        self.log.append(["rlimit", p, res, s, h])
        return old and (old[0] - U64 if old[0] >= 2**63 else old[0], old[1] - U64 if old[1] >= 2**63 else old[1])

    # ---- the same attributes through the primitives that act on the CALLING process or take `who` in another
    # position (os.getpriority/setpriority/nice, os.sched_*affinity, resource.getrlimit/setrlimit): the code as it is
    # calls none of them; a change that does must meet the same kernel (seeded C18-5: setrlimit() "when the target is me")
    def os_getpriority(self, which, who):
        if _c_int(which) != 0:
            raise _oserr(OSError, errno.EINVAL)
        return self.getpriority(who)

    def os_setpriority(self, which, who, prio):
        if _c_int(which) != 0:
            raise _oserr(OSError, errno.EINVAL)
        return self.setpriority(who, prio)

    def os_nice(self, incr):
        _, st = self._task(0)
        self.setpriority(0, st["nice"] + _c_int(incr))
        return st["nice"]

    def os_sched_getaffinity(self, pid):
        return set(self.proc_cpu_affinity_get(pid))

    def os_sched_setaffinity(self, pid, mask):
        cpus = [_c_long(c) for c in mask]
        if any(c < 0 for c in cpus):
            raise ValueError("negative CPU number")
        return self.proc_cpu_affinity_set(pid, [c for c in cpus if c < 1024])

    def getrlimit(self, res):
        return self.prlimit(0, res)

    def setrlimit(self, res, limits):
        try:
            self.prlimit(0, res, limits)
        except PermissionError:
            raise ValueError("not allowed to raise maximum limit") from None

    def dump(self):
        return [{"pid": p, "nice": st["nice"], "ioprio": st["ioprio"], "affinity": list(st["affinity"]),
                 "cpuset": list(st["cpuset"]), "rlimits": [list(x) for x in st["rlimits"]]}
                for p, st in ((p, self.procs[p]) for p in self.order)]


class _ResourceProxy:
    def __init__(self, real, prlimit, getrlimit=None, setrlimit=None):
        self._real = real
        self.prlimit = prlimit
        if getrlimit is not None:
            self.getrlimit = getrlimit
            self.setrlimit = setrlimit

    def __getattr__(self, n):
        return getattr(self._real, n)


class _OsProxy:
    """The `os` module as the snapshot's modules see it in the simulated part: everything is the real module except the
    identity of the calling process (`getpid`) and the primitives that act on a process's niceness / affinity."""

    def __init__(self, real, overrides):
        self._real = real
        self.__dict__.update(overrides)

    def __getattr__(self, n):
        return getattr(self._real, n)


def canon_exc(ps, e):
    d = {"kind": "exc", "exc": type(e).__name__}
    if isinstance(e, ps.Error):
        d["pid"] = getattr(e, "pid", None)
    elif isinstance(e, OSError):
        if type(e) is OSError:
            d["errno"] = errno.errorcode.get(e.errno, str(e.errno))
    return d


def canon_ok(ps, req, r):
    k = req["kind"]
    is_get = (k == "nice" and req.get("value") is None) or \
             (k == "ionice" and req.get("ioclass") is None) or \
             (k == "cpu_affinity" and req.get("cpus") is None) or \
             (k == "rlimit" and req.get("limits") is None)
    if not is_get:
        return {"kind": "ok", "value": None if r is None else {"unexpected": repr(r)}}
    try:
        if k == "nice":
            if type(r) is not int:
                return {"kind": "ok", "value": {"unexpected": repr(r)}}
            return {"kind": "ok", "value": r}
        if k == "ionice":
            # pionice(ioclass=<IOPriority member>, value=<int>)
            if not (isinstance(r, tuple) and type(r).__name__ == "pionice" and r._fields == ("ioclass", "value")
                    and type(r.ioclass) is ps._psplatform.IOPriority and type(r.value) is int
                    and r[0] is r.ioclass and r[1] is r.value):
                return {"kind": "ok", "value": {"unexpected": repr(r)}}
            return {"kind": "ok", "value": {"ioclass": int(r.ioclass), "data": int(r.value)}}
        if k == "cpu_affinity":
            if type(r) is not list or any(type(x) is not int for x in r):
                return {"kind": "ok", "value": {"unexpected": repr(r)}}
            return {"kind": "ok", "value": [int(x) for x in r]}
        if k == "rlimit":
            if type(r) is not tuple or len(r) != 2 or any(type(x) is not int for x in r):
                return {"kind": "ok", "value": {"unexpected": repr(r)}}
            s, h = r
            return {"kind": "ok", "value": [int(s), int(h)]}
    except Exception:
        pass
    return {"kind": "ok", "value": {"unexpected": repr(r)}}


# ---- the arguments as Python objects (Model/C18.lean §6) --------------------------------------------------------
#
# A request may say in which FORM each argument is handed over; the driver receives the same fields and runs the model
# on the forms (`stepPy`). Scalars: "int" (default) | "enum" (a member of an IntEnum: for an I/O class 0..3 the real
# `psutil.IOPRIO_CLASS_*` constant, otherwise a member of an IntEnum made here) | "bool". CPUs: "list" (default) |
# "tuple" | "set" | "range" | "iterator". Limits: "tuple" (default) | "list" | "iterator". "kw": arguments by keyword.

_ENUMS = {}


def _enum_member(v):
    if v not in _ENUMS:
        _ENUMS[v] = enum.IntEnum("PsvConst%d" % len(_ENUMS), {"MEMBER": v}).MEMBER
    return _ENUMS[v]


def scalar_obj(ps, req, key):
    v = req.get(key)
    form = req.get(key + "_form", "int")
    if v is None:
        return None
    if form == "int":
        return v
    if form == "bool":
        return bool(v)
    if form == "enum":
        if key == "ioclass" and v in (0, 1, 2, 3):
            const = getattr(ps, ("IOPRIO_CLASS_NONE", "IOPRIO_CLASS_RT", "IOPRIO_CLASS_BE", "IOPRIO_CLASS_IDLE")[v])
            if int(const) != v or not isinstance(const, ps._psplatform.IOPriority):
                raise AssertionError("psutil.IOPRIO_CLASS_* constant for %d is %r" % (v, const))
            return const
        return _enum_member(v)
    raise ValueError(form)


def cpus_obj(req):
    l = list(req["cpus"])
    form = req.get("cpus_form", "list")
    if form == "list":
        return l
    if form == "tuple":
        return tuple(l)
    if form == "set":
        return frozenset(l) if len(l) % 2 else set(l)
    if form == "range":
        if l != list(range(l[0], l[0] + len(l))) if l else False:
            raise ValueError("not a range: %r" % l)
        return range(l[0], l[0] + len(l)) if l else range(0)
    if form == "iterator":
        return (c for c in l) if len(l) % 2 else iter(l)
    raise ValueError(form)


def limits_obj(req):
    l = list(req["limits"])
    form = req.get("limits_form", "tuple")
    if form == "tuple":
        return tuple(l)
    if form == "list":
        return l
    if form == "iterator":
        return (x for x in l)
    raise ValueError(form)


def call_front(ps, proc, req):
    k = req["kind"]
    kw = bool(req.get("kw"))
    if k == "nice":
        if req.get("value") is None:
            return proc.nice()
        v = scalar_obj(ps, req, "value")
        return proc.nice(value=v) if kw else proc.nice(v)
    if k == "ionice":
        c, v = scalar_obj(ps, req, "ioclass"), scalar_obj(ps, req, "value")
        return proc.ionice(ioclass=c, value=v) if kw else proc.ionice(c, v)
    if k == "cpu_affinity":
        if req.get("cpus") is None:
            return proc.cpu_affinity()
        return proc.cpu_affinity(cpus=cpus_obj(req)) if kw else proc.cpu_affinity(cpus_obj(req))
    if k == "rlimit":
        r = scalar_obj(ps, req, "res")
        if req.get("limits") is None:
            return proc.rlimit(resource=r) if kw else proc.rlimit(r)
        return proc.rlimit(resource=r, limits=limits_obj(req)) if kw else proc.rlimit(r, limits_obj(req))
    raise ValueError(req)


def driver_req(req):
    """The request as the driver wants it (without the harness-only fields)."""
    return {k: v for k, v in req.items() if k != "kw"}


# ------------------------------------------------------------------------------ call modes
#
# The same public call made in different surroundings. None of them may change an answer or an effect: the
# model side is the same for all (the only context the model takes is the cached status file of a oneshot block).

MODES = ("plain", "oneshot", "oneshot-warm", "as_dict", "iter", "iter-info", "second")
_AD = object()          # ad_value sentinel: as_dict()/process_iter(attrs) swallowed an AccessDenied
ATTR_OF = {"nice": "nice", "ionice": "ionice", "cpu_affinity": "cpu_affinity"}


def is_get(req):
    k = req["kind"]
    return (k == "nice" and req.get("value") is None) or (k == "ionice" and req.get("ioclass") is None
                                                          and req.get("value") is None) or \
           (k == "cpu_affinity" and req.get("cpus") is None) or (k == "rlimit" and req.get("limits") is None)


def warm_up(proc):
    """Fill the oneshot caches (stat, status, …) the way an application that asks several things would."""
    for name in ("num_threads", "uids", "name", "ppid", "cpu_times", "num_ctx_switches"):
        try:
            getattr(proc, name)()
        except Exception:  # noqa: BLE001 — warm-up only
            pass


def mode_for(req, mode):
    """The mode actually usable for this request (as_dict / info only exist for argument-less getters)."""
    if mode in ("as_dict", "iter-info") and not (is_get(req) and req["kind"] in ATTR_OF):
        return "oneshot" if mode == "as_dict" else "iter"
    return mode


def iter_object(ps, pid, attrs=None):
    kw = {} if attrs is None else {"attrs": attrs, "ad_value": _AD}
    found = None
    for p in ps.process_iter(**kw):
        if p.pid == pid:
            found = p
    if found is None:
        raise ps.NoSuchProcess(pid)
    return found


def call_in_mode(ps, proc, req, mode):
    """Run `req` on `proc` (or on the object process_iter() yields for the same PID) in `mode`."""
    mode = mode_for(req, mode)
    if mode == "plain":
        return call_front(ps, proc, req)
    if mode == "oneshot":
        with proc.oneshot():
            return call_front(ps, proc, req)
    if mode == "oneshot-warm":
        with proc.oneshot():
            warm_up(proc)
            return call_front(ps, proc, req)
    if mode == "as_dict":
        name = ATTR_OF[req["kind"]]
        r = proc.as_dict(attrs=[name], ad_value=_AD)[name]
        if r is _AD:
            raise ps.AccessDenied(proc.pid)
        return r
    if mode == "iter":
        return call_front(ps, iter_object(ps, proc.pid), req)
    if mode == "iter-info":
        name = ATTR_OF[req["kind"]]
        r = iter_object(ps, proc.pid, [name]).info[name]
        if r is _AD:
            raise ps.AccessDenied(proc.pid)
        return r
    if mode == "second":
        if is_get(req):
            r1 = call_front(ps, proc, req)
            r2 = call_front(ps, proc, req)
            if canon_ok(ps, req, r1) != canon_ok(ps, req, r2):
                return ("two calls differ", r1, r2)          # canon_ok reports it as unexpected
            return r2
        try:
            call_front(ps, proc, getter(req))                # the object has answered the get form before
        except Exception:  # noqa: BLE001
            pass
        return call_front(ps, proc, req)
    raise ValueError(mode)


class SimImpl:
    """Real psutil front end + _pslinux over a fake procfs and the simulated native layer."""

    def __init__(self, ctx):
        self.ps = ctx.psutil
        self.pl = self.ps._pslinux
        self.fp = FakeProc(self.ps, prefix="psv-c18-")
        self.sim = None
        self.cur_ncpu = None
        try:
            self.native_range = _c_range(ctx.snap.source("arch/linux/proc.c"))
        except NotRecognised:
            self.native_range = None
        with open("/proc/self/stat", "rb") as f:
            data = f.read()
        self.stat_tail = data[data.rfind(b")") + 1:]
        self.stat_tail_z = b" Z" + self.stat_tail[2:]      # the same line for a zombie (state letter Z)
        assert self.stat_tail[:1] == b" " and self.stat_tail[2:3] == b" ", self.stat_tail[:8]
        with open("/proc/self/status", "rb") as f:
            self.status_lines = f.read().split(b"\n")
        self.saved = []
        for mod, names in ((self.pl.cext_posix, ("getpriority", "setpriority")),
                           (self.pl.cext, ("proc_ioprio_get", "proc_ioprio_set",
                                           "proc_cpu_affinity_get", "proc_cpu_affinity_set"))):
            for n in names:
                self.saved.append((mod, n, getattr(mod, n)))
                setattr(mod, n, self._fwd(n))
        self.saved.append((self.pl, "resource", self.pl.resource))
        self.pl.resource = _ResourceProxy(self.pl.resource, self._fwd("prlimit"), self._fwd("getrlimit"), self._fwd("setrlimit"))
        # who is calling: os.getpid() answers the pid of the simulated caller (at object creation: of the process that
        # creates the object); the module itself was imported by THIS process (os.getpid() of the harness), which
        # is what a pid remembered at import time holds
        self.getpid_value = os.getpid()
        self.os_proxy = _OsProxy(os, {"getpid": lambda: self.getpid_value,
                                      "getpriority": self._fwd("os_getpriority"), "setpriority": self._fwd("os_setpriority"),
                                      "nice": self._fwd("os_nice"), "sched_getaffinity": self._fwd("os_sched_getaffinity"),
                                      "sched_setaffinity": self._fwd("os_sched_setaffinity")})
        pkg = self.ps.__name__
        for name, mod in sorted(sys.modules.items()):
            if mod is not None and (name == pkg or name.startswith(pkg + ".")) and getattr(mod, "os", None) is os:
                self.saved.append((mod, "os", os))
                mod.os = self.os_proxy
        self.pl.BOOT_TIME = None

    def _fwd(self, name):
        def f(*a, **kw):
            return getattr(self.sim, name)(*a, **kw)
        f.__name__ = name
        return f

    def close(self):
        self.end_block()
        self.getpid_value = os.getpid()
        for obj, n, v in reversed(self.saved):
            setattr(obj, n, v)
        self.fp.close()
        self.pl.BOOT_TIME = None

    def _write_status(self, pid):
        st = self.sim.procs[pid]
        lines = []
        for l in self.status_lines:
            if l.startswith(b"Cpus_allowed_list:"):
                l = b"Cpus_allowed_list:\t" + cpulist(st["affinity"]).encode()
            elif l.startswith(b"Pid:"):
                l = b"Pid:\t%d" % pid
            lines.append(l)
        self.fp.write("%d/status" % pid, b"\n".join(lines))

    def _write_limits(self, pid):
        """/proc/<pid>/limits as fs/proc/base.c:proc_pid_limits prints it: world-readable, one row per resource, showing
        what the kernel holds — the other source a get form could answer from when prlimit(2) is refused."""
        rows = [b"%-25s %-20s %-20s %-10s\n" % (b"Limit", b"Soft Limit", b"Hard Limit", b"Units")]
        rl = self.sim.procs[pid]["rlimits"]
        for r, (name, unit) in enumerate(PROC_LIMITS_ROWS):
            cells = [b"unlimited" if v == INF else b"%d" % v for v in rl[r]]
            rows.append(b"%-25s %-20s %-20s %-10s\n" % (name, cells[0], cells[1], unit))
        self.fp.write("%d/limits" % pid, b"".join(rows))

    def begin(self, world):
        self.sim = Sim(world, on_affinity=self._write_status, native_range=self.native_range)
        ids = tuple(stat_ids(world))
        if ids != self.cur_ncpu:
            # one cpuN line per ONLINE CPU (ids with holes), or whatever a virtualised procfs shows
            rows = ["cpu  10 0 10 100 0 0 0 0 0 0"]
            rows += ["cpu%d 1 0 1 10 0 0 0 0 0 0" % i for i in ids]
            rows += ["intr 0", "ctxt 0", "btime 1700000000", "processes 1", "procs_running 1", "procs_blocked 0"]
            self.fp.write("stat", "\n".join(rows) + "\n")
            self.cur_ncpu = ids
        zombies = set(world.get("zombie_pids", ()))
        for pid in self.sim.order:
            want = b"%d (psv-c18)" % pid + (self.stat_tail_z if pid in zombies else self.stat_tail)
            path = self.fp.path("%d/stat" % pid)
            if not os.path.exists(path) or open(path, "rb").read() != want:
                self.fp.write("%d/stat" % pid, want)
            self._write_status(pid)
            if world.get("limits_file"):
                self._write_limits(pid)
            elif os.path.exists(self.fp.path("%d/limits" % pid)):
                self.fp.remove("%d/limits" % pid)
        # PID 0 exists in this procfs only so that Process(0) can be built; it mirrors the caller
        if not os.path.exists(self.fp.path("0/stat")):
            self.fp.write("0/stat", b"0 (psv-c18)" + self.stat_tail)
            self.fp.write("0/status", b"\n".join(self.status_lines))
        self.end_block()
        self.limits_file = bool(world.get("limits_file"))
        self.objs = {}
        self.create_self = world.get("create_self", world["self"])
        self.getpid_value = self.create_self
        # a process that vanishes: the Process object is made while it exists, then the kernel forgets it (ESRCH)
        # and /proc/<pid> disappears
        for p in world["procs"]:
            pid = p["pid"]
            if pid in world.get("gone_pids", ()):
                self.fp.write("%d/stat" % pid, b"%d (psv-c18)" % pid + self.stat_tail)
                self.fp.write("%d/status" % pid, b"\n".join(self.status_lines))
                self.objs[pid] = self.ps.Process(pid)
                self.fp.remove("%d" % pid)

    def begin_block(self, pid):
        """Everything that follows on `pid` happens inside ONE `with p.oneshot():` whose caches are warm."""
        self.end_block()
        if pid not in self.objs:
            self.getpid_value = self.create_self
            self.objs[pid] = self.ps.Process(pid)
        self.getpid_value = self.sim.self_pid
        cm = self.objs[pid].oneshot()
        cm.__enter__()
        self.block = (pid, cm)
        warm_up(self.objs[pid])

    def end_block(self):
        blk, self.block = getattr(self, "block", None), None
        if blk is not None:
            try:
                blk[1].__exit__(None, None, None)
            except Exception:  # noqa: BLE001
                pass

    def do(self, pid, req, mode="plain"):
        self.sim.log = []
        try:
            if pid not in self.objs:
                self.getpid_value = self.create_self          # the process that makes the object …
                self.objs[pid] = self.ps.Process(pid)
            self.getpid_value = self.sim.self_pid             # … and the one that makes the call
            out = canon_ok(self.ps, req, call_in_mode(self.ps, self.objs[pid], req, mode))
        except BaseException as e:  # noqa: BLE001 — every exception is an observable
            if isinstance(e, (KeyboardInterrupt, SystemExit)):
                raise
            out = canon_exc(self.ps, e)
        if self.sim.log and getattr(self, "limits_file", False):
            for e in self.sim.log:
                if e[0] == "rlimit" and e[1] in self.sim.procs:
                    self._write_limits(e[1])
        return {"out": out, "procs": self.sim.dump(), "log": list(self.sim.log)}


# resource number -> (label, unit) of its row in /proc/<pid>/limits (fs/proc/base.c `lnames`, indexed by RLIMIT_*)
PROC_LIMITS_ROWS = [
    (b"Max cpu time", b"seconds"), (b"Max file size", b"bytes"), (b"Max data size", b"bytes"), (b"Max stack size", b"bytes"),
    (b"Max core file size", b"bytes"), (b"Max resident set", b"bytes"), (b"Max processes", b"processes"),
    (b"Max open files", b"files"), (b"Max locked memory", b"bytes"), (b"Max address space", b"bytes"),
    (b"Max file locks", b"locks"), (b"Max pending signals", b"signals"), (b"Max msgqueue size", b"bytes"),
    (b"Max nice priority", b""), (b"Max realtime priority", b""), (b"Max realtime timeout", b"us")]

# ------------------------------------------------------------------------------ worlds and requests

DEFAULT_RL = [[1000 + 10 * r, 5000 + 10 * r] for r in range(16)]


def stat_ids(world):
    """CPU ids that have a cpuN line in /proc/stat: the online CPUs unless the world virtualises the file."""
    if world.get("stat_ids") is not None:
        return list(world["stat_ids"])
    return sorted(world.get("online", range(world["ncpu"])))


def mk_proc(pid, nice=0, ioprio=0, affinity=None, cpuset=None, rlimits=None, ncpu=4, online=None):
    online = list(range(ncpu)) if online is None else sorted(online)
    cpuset = list(online) if cpuset is None else list(cpuset)
    el = [c for c in online if c in cpuset]
    return {"pid": pid, "nice": nice, "ioprio": ioprio,
            "affinity": list(el if affinity is None else affinity), "cpuset": cpuset,
            "rlimits": [list(x) for x in (rlimits or DEFAULT_RL)]}


def mk_world(ncpu=4, cap=True, nr_open=1048576, online=None, stat=None, **target):
    """ncpu = possible CPU ids 0..ncpu-1; online = the online ones (holes allowed; default all); stat = ids shown
    by a virtualised /proc/stat (default: one cpuN line per online CPU). cpusets are subsets of `online`."""
    w = {"self": SELF_PID, "ncpu": ncpu, "nr_open": nr_open, "cap": cap,
         "procs": [mk_proc(T_PID, ncpu=ncpu, online=online, **target),
                   mk_proc(S_PID, ncpu=ncpu, online=online, nice=3, ioprio=(2 << 13) | 5,
                           rlimits=[[7 + r, INF] for r in range(16)]),
                   mk_proc(SELF_PID, ncpu=ncpu, online=online, nice=-1, ioprio=(1 << 13) | 2)]}
    if online is not None or stat is not None:
        w["online"] = sorted(online) if online is not None else list(range(ncpu))
        if stat is not None:
            w["stat_ids"] = list(stat)
        w["stat_cpus"] = len(stat_ids(w))
    return w


def R_nice(v=None):
    return {"kind": "nice", "value": v}


def R_ionice(c=None, v=None):
    return {"kind": "ionice", "ioclass": c, "value": v}


def R_aff(cpus=None):
    return {"kind": "cpu_affinity", "cpus": None if cpus is None else list(cpus)}


def R_rl(res, limits=None):
    return {"kind": "rlimit", "res": res, "limits": None if limits is None else list(limits)}


def op(pid, req):
    return {"pid": pid, "req": req}


def getter(req):
    k = req["kind"]
    return {"nice": R_nice(), "ionice": R_ionice(), "cpu_affinity": R_aff(),
            "rlimit": R_rl(req.get("res", 0))}[k]


def exhaustive_histories(tier):
    """(tag, world, ops) for every finite sub-domain the property quantifies over."""
    # nice: every value -20..19 and the neighbours, the C int borders
    for v in list(range(-26, 27)) + [100, -100, 2**31 - 1, 2**31, -2**31, -2**31 - 1]:
        for n0 in (0, 7):
            yield "nice", mk_world(nice=n0), [op(T_PID, R_nice(v)), op(T_PID, R_nice()), op(S_PID, R_nice())]
    # ionice: every class x level (+None), the neighbours, out-of-range classes
    for c in [None] + list(range(-1, 10)) + [2**18 - 1, 2**18, 2**31]:
        for v in [None] + list(range(-2, 11)) + [2**31]:
            for i0 in (0, (2 << 13) | 4):
                yield "ionice", mk_world(ioprio=i0), [op(T_PID, R_ionice(c, v)), op(T_PID, R_ionice())]
    # what ioprio_get can report: every class 0..7 with a few data values
    for c in range(8):
        for d in (0, 1, 7, 8, 8191):
            yield "ionice-get", mk_world(ioprio=(c << 13) | d), [op(T_PID, R_ionice())]
    # cpu_affinity: all subsets of <= 6 CPUs, duplicates, out-of-range entries, several masks
    cfgs = [(6, None, None), (6, None, [0, 1]), (6, None, [0, 2, 3]), (6, None, [2, 3, 5]), (6, [0, 1, 4], [0, 1]),
            (6, [0, 1, 4], [4]), (4, [1, 2], [1]), (4, [1, 2], [1, 2]), (1, None, None)]
    if tier == "quick":
        extras_all = [None, "dup", [6], [-1], [-2], [1024]]
    else:
        extras_all = [None, "dup", [6], [-1], [-2], [1023], [1024], [5000], [4], [3, 3, 3]]
    for ncpu, cpuset, aff in cfgs:
        for n in range(0, 7):
            for sub in itertools.combinations(range(6), n):
                for ex in extras_all:
                    cpus = list(sub)
                    if ex == "dup":
                        if not cpus:
                            continue
                        cpus = cpus + cpus[::-1]
                    elif ex is not None:
                        cpus = cpus + ex
                    yield "affinity", mk_world(ncpu=ncpu, cpuset=cpuset, affinity=aff), \
                        [op(T_PID, R_aff(cpus)), op(T_PID, R_aff())]
    # worlds whose /proc/stat does not number the CPUs 0..N-1: an offline CPU in the middle, a virtualised file
    holes = [dict(ncpu=4, online=[0, 1, 3]), dict(ncpu=4, online=[0, 1, 3], cpuset=[1, 3]),
             dict(ncpu=6, online=[1, 2, 4, 5]), dict(ncpu=6, online=[0, 2, 3, 4, 5], cpuset=[4, 5]),
             dict(ncpu=6, stat=[0, 1], cpuset=[4, 5]), dict(ncpu=6, stat=[0, 1]), dict(ncpu=4, stat=[0]),
             dict(ncpu=6, online=[0, 1, 2, 3, 5], stat=[0, 1, 2, 3], cpuset=[2, 3, 5])]
    for kw in holes:
        on = kw.get("online", list(range(kw["ncpu"])))
        el = [c for c in on if c in kw.get("cpuset", on)]
        masks = [None, el[:1], el[-1:]]
        for aff in masks:
            for n in range(0, kw["ncpu"] + 1):
                for sub in itertools.combinations(range(kw["ncpu"]), n):
                    if n > 2 and tier == "quick" and (len(sub) + sub[0]) % 3:
                        continue
                    for ex in (None, [kw["ncpu"]], [-1]):
                        if ex is not None and n > 1:
                            continue
                        yield "holes", mk_world(affinity=aff, **kw), \
                            [op(T_PID, R_aff(list(sub) + (ex or []))), op(T_PID, R_aff()), op(T_PID, R_aff([])),
                             op(T_PID, R_aff())]
    for big in ([2**63], [0, 2**63], [-2**63 - 1], [2**63 - 1], [-2**63]):
        yield "affinity", mk_world(ncpu=4), [op(T_PID, R_aff(big)), op(T_PID, R_aff())]
    # rlimit: every resource with soft <= hard incl. RLIM_INFINITY, and the invalid neighbours
    pairs = [(0, 0), (5, 10), (10, 10), (-1, -1), (5, -1), (-1, 5), (10, 5), (2**63 - 1, -1), (2**63, -1),
             (-2, -1), (-2**63, -1), (-2**63 - 1, 0), (5000, 6000), (1,), (1, 2, 3), ()]
    for res in range(16):
        for lim in pairs:
            for cap in (True, False):
                yield "rlimit", mk_world(cap=cap), [op(T_PID, R_rl(res, lim)), op(T_PID, R_rl(res)),
                                                    op(T_PID, R_rl((res + 1) % 16))]
    for res in (-1, 16, 17, 2**31 - 1, 2**31, -2**31 - 1):
        yield "rlimit", mk_world(), [op(T_PID, R_rl(res, (1, 2))), op(T_PID, R_rl(res)), op(T_PID, R_rl(res, (1,)))]
    for lim in ((1048576, 1048576), (1048577, 1048577), (-1, -1), (10, 1048577)):
        yield "rlimit", mk_world(rlimits=[[100, INF]] * 16), [op(T_PID, R_rl(7, lim)), op(T_PID, R_rl(7))]
    # PID 0: rlimit refuses it; the other calls reach the *calling* process
    for req in (R_rl(3), R_rl(3, (1, 2)), R_rl(3, (1,)), R_nice(), R_nice(4), R_ionice(), R_ionice(2, 3)):
        yield "pid0", mk_world(), [op(0, req), op(SELF_PID, getter(req)), op(T_PID, getter(req))]


def magnitude_numbers(eligible, rng, n_random, full=True):
    """Seeded round 5 (change C01-7): CPU numbers of every MAGNITUDE. For an eligible CPU `a`: a + 2^j for every j in
    4..63 and a - 2^j for j in 31..63 (numbers that become `a` again when held in j bits — int, short, char, a `% 1024`,
    an unsigned view; j = 63 leaves the C long), a + k * 2^32 and free numbers in [2^31, 2^63) from the PRNG."""
    out = []
    aliases = [eligible[0]] if len(eligible) == 1 else [eligible[0], eligible[-1]]
    for n_a, a in enumerate(aliases):
        js = range(4, 64) if (full or n_a == 0) else (8, 10, 16, 31, 32, 33, 62)
        out += [a + 2**j for j in js]
        out += [a - 2**j for j in (range(31, 64) if (full or n_a == 0) else (32, 63))]
    for _ in range(n_random):
        out.append(rng.choice(eligible) + rng.randrange(1, 2**31) * 2**32)
        out.append(rng.randrange(2**31, 2**63))
    return out


def magnitude_ops(pid, eligible, rng, n_random, full=True):
    """Each number alone (no eligible CPU named: ValueError, nothing changes) and, for some, next to an eligible CPU; a get
    after each; the process starts away from the CPU the number would collapse onto."""
    ops = []
    start = [eligible[-1]]
    ops += [op(pid, R_aff(start)), op(pid, R_aff())]
    for i, n in enumerate(magnitude_numbers(eligible, rng, n_random, full)):
        ops += [op(pid, R_aff([n])), op(pid, R_aff())]
        if i % 7 == 3 and len(eligible) >= 2:
            ops += [op(pid, R_aff([eligible[-1], n])), op(pid, R_aff()), op(pid, R_aff(start)), op(pid, R_aff())]
    return ops


def magnitude_histories(rng, tier):
    """The same numbers against the simulated kernel (what the Python layers do with them before the native call)."""
    worlds = [("plain", mk_world(ncpu=4, affinity=[2, 3])), ("cpuset", mk_world(ncpu=6, cpuset=[0, 1, 4], affinity=[4])),
              ("hole", mk_world(ncpu=6, online=[0, 2, 3, 5], affinity=[5]))]
    for name, w in worlds:
        el = sorted(set(w["procs"][0]["cpuset"]) & set(w.get("online", range(w["ncpu"]))))
        ops = magnitude_ops(T_PID, el, rng, 10 if tier == "quick" else 200, full=(name == "plain" or tier != "quick"))
        for i in range(0, len(ops), 12):
            yield {"world": w, "ops": ops[:2] + ops[i:i + 12] if i else ops[:12], "mode": "sim", "tag": "magnitude"}


def F(req, **forms):
    """`req` with argument forms / keyword calling added."""
    return dict(req, **forms)


GONE_MODES = ("plain", "oneshot", "oneshot-warm", "second")


def extension_histories(rng):
    """History dicts for: the ionice table with enum members / bools / keywords; the other calls with their arguments
    in every form; a process that has vanished; a zombie."""
    T = T_PID
    # ---- ionice: {None,0,1,2,3,4,-1} x {None,-1,0,1,4,7,8} x (int | IOPRIO_CLASS_* member) x (int | bool | enum) x kw
    for c in (None, 0, 1, 2, 3, 4, -1):
        for v in (None, -1, 0, 1, 4, 7, 8):
            for cf in (("int",) if c is None else ("int", "enum")):
                vfs = ["int"] + (["bool"] if v in (0, 1) else []) + (["enum"] if v in (0, 4) else [])
                for vf in vfs:
                    for kw in (False, True):
                        for i0 in (0, (2 << 13) | 4):
                            forms = {"kw": kw}
                            if cf != "int":
                                forms["ioclass_form"] = cf
                            if vf != "int":
                                forms["value_form"] = vf
                            yield with_modes(rng, {"world": mk_world(ioprio=i0), "mode": "sim", "tag": "ionice-table",
                                                   "ops": [op(T, F(R_ionice(c, v), **forms)), op(T, R_ionice())]})
    # ---- nice: bools and enum members are ints
    for v, vf in ((1, "bool"), (0, "bool"), (5, "enum"), (-3, "enum"), (19, "enum"), (-20, "enum"), (0, "enum"),
                  (20, "enum"), (2**31, "enum"), (7, "int")):
        for kw in (False, True):
            yield with_modes(rng, {"world": mk_world(nice=7), "mode": "sim", "tag": "forms",
                                   "ops": [op(T, F(R_nice(v), value_form=vf, kw=kw)), op(T, R_nice()), op(S_PID, R_nice())]})
    # ---- rlimit: resource as int / enum member / bool; limits as tuple / list / iterator; ints beyond 2^63
    pairs = [(5, 10), (-1, -1), (5, -1), (10, 5), (2**63, -1), (5, 2**63), (2**64, 2**64), (-2**63 - 1, 0),
             (2**63 - 1, 2**63 - 1), (2**64 - 1, 2**64 - 1), (1,), (1, 2, 3), ()]
    for res, rf in ((0, "int"), (7, "enum"), (15, "enum"), (1, "bool"), (0, "bool"), (16, "enum"), (-1, "enum")):
        for lim in pairs:
            for lf in ("tuple", "list", "iterator"):
                for kw in (False, True):
                    yield with_modes(rng, {"world": mk_world(cap=(len(lim) + res) % 2 == 0), "mode": "sim", "tag": "forms",
                                           "ops": [op(T, F(R_rl(res, lim), res_form=rf, limits_form=lf, kw=kw)),
                                                   op(T, F(R_rl(res), res_form=rf, kw=kw)), op(S_PID, R_rl(3))]})
    # ---- cpu_affinity: list / tuple / set / range / iterator (an exhausted iterator is NOT the empty list)
    worlds = (dict(ncpu=4), dict(ncpu=6, cpuset=[0, 1, 4], affinity=[0, 1]), dict(ncpu=4, online=[0, 1, 3], affinity=[0]))
    lists = ([], [0], [1], [0, 1], [1, 2], [0, 1, 2, 3], [2, 3], [3, 2], [1, 1, 0], [4, 5], [9], [-1], [0, -1], [2**63])
    for kw_ in worlds:
        for l in lists:
            for cf in ("list", "tuple", "set", "range", "iterator"):
                if cf == "range" and l != list(range(l[0], l[0] + len(l)) if l else []):
                    continue
                if cf == "set" and (len(set(l)) != len(l) or (-1 in l and len(l) > 1)):
                    continue
                for kw in (False, True):
                    yield with_modes(rng, {"world": mk_world(**kw_), "mode": "sim", "tag": "forms",
                                           "ops": [op(T, F(R_aff(l), cpus_form=cf, kw=kw)), op(T, R_aff()), op(S_PID, R_aff())]})
    # ---- a process that has vanished: ESRCH -> NoSuchProcess for the get forms, the guard for the set forms
    reqs = [R_nice(), R_nice(5), R_nice(2**31), R_ionice(), R_ionice(2, 3), R_ionice(2, 9), R_ionice(None, 3), R_aff(),
            R_aff([0]), R_aff([-1]), R_aff([]), R_aff([9]), R_rl(3), R_rl(3, (1, 2)), R_rl(3, (1,)), R_rl(16),
            R_rl(16, (1, 2)), F(R_aff([]), cpus_form="iterator"), F(R_rl(3, (1, 2)), limits_form="iterator"),
            F(R_ionice(2, 1), ioclass_form="enum", kw=True), R_aff([2**63]), R_ionice(2**31, 0), R_rl(2**31, (1, 2))]
    for req in reqs:
        for mode in GONE_MODES:
            w = mk_world()
            w["gone_pids"] = [T]
            yield {"world": w, "mode": "sim", "tag": "gone",
                   "ops": [dict(op(T, req), mode=mode), dict(op(T, getter(req)), mode=mode), dict(op(S_PID, getter(req)), mode="plain")]}
    # ---- a zombie (state Z in /proc/<pid>/stat): the kernel still answers; nothing here may depend on the state
    reqs = [R_nice(), R_nice(5), R_ionice(), R_ionice(2, 3), R_ionice(2, 9), R_aff(), R_aff([1]), R_aff([9]), R_aff([]),
            R_rl(7), R_rl(7, (1048577, 1048577)), R_rl(3, (1000, 99999)), R_rl(3, (5, 10)), R_rl(3, (1,)), R_rl(3, (10, 5))]
    for req in reqs:
        for mode in MODES + ("block",):
            w = mk_world(cap=False)
            w["zombie_pids"] = [T]
            h = {"world": w, "mode": "sim", "tag": "zombie",
                 "ops": [dict(op(T, req), mode=("plain" if mode == "block" else mode)), op(T, getter(req)), op(S_PID, getter(req))]}
            if mode == "block":
                h["block"] = T
            yield h



# ---- who is calling (seeded round 5; Model/C18Who.lean) ----------------------------------------------------------
#
# Three processes and three moments: the process that IMPORTED psutil (in the simulated part: this harness process, so
# its pid is os.getpid()), the process that CREATED the Process object, the process that makes the CALL — they differ
# when the program forked in between. Any of the three processes of the world can play any of these roles, and any of
# them can be the target. The property speaks about the target only.

ROLES = ("T", "S", "SELF")


def with_identity(world, ops, importer, caller, creator):
    """`world`/`ops` (over T_PID, S_PID, SELF_PID) with: the process `importer` (a role or None = none of the three)
    being the one that imported psutil — it gets the pid of this harness process —, `caller` making the calls and
    `creator` having made the Process objects."""
    me = os.getpid()
    pid_of = {"T": T_PID, "S": S_PID, "SELF": SELF_PID}
    assert me not in pid_of.values()
    if importer is not None:
        pid_of[importer] = me
    ren = {T_PID: pid_of["T"], S_PID: pid_of["S"], SELF_PID: pid_of["SELF"], 0: 0}
    w = dict(world, self=pid_of[caller], create_self=pid_of[creator], import_pid=me,
             procs=[dict(p, pid=ren[p["pid"]]) for p in world["procs"]])
    # the three processes must be told apart by every attribute
    w["procs"][2] = dict(w["procs"][2], rlimits=[[2000 + 10 * r, 9000 + 10 * r] for r in range(16)])
    return w, [dict(o, pid=ren[o["pid"]]) for o in ops]


def identity_features(world):
    me, caller, creator = world.get("import_pid"), world["self"], world.get("create_self", world["self"])
    f = ["who:forked since import (caller is not the importing process)" if caller != me else "who:the importing process calls"]
    f.append("who:object made by another process than the caller (it crossed a fork)" if creator != caller
             else "who:object made by the caller")
    return f


def caller_histories(rng, n_random):
    """Family `caller`: exhaustive part = every (importer, caller, creator) assignment x every get / set form on the
    target T, followed by the get forms on all three processes; random part = random worlds, assignments, targets."""
    T, S, ME = T_PID, S_PID, SELF_PID
    sets = [[op(T, R_nice(5)), op(T, R_nice()), op(ME, R_nice()), op(S, R_nice())],
            [op(T, R_ionice(2, 3)), op(T, R_ionice()), op(ME, R_ionice()), op(S, R_ionice())],
            [op(T, R_aff([1])), op(T, R_aff()), op(ME, R_aff()), op(S, R_aff())],
            [op(T, R_aff([])), op(T, R_aff()), op(ME, R_aff())],
            [op(T, R_rl(7, (50, 5070))), op(T, R_rl(7)), op(ME, R_rl(7)), op(S, R_rl(7))],
            [op(T, R_rl(3, (5, -1))), op(T, R_rl(3)), op(ME, R_rl(3))],
            [op(T, R_nice()), op(T, R_ionice()), op(T, R_aff()), op(T, R_rl(7)), op(T, R_rl(0))],
            # the listed invalid requests change nothing, whoever calls
            [op(T, R_ionice(2, 8)), op(T, R_rl(7, (1,))), op(T, R_aff([9])), op(T, R_ionice(None, 2)), op(ME, R_ionice())]]
    for importer in ROLES + (None,):
        for caller in ROLES:
            for creator in ROLES:
                for ops in sets:
                    w, o = with_identity(mk_world(ncpu=4, nice=4, ioprio=(2 << 13) | 6, affinity=[0, 1]), ops,
                                         importer, caller, creator)
                    h = with_modes(rng, {"world": w, "ops": o, "mode": "sim", "tag": "caller"}, p_block=0.1)
                    if h.get("block") is not None:
                        h["block"] = w["procs"][0]["pid"]
                    yield h, True
    for _ in range(n_random):
        w0 = gen_world(rng)
        ops = [op(rng.choice([T, T, T, S, ME]), gen_req(rng, w0)) for _ in range(rng.randrange(1, 7))]
        w, o = with_identity(w0, ops, rng.choice(ROLES + (None,)), rng.choice(ROLES), rng.choice(ROLES))
        h = with_modes(rng, {"world": w, "ops": o, "mode": "sim", "tag": "caller-random"}, p_block=0.15)
        if h.get("block") is not None:
            h["block"] = w["procs"][0]["pid"]
        yield h, False


def refused_world(rng, rlimits, foreign=(T_PID,), **kw):
    """A caller without CAP_SYS_RESOURCE; the processes in `foreign` belong to another user: prlimit(2) on them is refused
    (EPERM) while /proc/<pid>/limits of every process is there for everybody and shows what the kernel holds."""
    w = mk_world(cap=False, rlimits=rlimits, **kw)
    for p in w["procs"]:
        if p["pid"] in foreign:
            p["foreign"] = True
    w["limits_file"] = True
    return w


def refused_histories(rng, n_random):
    """Seeded round 5 (C18-7): get forms whose primary system call is refused while another source is readable. Yields
    (history, enumerated?)."""
    # the kernel's defaults for a fresh process (RTPRIO 0/0 next to RTTIME unlimited, NICE 0/0, CORE 0/unlimited, …), one
    # table with sixteen different pairs, one with every soft limit equal to its hard limit, one with raw values >= 2^63
    defaults = [[INF, INF], [INF, INF], [INF, INF], [8388608, INF], [0, INF], [INF, INF], [63304, 63304], [1024, 524288],
                [8388608, 8388608], [INF, INF], [INF, INF], [63304, 63304], [819200, 819200], [0, 0], [0, 0], [INF, INF]]
    tables = [DEFAULT_RL, defaults, [[300 + 7 * r, 300 + 7 * r] for r in range(16)],
              [[2**63 - 1 - r, INF if r % 2 else 2**63 - 1] for r in range(16)]]
    k = 0
    for ti, rl in enumerate(tables):
        for res in range(16):
            for target, foreign in ((T_PID, (T_PID,)), (T_PID, (T_PID, S_PID)), (S_PID, (T_PID,))):
                w = refused_world(rng, rl, foreign=foreign)
                ops = [op(target, R_rl(res))]
                if ti == 0:
                    # a refused set in between (nothing may change), then the same question again; then another resource
                    ops += [op(target, R_rl(res, (1, 2))), op(target, R_rl(res)), op(target, R_rl((res + 1) % 16))]
                ops += [op(SELF_PID, R_rl(res))]
                ops = [dict(o, mode=MODES[(k + j) % len(MODES)]) for j, o in enumerate(ops)]
                k += 1
                yield {"world": w, "ops": ops, "mode": "sim", "tag": "refused-get"}, 1
    for pid in (T_PID, S_PID):
        # every get form of a foreign process in one history: three are answered by the kernel, rlimit is refused
        w = refused_world(rng, DEFAULT_RL, foreign=(T_PID, S_PID))
        ops = [op(pid, R_nice()), op(pid, R_ionice()), op(pid, R_aff())] + [op(pid, R_rl(r)) for r in range(16)] + \
            [op(pid, R_rl(-1)), op(pid, R_rl(16)), op(pid, F(R_rl(15), res_form="enum"))]
        yield with_modes(rng, {"world": w, "ops": ops, "mode": "sim", "tag": "refused-get"}, p_block=0.0), 1
    for _ in range(n_random):
        w0 = gen_world(rng)
        foreign = [p for p in (T_PID, S_PID, SELF_PID) if rng.random() < (0.7 if p == T_PID else 0.3)]
        w = refused_world(rng, None, foreign=foreign)
        w.update({k2: v for k2, v in w0.items() if k2 not in ("cap", "procs")})
        w["procs"] = [dict(p, **({"foreign": True} if p["pid"] in foreign else {})) for p in w0["procs"]]
        w["cap"] = rng.random() < 0.15
        ops = []
        for _ in range(rng.randrange(2, 7)):
            pid = rng.choice([T_PID, T_PID, S_PID, SELF_PID])
            res = rng.choice(list(range(16)) + [14, 15, 13, -1, 16])
            if rng.random() < 0.8:
                ops.append(op(pid, R_rl(res)))
            else:
                h = rng.choice([INF, rng.randrange(0, 10**6)])
                ops.append(op(pid, R_rl(res, (rng.randrange(0, min(h, 10**6) + 1), h))))
                ops.append(op(pid, R_rl(res)))
        yield with_modes(rng, {"world": w, "ops": ops, "mode": "sim", "tag": "refused-get-random"}, p_block=0.1), 0


def gen_world(rng):
    ncpu = rng.choice([1, 2, 3, 4, 6, 8])
    online = stat = None
    r = rng.random()
    if ncpu >= 3 and r < 0.3:
        online = sorted(rng.sample(range(ncpu), rng.randrange(1, ncpu)))          # offline CPUs anywhere
    elif ncpu >= 2 and r < 0.4:
        stat = list(range(rng.randrange(1, ncpu)))                                # virtualised /proc/stat
    base = list(range(ncpu)) if online is None else online
    cpuset = None
    if rng.random() < 0.4:
        cpuset = sorted(rng.sample(base, rng.randrange(1, len(base) + 1)))
    el = list(base) if cpuset is None else cpuset
    aff = sorted(rng.sample(el, rng.randrange(1, len(el) + 1)))
    rl = []
    for _ in range(16):
        h = rng.choice([INF, rng.randrange(0, 10**6), 2**63 - 1])
        s = rng.choice([h, rng.randrange(0, h + 1) if h < INF else rng.randrange(0, 10**6)])
        rl.append([min(s, h), h])
    return mk_world(ncpu=ncpu, online=online, stat=stat, cap=rng.random() < 0.5, cpuset=cpuset, affinity=aff,
                    nice=rng.randrange(-20, 20), ioprio=rng.choice([0, (1 << 13) | rng.randrange(8),
                                                                   (2 << 13) | rng.randrange(8), 3 << 13]),
                    rlimits=rl)


def gen_req(rng, world):
    ncpu = world["ncpu"]
    fam = rng.choice(["nice", "ionice", "aff", "aff", "rlimit"])
    if fam == "nice":
        return R_nice(rng.choice([None, rng.randrange(-20, 20), rng.randrange(-30, 30)]))
    if fam == "ionice":
        if rng.random() < 0.2:
            return R_ionice()
        return R_ionice(rng.choice([None, 0, 1, 2, 3, 3, 2, 1, 4, 8]), rng.choice([None, 0, rng.randrange(0, 8), rng.randrange(-2, 11)]))
    if fam == "aff":
        r = rng.random()
        if r < 0.15:
            return R_aff()
        if r < 0.3:
            return R_aff([])
        pool = list(range(ncpu)) + [ncpu, ncpu + 1, -1, -2, 1024, 0, 1]
        return R_aff([rng.choice(pool if rng.random() < 0.3 else list(range(ncpu))) for _ in range(rng.randrange(1, 6))])
    res = rng.choice(list(range(16)) + [7, 7, -1, 16])
    if rng.random() < 0.25:
        return R_rl(res)
    vals = [-1, 0, 1, 100, 999, 5000, 10**6, 2**63 - 1, 1048576, 1048577]
    n = rng.choice([2, 2, 2, 2, 2, 0, 1, 3])
    return R_rl(res, [rng.choice(vals) for _ in range(n)])


def gen_history(rng):
    w = gen_world(rng)
    ops = []
    for _ in range(rng.randrange(1, 7)):
        pid = rng.choice([T_PID, T_PID, T_PID, S_PID])
        ops.append(op(pid, gen_req(rng, w)))
    return w, ops


MODE_WEIGHTS = (("plain", 25), ("oneshot", 15), ("oneshot-warm", 15), ("as_dict", 12), ("iter", 8), ("iter-info", 8),
                ("second", 17))


def pick_mode(rng):
    r = rng.randrange(sum(w for _, w in MODE_WEIGHTS))
    for m, w in MODE_WEIGHTS:
        if r < w:
            return m
        r -= w
    return "plain"


def with_modes(rng, hist, p_block=0.15):
    """Give every call of a history a mode chosen at random; some histories run as one warm oneshot block."""
    ops = [dict(o, mode=pick_mode(rng)) for o in hist["ops"]]
    h = dict(hist, ops=ops)
    if rng.random() < p_block:
        h["block"] = T_PID
    return h


def mode_histories():
    """Every mode x a small set of requests of each family (get, valid set, each invalid clause) x 2 states, each
    followed by the get form in the same mode; and each as a warm oneshot block (set then get inside the block
    must show the new value)."""
    worlds = [("w4", dict(ncpu=4)), ("w4-confined", dict(ncpu=4, cpuset=[0, 1], affinity=[0, 1], nice=-1,
                                                           ioprio=(2 << 13) | 4))]
    reqs = [R_nice(), R_nice(5), R_nice(-1), R_ionice(), R_ionice(2, 3), R_ionice(3), R_ionice(None, 3), R_ionice(3, 1),
            R_ionice(2, 8), R_aff(), R_aff([0, 1]), R_aff([1]), R_aff([1, 1, 0]), R_aff([]), R_aff([9]), R_aff([2]),
            R_aff([-1]), R_rl(3), R_rl(3, (5, 10)), R_rl(3, (5, -1)), R_rl(3, (1,)), R_rl(3, (10, 5)), R_rl(16),
            R_rl(16, (1, 2))]
    for _, kw in worlds:
        for req in reqs:
            for mode in MODES:
                yield {"world": mk_world(**kw), "mode": "sim", "tag": "modes",
                       "ops": [dict(op(T_PID, req), mode=mode), dict(op(T_PID, getter(req)), mode=mode),
                               dict(op(S_PID, getter(req)), mode=mode)]}
            yield {"world": mk_world(**kw), "mode": "sim", "tag": "modes", "block": T_PID,
                   "ops": [op(T_PID, req), op(T_PID, getter(req)), op(S_PID, getter(req))]}
    # inside one warm block: change the mask, then name an ineligible CPU (the cached status file is stale)
    for aff0, first, then in (([0], [0, 1], [2]), ([0, 1], [0], [2]), ([0, 1], [1], [3]), ([0], [1], [2, 3])):
        yield {"world": mk_world(ncpu=4, cpuset=[0, 1], affinity=aff0), "mode": "sim", "tag": "modes", "block": T_PID,
               "ops": [op(T_PID, R_aff(first)), op(T_PID, R_aff(then)), op(T_PID, R_aff())]}


# ------------------------------------------------------------------------------ comparison


def req_features(req, world):
    k = req["kind"]
    f = [k + (":get" if is_get(req) else ":set")]
    if k == "ionice" and req.get("ioclass") is None and req.get("value") is not None:
        f.append("clause:value-without-class")
    if k == "cpu_affinity" and req.get("cpus") == []:
        f.append("clause:empty-list")
    if k == "cpu_affinity" and req.get("cpus") and len(set(req["cpus"])) < len(req["cpus"]):
        f.append("clause:duplicates")
    if k == "rlimit" and req.get("limits") is not None and len(req["limits"]) != 2:
        f.append("clause:not-a-pair")
    return f


def judge(ctx, res, hist, i, impl, m, live=False):
    """Compare one executed op. Returns False when the rest of the history must be skipped."""
    model, spec = m["model"], m["spec"]
    if model["out"].get("kind") == "undefined-c":
        res.count("outside-model:undefined-c")
        return False
    if live:
        impl = {k: v for k, v in impl.items() if k != "log"}
        model = {k: v for k, v in model.items() if k != "log"}
        spec = None if spec is None else {k: v for k, v in spec.items() if k != "log"}
    inp = {"world": hist["world"], "ops": hist["ops"][:i + 1], "mode": hist["mode"], "source": hist.get("tag", "")}
    if hist.get("block") is not None:
        inp["block"] = hist["block"]
    if spec is not None:
        res.count("spec:" + ("ValueError" if spec["out"].get("exc") == "ValueError" else spec["out"]["kind"]))
        if spec["out"].get("exc") == "ValueError":
            res.count("clause:invalid->ValueError:" + hist["ops"][i]["req"]["kind"])
        if impl != spec:
            fid = None
            req = hist["ops"][i]["req"]
            if req["kind"] == "cpu_affinity" and req.get("cpus") and spec["out"].get("exc") == "ValueError" \
                    and impl["out"] == {"kind": "exc", "exc": "OSError", "errno": "EINVAL"} \
                    and impl["procs"] == spec["procs"] and impl == model \
                    and any(f.get("id") == FINDING_INELIGIBLE for f in ctx.findings):
                fid = FINDING_INELIGIBLE
                res.known_seen[fid] = res.known_seen.get(fid, 0) + 1
            # region of C18-huge-cpu-overflowerror: a CPU list with a number outside the C long range, for which the
            # property promises ValueError; the ONLY deviation tolerated is OverflowError with the kernel untouched,
            # and only where the model (fact affinityOverflowRaisesValueError = false) predicts exactly that
            elif req["kind"] == "cpu_affinity" and req.get("cpus") and spec["out"].get("exc") == "ValueError" \
                    and any(not _fits_c_long(v) for v in req["cpus"]) \
                    and impl["out"] == {"kind": "exc", "exc": "OverflowError"} \
                    and impl["procs"] == spec["procs"] and impl == model \
                    and any(f.get("id") == FINDING_HUGE_CPU for f in ctx.findings):
                fid = FINDING_HUGE_CPU
                res.known_seen[fid] = res.known_seen.get(fid, 0) + 1
            res.disagree("spec", inp, impl, model, spec,
                         note="op %d: implementation differs from what the property promises" % i, finding=fid)
            if fid is None:
                return False
            # inside the region of a known finding the model predicted exactly this outcome and state: the history goes on
    elif m.get("honest") is not None:
        # a get form the kernel refuses to this caller: the statement still says what an ANSWER must be (what the kernel
        # holds for that attribute of that process); the only other admissible outcome is the refusal passed on
        honest = m["honest"] if not live else [{k: v for k, v in a.items() if k != "log"} for a in m["honest"]]
        res.count("spec:refused-get(kernel's value or AccessDenied)")
        res.count("clause:refused-get:%s" % (impl["out"].get("exc") or impl["out"]["kind"]))
        if impl not in honest:
            res.disagree("spec", inp, impl, model, {"admissible": honest},
                         note="op %d: the get form was refused by the kernel and the implementation answered with something "
                              "that is neither what the kernel holds for that process nor AccessDenied" % i)
            return False
    else:
        res.count("spec:unconstrained")
    if impl != model:
        res.disagree("model", inp, impl, model, spec, note="op %d: implementation differs from the Lean model" % i)
        return False
    return True


def rebase_import_pid(h):
    """A history of the family `caller` names the process that imported psutil by its pid — the pid of the harness
    process that generated it. Replayed by another process, that role belongs to THIS process: rename the pid."""
    old, new = h["world"].get("import_pid"), os.getpid()
    if old is None or old == new:
        return h
    ren = lambda p: new if p == old else p  # noqa: E731
    w = dict(h["world"])
    w["import_pid"] = new
    for key in ("self", "create_self"):
        if key in w:
            w[key] = ren(w[key])
    for key in ("gone_pids", "zombie_pids"):
        if key in w:
            w[key] = [ren(p) for p in w[key]]
    w["procs"] = [dict(p, pid=ren(p["pid"])) for p in w["procs"]]
    h2 = dict(h, world=w, ops=[dict(o, pid=ren(o["pid"])) for o in h["ops"]])
    if h.get("block") is not None:
        h2["block"] = ren(h["block"])
    return h2


def driver_world(world):
    """The reset line: the kernel does not know the vanished processes."""
    gone = set(world.get("gone_pids", ()))
    w = {k: v for k, v in world.items() if k not in ("gone_pids", "zombie_pids", "create_self", "import_pid", "limits_file")}
    w["procs"] = [p for p in world["procs"] if p["pid"] not in gone]
    w["op"] = "reset"
    return w


def run_sim_histories(ctx, impl, hists):
    """hists: dicts {world, ops, mode:'sim', tag}. Returns rows per history: (impl, driver answer)."""
    lines = []
    hists = [rebase_import_pid(h) for h in hists]
    for h in hists:
        lines.append(driver_world(h["world"]))
        view = None
        if h.get("block") is not None:
            # the status file is cached when the block is entered: it keeps showing the mask of that moment
            view = [p for p in h["world"]["procs"] if p["pid"] == h["block"]][0]["affinity"]
        for o in h["ops"]:
            # who is calling: the module was imported by this harness process; the object is made by `create_self`
            # (by the caller itself when process_iter() yields it during the call)
            md = mode_for(o["req"], o.get("mode", "plain"))
            ln = {"op": "call", "pid": o["pid"], "req": driver_req(o["req"]), "import_pid": os.getpid(),
                  "create_pid": h["world"]["self"] if md in ("iter", "iter-info")
                  else h["world"].get("create_self", h["world"]["self"])}
            if view is not None and o["pid"] == h["block"]:
                ln["status_mask"] = list(view)
            lines.append(ln)
    outs = ctx.driver().batch(lines)
    rows_all = []
    i = 0
    for h in hists:
        i += 1
        impl.begin(h["world"])
        if h.get("block") is not None:
            impl.begin_block(h["block"])
        rows = []
        for o in h["ops"]:
            m = outs[i]
            i += 1
            if "bad" in m:
                raise RuntimeError("driver rejected %r: %s" % (o, m))
            rows.append((impl.do(o["pid"], o["req"], o.get("mode", "plain")), m))
        impl.end_block()
        rows_all.append(rows)
    return rows_all, len(lines)


def check_eligible_helper(ctx, res, impl):
    """`_pslinux.Process._get_eligible_cpus()` against the model's `getEligibleCpus`, directly: since aebc260 the helper
    only feeds the text of the ValueError of `cpu_affinity_set` (which CPUs to choose between), so no public result
    depends on it any more; the model (and the theorems about the superseded configurations) still do."""
    worlds = []
    for n in range(1, 7):
        for sub in itertools.combinations(range(6), n):
            worlds.append(mk_world(ncpu=6, affinity=list(sub)))
    for sub in ([0], [1], [0, 1], [1, 2], [0, 2], [2, 3], [0, 1, 2, 3], [1, 3]):
        worlds.append(mk_world(ncpu=4, online=[0, 1, 2, 3], stat=[0, 1], affinity=sub))
        worlds.append(mk_world(ncpu=8, online=[0, 1, 2, 3, 5, 6], affinity=sub))
    lines = []
    for w in worlds:
        lines += [driver_world(w), {"op": "eligible", "pid": T_PID}]
    outs = ctx.driver().batch(lines)
    for i, w in enumerate(worlds):
        m = outs[2 * i + 1]
        if "ok" not in m:
            raise RuntimeError("driver rejected the eligible query: %s" % m)
        impl.begin(w)
        try:
            got = impl.ps.Process(T_PID)._proc._get_eligible_cpus()
            got = [int(x) for x in got] if type(got) is list else {"unexpected": repr(got)}
        except Exception as e:  # noqa: BLE001
            got = {"exc": type(e).__name__}
        res.count("family:eligible-helper")
        res.case(("eligible-helper", w["procs"][0]["affinity"], stat_ids(w)), nontrivial=True)
        if got != m["ok"]:
            res.disagree("model", {"world": w, "helper": "_get_eligible_cpus", "mode": "helper",
                                   "status_line": cpulist(w["procs"][0]["affinity"])}, got, m["ok"],
                         note="_get_eligible_cpus() differs from the model's getEligibleCpus")
    return len(lines)


def check_sim(ctx, res, impl, hists):
    total = 0
    CH = 1500
    for a in range(0, len(hists), CH):
        chunk = hists[a:a + CH]
        rows_all, nl = run_sim_histories(ctx, impl, chunk)
        total += nl
        for h, rows in zip(chunk, rows_all):
            res.count("family:" + h["tag"])
            feats = set()
            if h.get("block") is not None:
                res.count("mode:block(one warm oneshot around the whole history)")
            for i, (im, m) in enumerate(rows):
                for f in req_features(h["ops"][i]["req"], h["world"]):
                    feats.add(f)
                for fk, fv in h["ops"][i]["req"].items():
                    if fk.endswith("_form") or (fk == "kw" and fv):
                        res.count("form:%s=%s" % (fk[:-5], fv) if fk != "kw" else "form:keyword-arguments")
                md = mode_for(h["ops"][i]["req"], h["ops"][i].get("mode", "plain"))
                res.count("mode:" + md)
                res.count("mode:%s:%s" % (md, "get" if is_get(h["ops"][i]["req"]) else "set"))
                res.count("out:" + (im["out"].get("exc") or im["out"]["kind"]))
                if not judge(ctx, res, h, i, im, m):
                    break
            for f in feats:
                res.count("feature:" + f)
            if h["world"].get("import_pid") is not None:
                for f in identity_features(h["world"]):
                    res.count(f)
                tp = set(o["pid"] for o in h["ops"] if not is_get(o["req"]))
                if h["world"]["import_pid"] in tp:
                    res.count("who:a set form targets the importing process")
                if h["world"]["self"] in tp:
                    res.count("who:a set form targets the caller itself")
                if tp - {h["world"]["self"], h["world"]["import_pid"], 0}:
                    res.count("who:a set form targets a third process")
            if h["world"].get("gone_pids"):
                res.count("world:the target process has vanished (ESRCH, no /proc/<pid>)")
            if h["world"].get("zombie_pids"):
                res.count("world:the target process is a zombie (state Z)")
            if h["world"].get("stat_ids") is not None:
                res.count("world:virtualised /proc/stat (cpuN lines unrelated to the cpuset)")
            elif h["world"].get("online") is not None and h["world"]["online"] != list(range(h["world"]["ncpu"])):
                res.count("world:offline CPU (fewer cpuN lines than highest id + 1)")
            res.count("ops", len(h["ops"]))
            res.case((h["world"], h["ops"], h.get("block")), nontrivial=any(":set" in f for f in feats),
                     sample={"family": h["tag"], "ops": h["ops"], "impl_last": rows[-1][0]["out"]}
                     if res.evaluations in (3, 700, 2500, 6000) else None)
    return total


# ------------------------------------------------------------------------------ live part

_libc = ctypes.CDLL(None, use_errno=True)
NR_IOPRIO_SET, NR_IOPRIO_GET = 251, 252     # x86_64


def raw_ioprio_get(pid):
    r = _libc.syscall(NR_IOPRIO_GET, 1, pid)
    if r == -1:
        raise OSError(ctypes.get_errno(), "ioprio_get")
    return r


def raw_ioprio_set(pid, v):
    r = _libc.syscall(NR_IOPRIO_SET, 1, pid, v)
    if r == -1:
        raise OSError(ctypes.get_errno(), "ioprio_set")


class Live:
    """Child processes of this harness + the OS's own view of them."""

    def __init__(self, ctx):
        self.ps = ctx.psutil
        self.children = []
        self.ok = os.uname().machine == "x86_64" and hasattr(os, "sched_getaffinity")

    def spawn(self):
        p = subprocess.Popen(["sleep", "300"], stdin=subprocess.DEVNULL, stdout=subprocess.DEVNULL,
                             stderr=subprocess.DEVNULL, close_fds=True)
        self.children.append(p)
        return p.pid

    def spawn_zombie(self):
        """A child that has exited and is not reaped: state Z until close()."""
        import time
        p = subprocess.Popen(["true"], stdin=subprocess.DEVNULL, stdout=subprocess.DEVNULL, stderr=subprocess.DEVNULL,
                             close_fds=True)
        self.children.append(p)
        for _ in range(200):
            with open("/proc/%d/stat" % p.pid, "rb") as f:
                data = f.read()
            if data[data.rfind(b")") + 2:data.rfind(b")") + 3] == b"Z":
                return p.pid
            time.sleep(0.01)
        return None

    def close(self):
        for p in self.children:
            try:
                p.kill()
            except Exception:
                pass
        for p in self.children:
            try:
                p.wait(timeout=10)
            except Exception:
                pass
        self.children = []

    def probe(self):
        """Facts about this sandbox the model takes as kernel parameters."""
        pid = self.spawn()
        os.sched_setaffinity(pid, range(1024))
        eligible = sorted(os.sched_getaffinity(pid))
        s, h = real_resource.prlimit(pid, real_resource.RLIMIT_NPROC)
        cap = True
        try:
            hu = h % U64
            if hu == 0:
                cap = False
            else:
                real_resource.prlimit(pid, real_resource.RLIMIT_NPROC, (min(s % U64, hu - 1), hu - 1))
                real_resource.prlimit(pid, real_resource.RLIMIT_NPROC, (min(s % U64, hu - 1), h))
        except PermissionError:
            cap = False
        can_lower_nice = True
        try:
            os.setpriority(os.PRIO_PROCESS, pid, 5)
            os.setpriority(os.PRIO_PROCESS, pid, -5)
        except PermissionError:
            can_lower_nice = False
        can_rt = True
        try:
            raw_ioprio_set(pid, 1 << 13)
        except OSError:
            can_rt = False
        with open("/proc/sys/fs/nr_open") as f:
            nr_open = int(f.read())
        ncpu = len(self.ps._pslinux.per_cpu_times())
        return {"eligible": eligible, "cap": cap, "can_lower_nice": can_lower_nice, "can_rt": can_rt,
                "nr_open": nr_open, "ncpu": ncpu}

    def os_state(self, pid, eligible):
        return {"pid": pid, "nice": os.getpriority(os.PRIO_PROCESS, pid), "ioprio": raw_ioprio_get(pid),
                "affinity": sorted(os.sched_getaffinity(pid)), "cpuset": list(eligible),
                "rlimits": [[x % U64 for x in real_resource.prlimit(pid, r)] for r in range(16)]}


def live_ops(ctx, env, st0):
    """Requests for the live child: every family of the statement, ordered so that what cannot be
    undone without privileges (lowering hard limits, raising niceness) comes last."""
    rng = ctx.rng
    T = st0["pid"]
    ops = []
    E = env["eligible"]
    ncpu = env["ncpu"]
    # cpu_affinity
    U = E[:6]
    subsets = [list(s) for n in range(1, len(U) + 1) for s in itertools.combinations(U, n)]
    if ctx.tier == "quick":
        rng.shuffle(subsets)
        subsets = subsets[:24]
    for s in subsets:
        ops += [op(T, R_aff(s)), op(T, R_aff())]
    if len(E) >= 3:
        ops += [op(T, R_aff(E[:2])), op(T, R_aff([])), op(T, R_aff()),               # narrowed to a range, then []
                op(T, R_aff([E[0], E[2]])), op(T, R_aff([])), op(T, R_aff())]
    ops += [op(T, R_aff(E[:1] * 3 + E[1:2])), op(T, R_aff()),
            op(T, R_aff([ncpu])), op(T, R_aff([ncpu + 7, 1023])), op(T, R_aff([1024])), op(T, R_aff([5000, 10000])),
            op(T, R_aff([-1])), op(T, R_aff([E[0], -1])), op(T, R_aff([-2])), op(T, R_aff([E[0], ncpu])),
            op(T, R_aff([E[-1], 5000])), op(T, R_aff()), op(T, R_aff([2**63])), op(T, R_aff([])), op(T, R_aff()),
            # the cpu_set_t loop of the native setter: only -1 is refused, other negative numbers and numbers >= CPU_SETSIZE
            # are dropped by CPU_SET (outside the statement: the model transcribes it, the live kernel shows it)
            op(T, R_aff([E[0], -2])), op(T, R_aff()), op(T, R_aff([-2, E[1 % len(E)], 1024])), op(T, R_aff()),
            op(T, R_aff([E[0], -2**63])), op(T, R_aff()), op(T, R_aff([-2**63 - 1])), op(T, R_aff([E[0], 2**63 - 1])), op(T, R_aff()),
            op(T, R_aff([])), op(T, R_aff())]
    # CPUs as tuple / set / range / iterator; an exhausted iterator is not the empty list
    for l, cf in ((E[:2], "tuple"), (E[:3], "set"), (E[1:2], "iterator"), ([], "iterator"), ([], "tuple"), ([], "set"),
                  ([], "range"), ([ncpu, ncpu + 1], "range"), (E[:1], "iterator")):
        ops += [op(T, F(R_aff(l), cpus_form=cf, kw=(len(l) == 1))), op(T, R_aff())]
    if E[:2] == [E[0], E[0] + 1]:
        ops += [op(T, F(R_aff(E[:2]), cpus_form="range")), op(T, R_aff())]
    # ionice
    for c in [None] + list(range(0, 10)):
        if c in (1, 9) and not env["can_rt"]:
            continue
        for v in [None, -1, 0, 1, 4, 7, 8]:
            ops += [op(T, R_ionice(c, v)), op(T, R_ionice())]
    ops += [op(T, R_ionice(2**18 - 1, 0)), op(T, R_ionice(2**31, 0)), op(T, R_ionice(2, 2**31))]
    # the arguments as Python objects: IOPRIO_CLASS_* constants, bools, keywords
    for rq in (F(R_ionice(2, 5), ioclass_form="enum", kw=True), F(R_ionice(3), ioclass_form="enum"),
               F(R_ionice(0, 0), ioclass_form="enum", value_form="bool"), F(R_ionice(2, 1), value_form="bool", kw=True),
               F(R_ionice(3, 1), ioclass_form="enum", value_form="bool"), F(R_ionice(0, None), ioclass_form="bool"),
               F(R_ionice(None, 5), kw=True), F(R_ionice(2, 4), ioclass_form="enum", value_form="enum")):
        ops += [op(T, rq), op(T, R_ionice())]
    # rlimit: hard limits only go down (no CAP_SYS_RESOURCE in most sandboxes)
    for res in range(16):
        s, h = st0["rlimits"][res]
        ops.append(op(T, R_rl(res)))
        cands = []
        if h == INF:
            cands += [(5, -1), (-1, -1)]
        top = min(h, 2**40)
        if res == 7:
            top = min(top, env["nr_open"])
        cands += [(top // 2, top), (top, top), (top + 1, top), (0, top // 2), (3,), (1, 2, 3), (),
                  (top // 4, top // 2), (top // 2 + 1, top // 4)]
        for lim in cands:
            ops += [op(T, R_rl(res, lim)), op(T, R_rl(res))]
    ops += [op(T, R_rl(16, (1, 1))), op(T, R_rl(-1)), op(T, R_rl(7, (-1, -1))), op(T, R_rl(7))]
    # limits as list / iterator, the resource as an enum member / bool, ints beyond 2^63
    s6, h6 = st0["rlimits"][6]
    top6 = min(h6, 2**40) // 8          # below what the loop above left: hard limits only go down
    for rq in (F(R_rl(6, (top6 // 2, top6)), limits_form="list"), F(R_rl(6, (top6 // 3, top6)), limits_form="iterator"),
               F(R_rl(6, (top6 // 4, top6)), res_form="enum", limits_form="list", kw=True), F(R_rl(6, (2**63, -1))),
               F(R_rl(6, (5, 2**63)), limits_form="list"), F(R_rl(6, (2**64 - 1, 2**64 - 1))), F(R_rl(6, (-2**63 - 1, 0))),
               F(R_rl(1, (top6, top6 // 2)), res_form="bool"), F(R_rl(6, (1, 2, 3)), limits_form="list"),
               F(R_rl(6, ()), limits_form="list"), F(R_rl(6, (1,)), limits_form="iterator", kw=True)):
        ops += [op(T, rq), op(T, F(R_rl(rq["res"]), res_form=rq.get("res_form", "int")))]
    # nice
    vals = list(range(-22, 23))
    if env["can_lower_nice"]:
        rng.shuffle(vals)
    else:
        vals = [v for v in vals if v >= st0["nice"]]
    if ctx.tier == "quick":
        # -1 is the one value at which getpriority(2)'s result coincides with its error sentinel
        vals = vals[:20] + [-20, 19, 20, -21, -1, -2, 0, -1]
        if not env["can_lower_nice"]:
            vals = sorted(v for v in vals if v >= st0["nice"])
    for v in vals:
        # the get after nice(-1) also once as a plain call: nothing may clear a stale errno before the C call
        ops += [op(T, R_nice(v)), dict(op(T, R_nice()), mode="plain") if v == -1 else op(T, R_nice())]
    ops += [op(T, R_nice(2**31)), op(T, F(R_nice(19), value_form="enum", kw=True)), op(T, R_nice())]
    return ops


def poison_errno():
    """Leave a stale non-zero errno (ENOENT) in the calling thread, as any earlier failed syscall of the
    application would: a native getter that tells an error from a legitimate -1 by looking at errno must have
    cleared it itself (seeded C18-1: `errno = 0` dropped before getpriority(2))."""
    try:
        os.stat("/nonexistent-psv-c18/x")
    except OSError:
        pass


POISON_ERRNO = errno.ENOENT


def live_block_ops(env, st):
    """A short history for the live child that runs inside one warm oneshot block."""
    T, E, ncpu = st["pid"], env["eligible"], env["ncpu"]
    n = st["nice"]
    ops = [op(T, R_nice()), op(T, R_nice(min(19, n + 1))), op(T, R_nice()),
           op(T, R_ionice()), op(T, R_ionice(2, 6)), op(T, R_ionice()), op(T, R_ionice(3)), op(T, R_ionice()),
           op(T, R_ionice(2, 9)), op(T, R_ionice(None, 2)), op(T, R_aff())]
    if len(E) >= 3:
        ops += [op(T, R_aff(E[:2])), op(T, R_aff()), op(T, R_aff([E[2]])), op(T, R_aff()), op(T, R_aff([ncpu])),
                op(T, R_aff([E[0], E[2]])), op(T, R_aff()), op(T, R_aff([ncpu + 1, 1023])), op(T, R_aff([])), op(T, R_aff())]
    s, h = st["rlimits"][0]
    top = min(h, 2**40)
    ops += [op(T, R_rl(0)), op(T, R_rl(0, (top // 3, top))), op(T, R_rl(0)), op(T, R_rl(0, (top, top // 3))),
            op(T, R_rl(0, (1,))), op(T, R_rl(0)), op(T, R_rl(16))]
    return ops


def hole_procfs(hidden):
    """A procfs directory that is the real one except that `stat` lacks the cpuN line of CPU `hidden` (what an
    offline CPU looks like). Returns (path, number of cpuN lines left)."""
    import tempfile
    tmp = tempfile.mkdtemp(prefix="psv-c18-procfs-")
    for name in os.listdir("/proc"):
        if name != "stat":
            try:
                os.symlink(os.path.join("/proc", name), os.path.join(tmp, name))
            except OSError:
                pass
    n = 0
    with open("/proc/stat", "rb") as f, open(os.path.join(tmp, "stat"), "wb") as g:
        for line in f.read().splitlines(True):
            if line.startswith(b"cpu%d " % hidden):
                continue
            if re.match(rb"cpu\d+ ", line):
                n += 1
            g.write(line)
    return tmp, n


def live_hole_ops(env, st):
    """cpu_affinity on the live child while /proc/stat lacks the line of one CPU that is not the last one: the empty
    list must still select ALL eligible CPUs, a valid CPU whose id is >= the number of lines must be accepted."""
    T, E, ncpu = st["pid"], env["eligible"], env["ncpu"]
    ops = [op(T, R_aff([E[0]])), op(T, R_aff([])), op(T, R_aff()),
           op(T, R_aff([E[-1]])), op(T, R_aff()), op(T, R_aff([E[-1], E[0]])), op(T, R_aff()),
           op(T, R_aff([ncpu])), op(T, R_aff([ncpu - 1, ncpu])) if E[-1] == ncpu - 1 else op(T, R_aff()),
           op(T, R_aff([E[1]])), op(T, R_aff([])), op(T, R_aff()), op(T, R_nice()), op(T, R_ionice()), op(T, R_rl(0))]
    return ops


def live_zombie_ops(env, st):
    """What can be asked about a real zombie: the kernel still holds niceness, mask and limits (its I/O context is gone,
    so the I/O priority is only read). A refused prlimit (EPERM) must come out as AccessDenied, not ZombieProcess."""
    T, E = st["pid"], env["eligible"]
    over = env["nr_open"] + 1
    ops = [op(T, R_nice()), op(T, R_ionice()), op(T, R_aff()), op(T, R_rl(7)), op(T, R_rl(7, (over, over))), op(T, R_rl(7)),
           op(T, R_rl(3, (1,))), op(T, R_rl(3)), op(T, R_nice(min(19, st["nice"] + 1))), op(T, R_nice()),
           op(T, R_aff(E[:1])), op(T, R_aff()), op(T, R_aff([])), op(T, R_aff()), op(T, R_aff([env["ncpu"]])),
           op(T, R_ionice(2, 9)), op(T, R_ionice(None, 1)), op(T, R_rl(16))]
    if not env["cap"]:
        s, h = st["rlimits"][3]
        if h < INF - 1:
            ops += [op(T, R_rl(3, (s, h + 1))), op(T, R_rl(3))]
    return ops


def run_live(ctx, res, live, env, T, S, ops, tag, block, stat_cpus=None):
    """One history on the live child: every call compared with the Lean model run on the state captured from the
    OS (and with the spec), in the call mode of the op; with `block`, inside one warm `oneshot()`."""
    ps = ctx.psutil
    st0 = [live.os_state(T, env["eligible"]), live.os_state(S, env["eligible"])]
    world = {"self": os.getpid(), "ncpu": env["ncpu"], "nr_open": env["nr_open"], "cap": env["cap"], "procs": st0}
    if stat_cpus is not None:
        world["stat_cpus"] = stat_cpus
    hist = {"world": world, "ops": ops, "mode": "live", "tag": tag}
    lines = [dict(world, op="reset")]
    for o in ops:
        ln = {"op": "call", "pid": o["pid"], "req": driver_req(o["req"]), "errno": POISON_ERRNO}
        if block:
            ln["status_mask"] = list(st0[0]["affinity"])
        lines.append(ln)
    outs = ctx.driver().batch(lines)[1:]
    proc = ps.Process(T)
    cm = None
    done = 0
    ok = True
    try:
        if block:
            cm = proc.oneshot()
            cm.__enter__()
            warm_up(proc)
            res.count("mode:live:block(one warm oneshot around the whole history)")
        for i, (o, m) in enumerate(zip(ops, outs)):
            if "bad" in m:
                raise RuntimeError("driver rejected %r: %s" % (o, m))
            mode = o.get("mode", "plain")
            try:
                poison_errno()
                out = canon_ok(ps, o["req"], call_in_mode(ps, proc, o["req"], mode))
            except BaseException as e:  # noqa: BLE001
                if isinstance(e, (KeyboardInterrupt, SystemExit)):
                    raise
                out = canon_exc(ps, e)
            im = {"out": out, "procs": [live.os_state(T, env["eligible"]), live.os_state(S, env["eligible"])]}
            # renderer validation: the status line is the kernel's rendering of the current mask
            with open("/proc/%d/status" % T, "rb") as f:
                line = [l for l in f.read().split(b"\n") if l.startswith(b"Cpus_allowed_list:")][0]
            if line != b"Cpus_allowed_list:\t" + cpulist(im["procs"][0]["affinity"]).encode():
                res.disagree("model", {"live_status_line": line.decode()}, cpulist(im["procs"][0]["affinity"]), None,
                             note="kernel's Cpus_allowed_list differs from the harness renderer")
            res.count("family:" + tag)
            res.count("live:" + o["req"]["kind"])
            res.count("mode:live:" + mode_for(o["req"], mode))
            rq = o["req"]
            for fk, fv in rq.items():
                if (fk.endswith("_form") and fv not in ("int",)) or (fk == "kw" and fv):
                    res.count("form:live:%s=%s" % (fk[:-5], fv) if fk != "kw" else "form:live:keyword-arguments")
            if rq["kind"] == "nice" and rq["value"] is None and im["procs"][0]["nice"] == -1:
                res.count("live:nice-get-of--1-with-stale-errno")
            if rq["kind"] == "rlimit" and rq.get("limits") is not None and len(rq["limits"]) == 2:
                lim = [x % U64 for x in rq["limits"] if isinstance(x, int)]
                if len(lim) == 2 and lim[0] > lim[1]:
                    res.count("live:rlimit:soft>hard")
                if -1 in rq["limits"]:
                    res.count("live:rlimit:RLIM_INFINITY")
            if rq["kind"] == "rlimit" and not 0 <= rq["res"] < 16:
                res.count("live:rlimit:resource-out-of-range")
            res.case((tag, i, o), nontrivial=not is_get(o["req"]))
            done += 1
            if not judge(ctx, res, hist, i, im, m, live=True):
                ok = False
                break
    finally:
        if cm is not None:
            try:
                cm.__exit__(None, None, None)
            except Exception:  # noqa: BLE001
                pass
    return done, ok



# ------------------------------------------------------------------------------ live: an unprivileged caller
#
# Round 3. The harness runs as root, so no system call of the set forms is ever refused for lack of privilege and the
# failure tests of the native setters (`retval == -1` → PyErr_SetFromErrno) would never run. Here a forked copy of this
# process drops to an unprivileged uid and makes the calls on ITSELF (its own process: lowering the nice value → EACCES,
# realtime I/O class → EPERM) and on a child of root (another user's process: every set form and prlimit → EPERM). The
# privileged parent reads the kernel's state back after every call. The model runs with cap = cap_nice = false and the
# root-owned target marked `foreign`.

UNPRIV_UID = 65534


def set_shows_value(req, st):
    """Statement: 'after a successful set with any valid value the kernel itself reports exactly that value'. For a set
    form that RETURNED (no exception): does the kernel state `st` of the target show the value? None = not a set form
    with a value the statement speaks about."""
    k = req["kind"]
    if k == "nice" and isinstance(req.get("value"), int) and -20 <= req["value"] <= 19:
        return st["nice"] == req["value"]
    if k == "ionice" and req.get("ioclass") in (0, 1, 2, 3):
        v = req.get("value") or 0
        if 0 <= v <= 7 and (req["ioclass"] in (1, 2) or v == 0):
            return st["ioprio"] == (req["ioclass"] << 13) | v
    if k == "cpu_affinity" and req.get("cpus") and all(isinstance(c, int) and c in st["cpuset"] for c in req["cpus"]):
        return st["affinity"] == sorted(set(req["cpus"]))
    return None


def live_unpriv(ctx, res, live, env, T):
    ps = ctx.psutil
    if os.geteuid() != 0:
        res.notes.append("live-unpriv skipped: the harness is not root, cannot drop privileges in a forked child")
        return 0
    import warnings
    c2p_r, c2p_w = os.pipe()
    p2c_r, p2c_w = os.pipe()
    with warnings.catch_warnings():
        warnings.simplefilter("ignore")
        child = os.fork()
    if child == 0:
        code = 0
        try:
            os.close(c2p_r)
            os.close(p2c_w)
            os.setgroups([])
            os.setgid(UNPRIV_UID)
            os.setuid(UNPRIV_UID)
            out, inp = os.fdopen(c2p_w, "w"), os.fdopen(p2c_r)
            out.write(json.dumps({"ready": os.getpid(), "uid": os.geteuid()}) + "\n")
            out.flush()
            for line in inp:
                o = json.loads(line)
                if o.get("quit"):
                    break
                if o.get("rlimits"):
                    # its own limits, read with the resource module (root without CAP_SYS_RESOURCE may not read them)
                    out.write(json.dumps([[x % U64 for x in real_resource.getrlimit(r)] for r in range(16)]) + "\n")
                    out.flush()
                    continue
                try:
                    proc = ps.Process(o["pid"])
                    poison_errno()
                    r = canon_ok(ps, o["req"], call_in_mode(ps, proc, o["req"], o.get("mode", "plain")))
                except BaseException as e:  # noqa: BLE001
                    r = canon_exc(ps, e)
                out.write(json.dumps(r) + "\n")
                out.flush()
        except BaseException:  # noqa: BLE001
            code = 1
        finally:
            os._exit(code)
    os.close(c2p_w)
    os.close(p2c_r)
    rd, wr = os.fdopen(c2p_r), os.fdopen(p2c_w, "w")
    done = 0
    try:
        hello = json.loads(rd.readline() or "{}")
        if hello.get("ready") != child or hello.get("uid") != UNPRIV_UID:
            res.notes.append("live-unpriv skipped: the forked child could not drop privileges (%r)" % hello)
            return 0
        C, E = child, env["eligible"]
        # seeded round 5 (C18-7): a second process of root's whose sixteen limits all differ (set here, by root, with the
        # resource module), asked for every RLIMIT_* by the unprivileged caller: prlimit(2) answers EPERM while
        # /proc/<pid>/limits is readable by everybody
        T2 = live.spawn()
        for r in range(16):
            want = {7: (600, 1200), 13: (3, 7), 14: (5, 9)}.get(r, (2**30 + 4096 * (r + 1), 2**31 + 4096 * (r + 1)))
            try:
                real_resource.prlimit(T2, r, want)
            except (OSError, ValueError):
                pass

        def state():
            wr.write(json.dumps({"rlimits": True}) + "\n")
            wr.flush()
            own = {"pid": C, "nice": os.getpriority(os.PRIO_PROCESS, C), "ioprio": raw_ioprio_get(C),
                   "affinity": sorted(os.sched_getaffinity(C)), "cpuset": list(E), "rlimits": json.loads(rd.readline()),
                   "foreign": False}
            return [own, dict(live.os_state(T, E), foreign=True), dict(live.os_state(T2, E), foreign=True)]
        st0 = state()
        nC, nT = st0[0]["nice"], st0[1]["nice"]
        ops = [
            # its own process: reading needs nothing; raising the nice value is allowed, lowering it is not (EACCES)
            op(C, R_nice()), op(C, R_nice(min(19, nC + 2))), op(C, R_nice()), op(C, R_nice(max(-20, nC - 3))), op(C, R_nice()),
            op(C, R_nice(-20)), op(C, R_nice()),
            # realtime I/O class needs CAP_SYS_NICE (EPERM), best-effort / idle do not
            op(C, R_ionice(1, 2)), op(C, R_ionice()), op(C, R_ionice(2, 3)), op(C, R_ionice()),
            op(C, F(R_ionice(1), ioclass_form="enum")), op(C, R_ionice(3)), op(C, R_ionice()),
            op(C, R_aff(E[:1])), op(C, R_aff()), op(C, R_aff([])), op(C, R_aff()),
            op(C, R_rl(7)), op(C, R_rl(7, (16, 32))), op(C, R_rl(7)), op(C, R_rl(7, (16, 64))), op(C, R_rl(7)),
            # another user's process: every get form but rlimit works, every set form is refused (EPERM)
            op(T, R_nice()), op(T, R_ionice()), op(T, R_aff()), op(T, R_rl(7)),
            op(T, R_nice(min(19, nT + 1))), op(T, R_nice()), op(T, R_nice(max(-20, nT - 1))), op(T, R_nice(2**31)),
            op(T, R_ionice(2, 4)), op(T, R_ionice()), op(T, R_ionice(3)), op(T, R_ionice(2, 9)), op(T, R_ionice(None, 1)),
            op(T, R_aff(E[:1])), op(T, R_aff()), op(T, R_aff([])), op(T, R_aff()), op(T, R_aff([env["ncpu"]])), op(T, R_aff([-1])),
            op(T, F(R_aff(E[-1:]), cpus_form="tuple")), op(T, R_aff()),
            op(T, R_rl(7, (16, 32))), op(T, R_rl(7, (1,))), op(T, R_rl(16)),
        ] + [op(T2, R_rl(r)) for r in range(16)] + [op(T, R_rl(r)) for r in (13, 14, 15, 4)] + [
            op(T2, R_rl(15, (1, 2))), op(T2, R_rl(15)), op(T2, F(R_rl(14), res_form="enum")), op(T2, R_nice()), op(T2, R_ionice()),
            op(T2, R_aff()),
        ]
        modes = ["plain", "oneshot", "oneshot-warm", "second"]
        ops = [dict(o, mode=ctx.rng.choice(modes)) for o in ops]
        world = {"self": C, "ncpu": env["ncpu"], "nr_open": env["nr_open"], "cap": False, "cap_nice": False, "procs": st0}
        hist = {"world": world, "ops": ops, "mode": "live", "tag": "live-unpriv"}
        lines = [dict(world, op="reset")] + [{"op": "call", "pid": o["pid"], "req": driver_req(o["req"]), "errno": POISON_ERRNO}
                                             for o in ops]
        outs = ctx.driver().batch(lines)[1:]
        for i, (o, m) in enumerate(zip(ops, outs)):
            if "bad" in m:
                raise RuntimeError("driver rejected %r: %s" % (o, m))
            wr.write(json.dumps(o) + "\n")
            wr.flush()
            line = rd.readline()
            if not line:
                res.disagree("model", {"world": world, "ops": ops[:i + 1], "mode": "live", "source": "live-unpriv"},
                             {"kind": "child-died"}, m["model"], m["spec"], note="the unprivileged child died")
                break
            out = json.loads(line)
            im = {"out": out, "procs": [{k: v for k, v in p.items() if k != "foreign"} for p in state()]}
            res.count("family:live-unpriv")
            res.count("live:" + o["req"]["kind"])
            res.count("mode:live:" + mode_for(o["req"], o["mode"]))
            if out.get("exc") == "AccessDenied":
                res.count("live:unpriv:AccessDenied:%s:%s" % (o["req"]["kind"], "own-process" if o["pid"] == C else "foreign-process"))
            res.case(("live-unpriv", i, json.dumps(o, sort_keys=True)), nontrivial=not is_get(o["req"]))
            done += 1
            shown = set_shows_value(o["req"], im["procs"][{C: 0, T: 1, T2: 2}[o["pid"]]]) if out == {"kind": "ok", "value": None} \
                and not is_get(o["req"]) else None
            if shown is False:
                res.disagree("spec", {"world": world, "ops": ops[:i + 1], "mode": "live", "source": "live-unpriv"}, im,
                             {k: v for k, v in m["model"].items() if k != "log"}, None,
                             note="op %d: the set form returned normally (a successful set) but the kernel does not report "
                                  "the value for that process — a refused system call went unnoticed" % i)
                break
            if not judge(ctx, res, hist, i, im, m, live=True):
                break
    finally:
        try:
            wr.write(json.dumps({"quit": True}) + "\n")
            wr.flush()
        except Exception:  # noqa: BLE001
            pass
        for f in (rd, wr):
            try:
                f.close()
            except Exception:  # noqa: BLE001
                pass
        try:
            os.kill(child, 9)
        except OSError:
            pass
        try:
            os.waitpid(child, 0)
        except OSError:
            pass
    return done


# ------------------------------------------------------------------------------ live: a kernel with many CPU ids
#
# Round 3. `psutil_proc_cpu_affinity_get` sizes its mask in a loop: sched_getaffinity(2) answers EINVAL while the mask
# is smaller than the kernel's (nr_cpu_ids bits). On this host the first mask (64 CPUs) is large enough, so the growth
# branch would never run. A preloaded shim makes `sched_getaffinity` refuse masks shorter than a pretended nr_cpu_ids
# (exactly what the kernel does), in a fresh interpreter that imports the snapshot's psutil; the model runs on a world
# with that many possible CPU ids.

SHIM_C = r"""
#define _GNU_SOURCE
#include <sched.h>
#include <errno.h>
#include <stdio.h>
#include <stdlib.h>
#include <string.h>
#include <unistd.h>
#include <sys/syscall.h>
int sched_getaffinity(pid_t pid, size_t cpusetsize, cpu_set_t *mask) {
    const char *e = getenv("C18_FAKE_NR_CPU_IDS");
    const char *lg = getenv("C18_SHIM_LOG");
    long nr = e ? atol(e) : 0;
    if (lg) { FILE *f = fopen(lg, "a"); if (f) { fprintf(f, "%zu\n", cpusetsize); fclose(f); } }
    if (nr > 0 && cpusetsize * 8 < (size_t) nr) { errno = EINVAL; return -1; }
    long r = syscall(SYS_sched_getaffinity, pid, cpusetsize, mask);
    if (r < 0) return -1;
    if ((size_t) r < cpusetsize) memset((char *) mask + r, 0, cpusetsize - r);
    return 0;
}
"""

SHIM_SCRIPT = r"""
import errno, json, os, sys
import psutil
pid = int(sys.argv[1])
def poison():
    try: os.stat("/nonexistent-psv-c18/x")
    except OSError: pass
def canon(f):
    try:
        poison()
        r = f()
        if type(r) is not list or any(type(x) is not int for x in r):
            return {"kind": "ok", "value": {"unexpected": repr(r)}}
        return {"kind": "ok", "value": r}
    except BaseException as e:
        d = {"kind": "exc", "exc": type(e).__name__}
        if isinstance(e, psutil.Error): d["pid"] = getattr(e, "pid", None)
        elif type(e) is OSError: d["errno"] = errno.errorcode.get(e.errno, str(e.errno))
        return d
p = psutil.Process(pid)
out = [canon(p.cpu_affinity)]
def in_block():
    with p.oneshot():
        p.num_threads(); return p.cpu_affinity()
out.append(canon(in_block))
print(json.dumps({"file": psutil.__file__, "out": out}))
"""


def live_shim(ctx, res, live, env, T, S):
    import shutil
    import tempfile
    cc = shutil.which("gcc") or shutil.which("cc")
    if cc is None:
        res.notes.append("live-shim skipped: no C compiler for the sched_getaffinity shim")
        return 0
    tmp = tempfile.mkdtemp(prefix="psv-c18-shim-")
    done = 0
    try:
        with open(os.path.join(tmp, "shim.c"), "w") as f:
            f.write(SHIM_C)
        so = os.path.join(tmp, "shim.so")
        r = subprocess.run([cc, "-shared", "-fPIC", "-O1", "-o", so, os.path.join(tmp, "shim.c")], capture_output=True,
                           text=True, timeout=120)
        if r.returncode != 0:
            res.notes.append("live-shim skipped: compiling the shim failed (%s)" % r.stderr.strip()[:200])
            return 0
        with open(os.path.join(tmp, "script.py"), "w") as f:
            f.write(SHIM_SCRIPT)
        E = env["eligible"]
        os.sched_setaffinity(T, E[:1] + E[-1:])
        for nr in (64, 65, 128, 129, 200, 512, 1000, 1024):
            log = os.path.join(tmp, "log-%d" % nr)
            st0 = [live.os_state(T, E), live.os_state(S, E)]
            world = {"self": os.getpid(), "ncpu": max(nr, env["ncpu"]), "stat_cpus": env["ncpu"], "nr_open": env["nr_open"],
                     "cap": env["cap"], "procs": st0}
            ops = [dict(op(T, R_aff()), mode="plain"), dict(op(T, R_aff()), mode="oneshot-warm")]
            hist = {"world": world, "ops": ops, "mode": "live", "tag": "live-shim"}
            lines = [dict(world, op="reset")] + [{"op": "call", "pid": T, "req": driver_req(o["req"]), "errno": POISON_ERRNO}
                                                 for o in ops]
            outs = ctx.driver().batch(lines)[1:]
            envp = dict(os.environ, LD_PRELOAD=so, C18_FAKE_NR_CPU_IDS=str(nr), C18_SHIM_LOG=log, PYTHONPATH=ctx.snap.dir)
            try:
                pr = subprocess.run([sys.executable, os.path.join(tmp, "script.py"), str(T)], capture_output=True, text=True,
                                    timeout=20, env=envp, cwd=tmp)
                if pr.returncode != 0 or not pr.stdout.strip():
                    raise RuntimeError("shim interpreter failed: rc=%s %s" % (pr.returncode, pr.stderr.strip()[-300:]))
                got = json.loads(pr.stdout.strip().splitlines()[-1])
                if not os.path.abspath(got["file"]).startswith(os.path.abspath(ctx.snap.dir)):
                    raise RuntimeError("shim interpreter imported psutil from %s" % got["file"])
                impl_outs = got["out"]
            except subprocess.TimeoutExpired:
                impl_outs = [{"kind": "hang"}, {"kind": "hang"}]
            sizes = []
            if os.path.exists(log):
                with open(log) as f:
                    sizes = [int(x) for x in f.read().split()]
            rounds = sum(1 for x in sizes if x * 8 < nr)
            res.count("live:shim:nr_cpu_ids=%d:EINVAL-rounds-per-call=%d" % (nr, rounds // 2 if rounds else 0))
            if rounds:
                res.count("live:shim:sched_getaffinity-refused-with-EINVAL(growth branch of the sizing loop ran)")
            for i, (o, m, out) in enumerate(zip(ops, outs, impl_outs)):
                if "bad" in m:
                    raise RuntimeError("driver rejected %r: %s" % (o, m))
                im = {"out": out, "procs": [live.os_state(T, E), live.os_state(S, E)]}
                res.count("family:live-shim")
                res.count("live:cpu_affinity")
                res.case(("live-shim", nr, i), nontrivial=False)
                done += 1
                if not judge(ctx, res, hist, i, im, m, live=True):
                    return done
    finally:
        shutil.rmtree(tmp, ignore_errors=True)
    return done


# ------------------------------------------------------------------------------ live: a forked caller
#
# Round 5 (seeded C18-5). A FRESH interpreter imports the snapshot's psutil (so whatever the module remembers from import
# time belongs to that process), makes Process objects for itself and for a third process, then fork()s. The CHILD makes
# the calls: on its parent (the importing process), on itself, on the third process; with objects made before the fork and
# objects it makes itself. The harness (a fourth process) reads the kernel's state of all three back after every call.
# Rendezvous over pipes, one call per "go" line: nothing depends on timing.

FORK_SCRIPT = r"""
import errno, json, os, sys
import psutil
other = int(sys.argv[1])
def say(d):
    sys.stdout.write(json.dumps(d) + "\n"); sys.stdout.flush()
def poison():
    try: os.stat("/nonexistent-psv-c18/x")
    except OSError: pass
def call(p, rq):
    k = rq["kind"]
    if k == "nice": return p.nice() if rq.get("value") is None else p.nice(rq["value"])
    if k == "ionice": return p.ionice(rq.get("ioclass"), rq.get("value"))
    if k == "cpu_affinity": return p.cpu_affinity() if rq.get("cpus") is None else p.cpu_affinity(list(rq["cpus"]))
    if k == "rlimit": return p.rlimit(rq["res"]) if rq.get("limits") is None else p.rlimit(rq["res"], tuple(rq["limits"]))
    raise ValueError(k)
def canon(rq, f):
    try:
        poison()
        r = f()
        k = rq["kind"]
        if r is None: return {"kind": "ok", "value": None}
        if k == "nice" and type(r) is int: return {"kind": "ok", "value": r}
        if k == "ionice" and type(r).__name__ == "pionice": return {"kind": "ok", "value": {"ioclass": int(r.ioclass), "data": int(r.value)}}
        if k == "cpu_affinity" and type(r) is list: return {"kind": "ok", "value": [int(x) for x in r]}
        if k == "rlimit" and type(r) is tuple and len(r) == 2: return {"kind": "ok", "value": [int(r[0]), int(r[1])]}
        return {"kind": "ok", "value": {"unexpected": repr(r)}}
    except BaseException as e:
        d = {"kind": "exc", "exc": type(e).__name__}
        if isinstance(e, psutil.Error): d["pid"] = getattr(e, "pid", None)
        elif type(e) is OSError: d["errno"] = errno.errorcode.get(e.errno, str(e.errno))
        return d
me = os.getpid()
pre = {"parent": psutil.Process(me), "other": psutil.Process(other)}
say({"importer": me, "file": psutil.__file__})
sys.stdin.readline()                       # the harness has read the importer's state
pid = os.fork()
if pid:
    _, st = os.waitpid(pid, 0)
    os._exit(0)
try:
    child = os.getpid()
    say({"child": child})
    pids = {"parent": me, "other": other, "child": child}
    post = {}
    while True:
        line = sys.stdin.readline()
        if not line.strip(): break
        o = json.loads(line)
        if o["object"] == "pre": p = pre[o["target"]]
        else:
            if o["target"] not in post: post[o["target"]] = psutil.Process(pids[o["target"]])
            p = post[o["target"]]
        say({"out": canon(o["req"], lambda: call(p, o["req"]))})
finally:
    os._exit(0)
"""


def live_fork(ctx, res, live, env, other):
    import select
    import shutil
    import tempfile
    tmp = tempfile.mkdtemp(prefix="psv-c18-fork-")
    done = 0
    pr = None

    def read_line(timeout=20):
        r, _, _ = select.select([pr.stdout], [], [], timeout)
        if not r:
            raise RuntimeError("the forked interpreter does not answer")
        line = pr.stdout.readline()
        if not line:
            raise RuntimeError("the forked interpreter closed its pipe: %s" % pr.stderr.read()[-300:])
        return json.loads(line)

    try:
        with open(os.path.join(tmp, "script.py"), "w") as f:
            f.write(FORK_SCRIPT)
        envp = dict(os.environ, PYTHONPATH=ctx.snap.dir)
        pr = subprocess.Popen([sys.executable, os.path.join(tmp, "script.py"), str(other)], stdin=subprocess.PIPE,
                              stdout=subprocess.PIPE, stderr=subprocess.PIPE, text=True, env=envp, cwd=tmp, bufsize=1)
        hello = read_line(60)
        if not os.path.abspath(hello["file"]).startswith(os.path.abspath(ctx.snap.dir)):
            raise RuntimeError("forked interpreter imported psutil from %s" % hello["file"])
        A = hello["importer"]
        pr.stdin.write("fork\n")
        pr.stdin.flush()
        B = read_line()["child"]
        E = env["eligible"]
        pids = {"parent": A, "child": B, "other": other}
        st0 = [live.os_state(A, E), live.os_state(B, E), live.os_state(other, E)]
        by = {"parent": st0[0], "child": st0[1], "other": st0[2]}
        plan = []
        k = 0
        for tgt in ("parent", "other", "child", "parent"):
            st = by[tgt]
            objs = ("post",) if tgt == "child" else (("pre", "post") if k % 2 == 0 else ("post", "pre"))
            k += 1
            s7, h7 = st["rlimits"][7]
            s4, h4 = st["rlimits"][4]
            pyv = lambda v: -1 if v == INF else v  # noqa: E731
            reqs = [R_rl(7), R_rl(7, (max(0, min(s7, h7, 2**40) - 7 - 3 * k), pyv(h7))), R_rl(7),
                    R_rl(4, (min(s4, k), pyv(h4))), R_rl(4),
                    R_nice(), R_nice(min(19, st["nice"] + k)), R_nice(),
                    R_ionice(), R_ionice(2, (k + 3) % 8), R_ionice(), R_ionice(3), R_ionice(),
                    R_aff(), R_aff(E[k % len(E):][:1]), R_aff(), R_aff([]), R_aff(),
                    R_ionice(2, 8), R_rl(7, (1,)), R_aff([env["ncpu"] + 5])]
            for j, rq in enumerate(reqs):
                plan.append({"target": tgt, "object": objs[j % len(objs)], "req": rq})
        world = {"self": B, "ncpu": env["ncpu"], "nr_open": env["nr_open"], "cap": env["cap"], "procs": st0}
        ops = [dict(op(pids[o["target"]], o["req"]), target=o["target"],
                    object="made before the fork by the importing process" if o["object"] == "pre" else "made by the caller")
               for o in plan]
        hist = {"world": dict(world, import_pid=A, forked_child_of=A), "ops": ops, "mode": "live", "tag": "live-fork"}
        lines = [dict(world, op="reset")]
        for o in plan:
            lines.append({"op": "call", "pid": pids[o["target"]], "req": driver_req(o["req"]), "errno": POISON_ERRNO,
                          "import_pid": A, "create_pid": A if o["object"] == "pre" else B})
        outs = ctx.driver().batch(lines)[1:]
        for i, (o, m) in enumerate(zip(plan, outs)):
            if "bad" in m:
                raise RuntimeError("driver rejected %r: %s" % (o, m))
            pr.stdin.write(json.dumps(o) + "\n")
            pr.stdin.flush()
            out = read_line()["out"]
            im = {"out": out, "procs": [live.os_state(A, E), live.os_state(B, E), live.os_state(other, E)]}
            res.count("family:live-fork")
            res.count("live:fork:target=%s,object %s" % (o["target"], "made before the fork" if o["object"] == "pre" else "made by the child"))
            res.count("live:" + o["req"]["kind"])
            res.case(("live-fork", i, o["target"], o["object"], json.dumps(o["req"], sort_keys=True)), nontrivial=not is_get(o["req"]))
            done += 1
            if not judge(ctx, res, hist, i, im, m, live=True):
                break
    except (RuntimeError, OSError, ValueError, KeyError) as e:
        res.notes.append("live-fork incomplete after %d calls: %s: %s" % (done, type(e).__name__, e))
    finally:
        if pr is not None:
            try:
                pr.stdin.close()
            except Exception:  # noqa: BLE001
                pass
            try:
                pr.wait(timeout=10)
            except Exception:  # noqa: BLE001
                pr.kill()
        shutil.rmtree(tmp, ignore_errors=True)
    return done


def check_live(ctx, res):
    live = Live(ctx)
    if not live.ok:
        res.notes.append("live part skipped: not x86_64 / no sched_getaffinity")
        return 0
    ps = ctx.psutil
    done = 0
    try:
        try:
            env = live.probe()
        except Exception as e:  # a sandbox that forbids these calls: report, do not fail the check
            res.notes.append("live part skipped: probing the sandbox failed (%s: %s)" % (type(e).__name__, e))
            return 0
        res.extra["live_env"] = {k: (v if k != "eligible" else cpulist(v)) for k, v in env.items()}
        if not env["eligible"] or env["eligible"][-1] >= env["ncpu"]:
            res.notes.append("live part skipped: eligible CPUs %r not within 0..%d" % (env["eligible"], env["ncpu"] - 1))
            return 0
        T, S = live.spawn(), live.spawn()
        st0 = [live.os_state(T, env["eligible"]), live.os_state(S, env["eligible"])]
        ops = live_ops(ctx, env, st0[0])
        ops = [o if "mode" in o else dict(o, mode=pick_mode(ctx.rng)) for o in ops]
        n, ok = run_live(ctx, res, live, env, T, S, ops, "live", block=False)
        done += n
        if ok:
            # seeded round 5 (C01-7): CPU numbers of every magnitude through the REAL native setter and the real system
            # call; the kernel's answer (os.sched_getaffinity) after every call is what is compared
            mops = magnitude_ops(T, env["eligible"], ctx.rng, ctx.n(12, 300), full=(ctx.tier != "quick"))
            mops = [dict(o, mode=ctx.rng.choice(["plain", "plain", "oneshot", "second"])) for o in mops]
            n, ok = run_live(ctx, res, live, env, T, S, mops, "live-magnitude", block=False)
            done += n
        if ok:
            # the same child, now inside ONE warm oneshot block: set, then get in the same block shows the new value
            n, ok = run_live(ctx, res, live, env, T, S, live_block_ops(env, live.os_state(T, env["eligible"])),
                             "live-block", block=True)
            done += n
        if ok:
            # a real zombie: nothing in these calls may depend on the process state (the zombie test of rlimit() is
            # for ENOSYS only, the one of wrap_exceptions for a process the kernel no longer finds)
            Z = live.spawn_zombie()
            if Z is None:
                res.notes.append("live-zombie skipped: the child did not become a zombie")
            else:
                zops = live_zombie_ops(env, live.os_state(Z, env["eligible"]))
                zops = [dict(o, mode=ctx.rng.choice(["plain", "oneshot", "oneshot-warm", "second", "iter"])) for o in zops]
                n, ok = run_live(ctx, res, live, env, Z, S, zops, "live-zombie", block=False)
                done += n
        if ok:
            # round 3: an unprivileged caller (EPERM / EACCES reach the caller, nothing changes), and a kernel whose
            # affinity mask is longer than the first one the native getter tries (the sizing loop's growth branch)
            U = live.spawn()
            done += live_unpriv(ctx, res, live, env, U)
            done += live_shim(ctx, res, live, env, U, S)
            # round 5: a forked caller (psutil imported before the fork) acting on its parent, itself, a third process
            done += live_fork(ctx, res, live, env, live.spawn())
        if ok and len(env["eligible"]) >= 3 and env["eligible"][-1] == env["ncpu"] - 1:
            # the same child seen through a procfs whose /proc/stat lacks the cpuN line of a CPU that is not the last
            # one (seeded C18-2): len(per_cpu_times()) = ncpu - 1 while CPU ids go up to ncpu - 1
            old_path = ps.PROCFS_PATH
            tmp = None
            try:
                tmp, nlines = hole_procfs(env["eligible"][0])
                ps.PROCFS_PATH = tmp
                if len(ps._pslinux.per_cpu_times()) == nlines == env["ncpu"] - 1:
                    hops = live_hole_ops(env, live.os_state(T, env["eligible"]))
                    hops = [dict(o, mode=ctx.rng.choice(["plain", "oneshot", "oneshot-warm", "second", "as_dict"]))
                            for o in hops]
                    n, ok = run_live(ctx, res, live, env, T, S, hops, "live-hole", block=False, stat_cpus=nlines)
                    done += n
                else:
                    res.notes.append("live-hole skipped: fake procfs shows %d cpuN lines" % len(ps._pslinux.per_cpu_times()))
            except OSError as e:
                res.notes.append("live-hole skipped: cannot build the fake procfs (%s)" % e)
            finally:
                ps.PROCFS_PATH = old_path
                if tmp:
                    import shutil
                    shutil.rmtree(tmp, ignore_errors=True)
    finally:
        live.close()
    return done


# ------------------------------------------------------------------------------ entry points

_HOST_CPUS = max(os.cpu_count() or 1, len(os.sched_getaffinity(0)) if hasattr(os, "sched_getaffinity") else 1)

CORPUS = [
    # empty list after the mask was narrowed to a range (the lead found while building C18)
    ("corpus", mk_world(ncpu=4, affinity=[0, 1]), [op(T_PID, R_aff([])), op(T_PID, R_aff())]),
    ("corpus", mk_world(ncpu=8, affinity=[2, 3, 5]), [op(T_PID, R_aff([])), op(T_PID, R_aff())]),
    # only-ineligible CPU while the status line is not a range (known finding region)
    ("corpus", mk_world(ncpu=4, cpuset=[0, 1], affinity=[0]), [op(T_PID, R_aff([2])), op(T_PID, R_aff())]),
    ("corpus", mk_world(ncpu=4, cpuset=[0, 1], affinity=[0, 1]), [op(T_PID, R_aff([2])), op(T_PID, R_aff())]),
    # /proc/stat with a hole (CPU 2 offline) / virtualised: cpu_affinity([]) must still select ALL eligible CPUs (seeded C18-2)
    ("corpus", mk_world(ncpu=4, online=[0, 1, 3], affinity=[0]), [op(T_PID, R_aff([])), op(T_PID, R_aff())]),
    ("corpus", mk_world(ncpu=6, stat=[0, 1], cpuset=[4, 5], affinity=[4]), [op(T_PID, R_aff([])), op(T_PID, R_aff())]),
    # more possible CPU ids than THIS host has CPUs (offline CPUs below the highest id, a bigger machine): a request for
    # range(os.cpu_count()) / range(len(os.sched_getaffinity(0))) instead of range(1024) misses the eligible CPUs above
    ("corpus", mk_world(ncpu=_HOST_CPUS + 8, cpuset=[1, _HOST_CPUS + 3], affinity=[1]), [op(T_PID, R_aff([])), op(T_PID, R_aff())]),
    ("corpus", mk_world(ncpu=_HOST_CPUS + 2, online=[0, _HOST_CPUS + 1], affinity=[0]), [op(T_PID, R_aff([])), op(T_PID, R_aff())]),
    ("corpus", mk_world(), [op(T_PID, R_ionice(None, 3)), op(T_PID, R_ionice(3, 1)), op(T_PID, R_ionice(2, 8)),
                            op(T_PID, R_ionice(2, 7)), op(T_PID, R_ionice())]),
]


def correspond(ctx, res):
    impl = SimImpl(ctx)
    try:
        res.rule = ("histories = initial kernel state of three processes + 1..6 public calls; exhaustive "
                    "families (nice, ionice class x level, all CPU subsets of <= 6 CPUs with duplicates and "
                    "out-of-range entries over 9 mask/cpuset configurations and over 8 worlds with offline CPUs / a virtualised /proc/stat, every RLIMIT_* x limit pairs x "
                    "CAP_SYS_RESOURCE, PID 0) + PRNG histories (VERIF_SEED) + one live history on a spawned "
                    "child; every call is made in a call mode (see mode:* counts) which the model ignores; "
                    "non-trivial = contains a set form; distinct = distinct (state, calls with modes, block)")
        hists = [{"world": w, "ops": o, "mode": "sim", "tag": t} for t, w, o in CORPUS]
        n_ex = 0
        for t, w, o in exhaustive_histories(ctx.tier):
            hists.append(with_modes(ctx.rng, {"world": w, "ops": o, "mode": "sim", "tag": t}))
            n_ex += 1
        n_modes = 0
        for h in mode_histories():
            hists.append(h)
            n_modes += 1
        n_ext = 0
        for h in extension_histories(ctx.rng):
            hists.append(h)
            n_ext += 1
        for h in magnitude_histories(ctx.rng, ctx.tier):
            hists.append(with_modes(ctx.rng, h))
        n_caller = 0
        for h, exh in caller_histories(ctx.rng, ctx.n(400, 8000)):
            hists.append(h)
            n_caller += exh
        n_refused = 0
        for h, exh in refused_histories(ctx.rng, ctx.n(250, 5000)):
            hists.append(h)
            n_refused += exh
        for _ in range(ctx.n(1500, 40000)):
            w, o = gen_history(ctx.rng)
            hists.append(with_modes(ctx.rng, {"world": w, "ops": o, "mode": "sim", "tag": "random"}, p_block=0.25))
        total = check_sim(ctx, res, impl, hists)
        total += check_eligible_helper(ctx, res, impl)
        res.exhaustive = ("%d enumerated histories: nice -26..26 and the C int borders; ioclass None,-1..9,2^18-1,2^18,2^31 "
                          "x value None,-2..10,2^31; every ioprio class 0..7 for the get form; all 64 subsets of 6 CPUs "
                          "x {plain, duplicated, +nonexistent, +-1, +-2, +1024} x 9 (ncpu, cpuset, current mask) "
                          "configurations; 16 resources x 16 limit shapes x CAP_SYS_RESOURCE on/off; PID 0; the PRNG "
                          "histories and the live run are samples. Call modes (plain, oneshot, warm oneshot, as_dict, "
                          "process_iter object, process_iter(attrs).info, second call; whole history inside one warm "
                          "oneshot block) are drawn per call for the enumerated inputs and enumerated completely on "
                          "%d histories (24 requests x 2 states x 7 modes + block). Round 2: %d histories enumerate the "
                          "ionice table {None,0,1,2,3,4,-1} x {None,-1,0,1,4,7,8} x class form (int, IOPRIO_CLASS_* member) x "
                          "value form (int, bool, enum) x (positional, keyword) x 2 states; nice/rlimit/cpu_affinity in every "
                          "argument form (7 resource forms x 13 limit shapes x tuple/list/iterator x kw; 14 CPU lists x "
                          "list/tuple/set/range/iterator x 3 worlds x kw); 23 requests on a vanished process x 4 modes; 15 requests "
                          "on a zombie x 7 modes + block. Round 5 (who is calling): %d histories enumerate every assignment of "
                          "the roles importing process (pid remembered at import) / creator of the Process object / caller to "
                          "the three processes of the world (4 x 3 x 3, incl. 'the importer is none of them') x 8 request groups "
                          "(each set form, cpu_affinity([]), the get forms, the listed invalid requests) on the target, followed "
                          "by the get forms on the target, the caller and the third process. Seeded round 5 (C18-7, a refused get form with "
                          "another readable source): %d histories enumerate the 16 RLIMIT_* x 4 limit tables (sixteen different "
                          "pairs, the kernel's defaults, soft = hard, raw values >= 2^63) x 3 ownership patterns for a caller "
                          "without CAP_SYS_RESOURCE, /proc/<pid>/limits readable, + every get form of a foreign process"
                          % (n_ex, n_modes, n_ext, n_caller, n_refused))
        res.extra["driver_lines"] = total
    finally:
        impl.close()
    res.extra["live_ops"] = check_live(ctx, res)


def search(ctx, res, broken):
    correspond(ctx, res)


def _violates(ctx, inp):
    """Re-run one recorded input; True iff the implementation still differs from the spec
    (or, where the spec is silent, from the model)."""
    if inp.get("mode") != "sim":
        return None
    impl = SimImpl(ctx)
    try:
        h = {"world": inp["world"], "ops": inp["ops"], "mode": "sim", "tag": "replay", "block": inp.get("block")}
        rows_all, _ = run_sim_histories(ctx, impl, [h])
        for i, (im, m) in enumerate(rows_all[0]):
            if m["model"]["out"].get("kind") == "undefined-c":
                return None
            if m["spec"] is None and m.get("honest") is not None and im not in m["honest"]:
                return (i, im, m)
            want = m["spec"] if m["spec"] is not None else m["model"]
            if im != want:
                return (i, im, m)
        return None
    finally:
        impl.close()


def shrink(ctx, d):
    inp = d["input"]
    if inp.get("mode") != "sim" or len(inp["ops"]) <= 1:
        return d
    small = ddmin(inp["ops"], lambda ops: _violates(ctx, dict(inp, ops=ops)) is not None, max_tests=40)
    r = _violates(ctx, dict(inp, ops=small))
    if r is None:
        return d
    i, im, m = r
    spec = m["spec"] if m["spec"] is not None or m.get("honest") is None else {"admissible": m["honest"]}
    return dict(d, input=dict(inp, ops=small[:i + 1], source="shrunk"), impl=im, model=m["model"], spec=spec)


def _replay_live_ops(ctx, inp, r2):
    """The recorded calls of a live-magnitude witness on a fresh child of this host (CPU numbers are plain ints)."""
    live = Live(ctx)
    if not live.ok:
        return False
    try:
        env = live.probe()
        T, S = live.spawn(), live.spawn()
        ops = [dict(o, pid=T) for o in inp["ops"]]
        run_live(ctx, r2, live, env, T, S, ops, "live-magnitude", block=False)
    finally:
        live.close()
    return any(x["kind"] in ("spec", "model") and not x.get("finding") for x in r2.disagreements)


def replay(ctx, rp, res):
    inp = rp["input"]
    if inp.get("mode") == "live":
        if inp.get("source") == "live-magnitude":
            return _replay_live_ops(ctx, inp, type(res)())
        # a live witness is replayed on a fresh child: same requests, same comparison
        r2 = type(res)()
        check_live(ctx, r2)
        return any(x["kind"] == "spec" and not x.get("finding") for x in r2.disagreements)
    if "world" not in inp:
        return True
    if inp.get("mode") == "helper":
        impl = SimImpl(ctx)
        try:
            m = ctx.driver().batch([driver_world(inp["world"]), {"op": "eligible", "pid": T_PID}])[1]
            impl.begin(inp["world"])
            try:
                got = [int(x) for x in impl.ps.Process(T_PID)._proc._get_eligible_cpus()]
            except Exception as e:  # noqa: BLE001
                got = {"exc": type(e).__name__}
            return got != m.get("ok")
        finally:
            impl.close()
    return _violates(ctx, inp) is not None


def check_finding(ctx, fnd):
    w = fnd.get("witness", {})
    if "world" not in w:
        return "unknown"
    impl = SimImpl(ctx)
    try:
        h = {"world": w["world"], "ops": w["ops"], "mode": "sim", "tag": "finding"}
        rows_all, _ = run_sim_histories(ctx, impl, [h])
        im, m = rows_all[0][-1]
        if m["spec"] is not None and im["out"] != m["spec"]["out"] and im["out"] == w.get("impl_out"):
            return "reproduces"
        if m["spec"] is not None and im == m["spec"]:
            return "gone"
        return "changed"
    finally:
        impl.close()
