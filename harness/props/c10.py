"""C10 — nowrap=True counters never decrease while their device stays present.

Model: lean/PsutilModel/Model/C10.lean (+C10Gen), Spec: Spec/C10.lean, theorems: Props/C10.lean.
Correspondence: histories of front-end calls `psutil.disk_io_counters / net_io_counters`
(perdisk/pernic or total, nowrap True/False) and `cache_clear()`s with the platform layer
replaced by scripted raw snapshots, compared step by step with the Lean model (and with the
history-defined specification the driver prints alongside).
"""
import ast
import itertools
import threading
import time

from harness.common import extract
from harness.common.extract import NotRecognised
from harness.common.shrink import ddmin
from harness.props import c10_preempt

PROP = "C10"
DRIVER_MODULES = ["PsutilModel.Model.C10Gen", "PsutilModel.Model.C10Front", "PsutilModel.Model.C10Conc", "PsutilModel.Model.C10Lock",
                  "PsutilModel.Model.C10Dict", "PsutilModel.Model.C10Plat", "PsutilModel.Spec.C10",
                  "PsutilModel.Spec.C10Out", "PsutilModel.Spec.C10Plat"]
FINDING_FORMS = "C10-forms-share-cache"
FINDING_SAMPLE = "C10-sample-outside-lock"
NEEDS_EXT = True
TRUSTED = [
    "C10 model: two levels — the three dicts of _WrapNumbers as they are (association lists in insertion order, defaultdict reads, KeyError/AssertionError/IndexError branches; cache_info() = their value at the time of the call, the aliasing of the returned dicts is not modelled) and, proved equal to it on every uniform-width history (C10_concrete_refines), the abstract state with reminders as a total function (0 = absent); the kernel listing (device, whole disk?, counters) is the input (C09 covers how it is parsed)",
    "C10 pre-emption explorer (c10_preempt.py): scheduling points are line events of the snapshot's code objects, the creation / acquisition / release of locks created by psutil code, and (search / thorough) the bytecodes of psutil/__init__.py; a thread switch inside one bytecode or inside C code is not explored; the import-time state that is restored is what is reachable in one step from the package's module globals",
    "C10 concurrency: bodies of run()/cache_clear() are modelled as load + store under `_wn.lock`; the raw sample is an explicit `sample` action, outside every lock or (fact sampleUnderLock) inside the front ends' sampling lock, whose acquire/release are merged with the sample and with the release of `_wn.lock` (adds behaviours only); `Sys.samples` is a ghost record of the order of the platform calls",
]
MANIFEST = {
    "level_text": "Machine-checked Lean 4 proof that the model of the public front ends (per-device and system-wide form, Linux perdisk filter, cache_clear of one or two names) + _WrapNumbers.run/cache_clear refines a history-defined specification for EVERY history (C10_refines, C10_front_refines: any number of wraps, devices appearing/vanishing/reappearing, empty snapshots, cache_clear anywhere, alternating nowrap, both functions and both forms interleaved), that the system-wide form is the field-wise sum of the adjusted per-device tuples (C10_total_is_sum, C10_total_field) and never decreases while no device vanishes (C10_total_monotone; proved counterexample C10_total_drops_when_device_vanishes for the unrestricted statement), with corollaries C10_monotone, C10_value_formula, C10_reappear_fresh, C10_cache_clear_forgets, C10_nowrap_false_raw, C10_names_independent, and that every interleaving of any number of threads equals the serial execution in lock-acquisition order (C10_serialisable, C10_concurrent_refines; counterexample C10_unlocked_not_serialisable; finding C10-sample-outside-lock: with the raw sample taken outside every lock the calls need not go through _wn.lock in the order they read the kernel — counterexample C10_lock_order_is_not_sampling_order, 100/105/110 reported as 105/205/215, forced on two real threads; the full concurrent statement C10_concurrent_Full — lock order of the calls = sampling order, each nowrap=True call returns `expected` over exactly the snapshots sampled before its own — is proved for every configuration that samples under the front ends' lock (C10_concurrent_full_strength, instantiated as C10_concurrent_full_strength_fixed for the current source with fixes/C10-sample-under-lock; obligation cfg_sample_under_lock to be switched on when the fix has landed). The sampling lock is also modelled as an OBJECT (Model/C10Lock: a caller evaluates the expression after `with` — a table lookup that may miss followed by the creation and storing of a fresh lock under the lazy policy —, acquires that object, reads the kernel, goes through wrap_numbers, releases it; any number of threads, thread switches between any two of these steps): whatever the policy two threads are never inside sections guarded by the same object (C10_lock_object_exclusive); with one lock object that exists before any call every interleaving is a run of the lock model with the sample under the lock (C10_static_lock_refines_sampling_lock), hence the concurrent clause at full strength over the lock-object model (C10_concurrent_lock_objects, instantiated for the current source as C10_concurrent_lock_objects_cfg through the obligation cfg_sampling_lock_static, fed by the translator fact samplingLockStatic: the `with` expression of both front ends is a module-level name bound once, at import time, to threading.Lock()); counterexample C10_lazy_lock_created_twice for a lock created by the caller on a missed lookup (two first calls at once: 100/105/110 reported as 205/105/215). The three dicts of _WrapNumbers are modelled as they are in the code and proved to refine the abstract model after every history (C10_concrete_refines: same return values, no KeyError/AssertionError), with the invariant reminder_keys = support of reminders stated separately (C10_reminder_keys_support; what-if counterexample C10_reminder_keys_overwrite_counterexample for a set that is assigned instead of added to) and the value of cache_info() characterised from the history alone (C10_cache_info_reflects). Proved counterexamples for the pre-fix front end (C10_reappear_needs_empty_feed) and for the two forms of disk_io_counters sharing one cache name on Linux (C10_forms_share_history_counterexample, kept for the shared-name configuration sharedCfg: the defect was fixed in /repo by a52899b); for the repaired front end the full statement is proved (C10_present_monotone: after any history, any listings, any number of system-wide calls in between, a disk that stays listed never goes backwards between two perdisk=True calls; instantiated as C10_present_monotone_cfg through the obligation cfg_forms_good). The model is tied to the code by 26 translator facts (empty-snapshot handling, cache names per form, names cleared, wrap comparison, Linux perdisk filter, run/cache_clear/cache_info under the lock, reminder_keys only ever added to, raw sample + wrap_numbers under one front-end lock) feeding cfg_good / cfg_good_conc / cfg_forms_good / cfg_good_dict, and by a differential run of the real front-end functions against model and specification on generated and exhaustively enumerated histories (return values after every step, cache_info() against the concrete-dict model and against the history-defined specification), including 2-3 real threads whose observed schedule is replayed through the Lean lock model, and a model-independent bounded-pre-emption exploration from a COLD process (harness/props/c10_preempt.py: import-time state of the package restored before every schedule, every lock psutil creates made cooperative, thread switches at every line of the front ends — all schedules with at most two pre-emptions of the first two calls of a process, samples of the others — judged by the history-defined specification over the order in which the calls read the kernel).",
    "level_note": "Trusted: Lean kernel + {propext, Classical.choice, Quot.sound}; the translator; the correspondence harness; the aliasing of the dicts cache_info() returns is not modelled (its value at call time is); uniform tuple width and unique device names per snapshot are hypotheses (true of every platform layer's output); whether the raw sample is taken under a lock is a translator fact (finding C10-sample-outside-lock while it is not).",
    "technique": "Lean 4 refinement proof by induction over histories (invariant of _WrapNumbers) + data refinement from the concrete dicts to the abstract state + small-step lock model with serialisability invariant + translator-fed proof obligations + differential correspondence with exhaustive short histories and replayed real-thread schedules",
    "design_ref": "DESIGN.md §5 C10",
}
ASSUMPTIONS = [
    "all counter tuples of one function have the same width (9 for disks on Linux, 8 for NICs); device names are unique within a snapshot (a dict)",
]

# ------------------------------------------------------------------------------ translator


def _name_arg(fn, node):
    """The `name` argument of a _wrap_numbers call → (name of the per-device form, name of the system-wide
    form). Recognised: a string literal, or a variable assigned once in the function by
    `<var> = 'A' if perdisk else 'B'`. TOTAL: anything else gives the pair ("?<source text>", "?<source text>"),
    which is no cache name the model knows, so the name obligations (cfg_good / cfg_forms_good) fail."""
    if isinstance(node, ast.Constant) and isinstance(node.value, str):
        return node.value, node.value
    if isinstance(node, ast.Name):
        assigns = [st for st in ast.walk(fn) if isinstance(st, ast.Assign) and len(st.targets) == 1
                   and extract.dotted(st.targets[0]) == node.id]
        if len(assigns) == 1 and isinstance(assigns[0].value, ast.IfExp):
            ie = assigns[0].value
            t = extract.dotted(ie.test)
            try:
                if t in ("perdisk", "pernic"):
                    return str(extract.const(ie.body)), str(extract.const(ie.orelse))
                if isinstance(ie.test, ast.UnaryOp) and isinstance(ie.test.op, ast.Not) \
                        and extract.dotted(ie.test.operand) in ("perdisk", "pernic"):
                    return str(extract.const(ie.orelse)), str(extract.const(ie.body))
            except NotRecognised:
                pass
        if len(assigns) == 1 and isinstance(assigns[0].value, ast.Constant) and isinstance(assigns[0].value.value, str):
            return assigns[0].value.value, assigns[0].value.value
    txt = "?" + extract.unparse(node)[:60]
    return txt, txt


def _wrap_names(tree, fname):
    """(name of the per-device form, name of the system-wide form) — from the `_wrap_numbers` calls alone, whatever
    the rest of the function looks like. TOTAL: no call -> ("?none", "?none"); different names at different calls ->
    ("?several …")."""
    fn = extract.find_def(tree, fname)
    pairs = []
    for c in extract.calls_in(fn, "_wrap_numbers") + extract.calls_in(fn, "wrap_numbers"):
        arg = c.args[1] if len(c.args) >= 2 else next((k.value for k in c.keywords if k.arg == "name"), None)
        pairs.append(_name_arg(fn, arg) if arg is not None else ("?missing", "?missing"))
    if not pairs:
        return "?none", "?none"
    if len(set(pairs)) > 1:
        txt = "?several: " + ", ".join(sorted({p[0] for p in pairs} | {p[1] for p in pairs}))[:80]
        return txt, txt
    return pairs[0]


def _empty_feeds(tree, fname):
    """Is an empty raw dict handed to wrap_numbers? TOTAL and conservative: True iff the function calls
    `_wrap_numbers` and no top-level statement BEFORE the first statement containing such a call can return
    (the historic front end had `if not rawdict: return …` first), or the returning statement itself feeds it."""
    fn = extract.find_def(tree, fname)
    has = lambda st: bool(extract.calls_in(st, "_wrap_numbers") + extract.calls_in(st, "wrap_numbers"))
    for st in fn.body:
        if has(st):
            return True
        if any(isinstance(x, ast.Return) for x in ast.walk(st)):
            return False
    return False


def _front_end_facts(tree, fname):
    """→ (name of the system-wide form, empty snapshot fed to wrap_numbers?, name of the per-device form)"""
    per, tot = _wrap_names(tree, fname)
    return tot, _empty_feeds(tree, fname), per


def _clear_names(tree, fname):
    """Names cleared by `<fname>.cache_clear`: `functools.partial(_wrap_numbers.cache_clear, 'N')`, or a
    module-level function whose body is a sequence of `_wrap_numbers.cache_clear('N')` calls. TOTAL: a statement
    of another kind in that function adds the entry "?<source text>", an assignment of another shape gives
    ["?<source text>"], none at all ["?none"] — no known name, so `namesDistinct` / `clearPer` fail."""
    for st in tree.body:
        if isinstance(st, ast.Assign) and len(st.targets) == 1 \
                and extract.dotted(st.targets[0]) == fname + ".cache_clear":
            c = st.value
            if isinstance(c, ast.Call) and extract.dotted(c.func).endswith("partial") and len(c.args) == 2 \
                    and not c.keywords and extract.dotted(c.args[0]).endswith("wrap_numbers.cache_clear") \
                    and isinstance(c.args[1], ast.Constant) and isinstance(c.args[1].value, str):
                return [c.args[1].value]
            if isinstance(c, ast.Name):
                try:
                    fn = extract.find_def(tree, c.id)
                except NotRecognised:
                    return ["?" + c.id]
                names = []
                for b in fn.body:
                    if isinstance(b, ast.Expr) and isinstance(b.value, ast.Constant):
                        continue  # docstring
                    if isinstance(b, ast.Expr) and isinstance(b.value, ast.Call) and len(b.value.args) == 1 \
                            and not b.value.keywords \
                            and extract.dotted(b.value.func) in ("_wrap_numbers.cache_clear",
                                                                 "_common.wrap_numbers.cache_clear") \
                            and isinstance(b.value.args[0], ast.Constant) and isinstance(b.value.args[0].value, str):
                        names.append(b.value.args[0].value)
                    else:
                        names.append("?" + extract.unparse(b)[:60])
                return names or ["?empty"]
            return ["?" + extract.unparse(c)[:60]]
    return ["?none"]


def _clear_name(tree, fname, own):
    names = _clear_names(tree, fname)
    return own if own in names else names[0]


def _linux_filter(init, pslinux):
    """Does the front end forward `perdisk` on Linux and does the Linux layer then skip every device that
    is not a whole disk?"""
    fn = extract.find_def(init, "disk_io_counters")
    forwards = False
    for st in fn.body:
        if isinstance(st, ast.Assign) and extract.dotted(st.targets[0]) == "kwargs" and isinstance(st.value, ast.IfExp) \
                and extract.dotted(st.value.test) == "LINUX" and isinstance(st.value.body, ast.Call) \
                and any(k.arg == "perdisk" and extract.dotted(k.value) == "perdisk" for k in st.value.body.keywords):
            forwards = True
    calls = extract.calls_in(fn, "disk_io_counters")
    plat = [c for c in calls if extract.dotted(c.func) == "_psplatform.disk_io_counters"]
    if len(plat) not in (1, 2):
        # one call, or one per branch of `if nowrap:` (fixes/C10-sample-under-lock)
        return False      # TOTAL: an unknown shape is not "forwards perdisk and filters"; the model then stops filtering and the correspondence tells
    passes = all(any(k.arg is None and extract.dotted(k.value) == "kwargs" for k in c.keywords) for c in plat) and forwards
    explicit = [k for c in plat for k in c.keywords if k.arg == "perdisk"]
    if explicit:
        return False
    lfn = extract.find_def(pslinux, "disk_io_counters")
    skips = False
    for n in ast.walk(lfn):
        if isinstance(n, ast.If) and isinstance(n.test, ast.BoolOp) and isinstance(n.test.op, ast.And) \
                and len(n.test.values) == 2 and all(isinstance(v, ast.UnaryOp) and isinstance(v.op, ast.Not) for v in n.test.values):
            a, b = [extract.dotted(v.operand) for v in n.test.values]
            if {a, b} == {"perdisk", "is_storage_device()"} and any(isinstance(x, ast.Continue) for x in n.body):
                skips = True
    if "perdisk" not in [a.arg for a in lfn.args.args]:
        if passes:
            return False
        return False
    return passes and skips


def _single_with_lock(fn, lock):
    """Is the body of `fn` (after the docstring) exactly one `with <lock>:` statement?"""
    body = [b for b in fn.body if not (isinstance(b, ast.Expr) and isinstance(b.value, ast.Constant))]
    return len(body) == 1 and isinstance(body[0], ast.With) and len(body[0].items) == 1 \
        and extract.dotted(body[0].items[0].context_expr) == lock


def _run_under_lock(common):
    """TOTAL: one `_WrapNumbers()` instance `_wn`, one `threading.Lock()` made in `__init__`, the only `.run(` call is
    `_wn.run` inside the single `with _wn.lock:` of `wrap_numbers`, the helpers are only called from `run`."""
    cls = extract.find_class(common, "_WrapNumbers")
    init = extract.find_def(common, "__init__", cls="_WrapNumbers")
    locks = [st for st in ast.walk(cls) if isinstance(st, ast.Assign)
             and any(extract.dotted(t) == "self.lock" for t in st.targets)]
    if len(locks) != 1 or locks[0] not in init.body or extract.dotted(locks[0].value) != "threading.Lock()":
        return False
    inst = [st for st in common.body if isinstance(st, ast.Assign) and extract.dotted(st.value) == "_WrapNumbers()"]
    if len(inst) != 1 or extract.dotted(inst[0].targets[0]) != "_wn":
        return False
    wfn = extract.find_def(common, "wrap_numbers")
    run_calls = [c for c in ast.walk(common) if isinstance(c, ast.Call) and extract.dotted(c.func).endswith(".run")
                 and extract.dotted(c.func).split(".")[0] in ("_wn", "self", "wrap_numbers")]
    in_with = []
    if _single_with_lock(wfn, "_wn.lock"):
        w = [b for b in wfn.body if isinstance(b, ast.With)][0]
        in_with = [c for c in ast.walk(w) if isinstance(c, ast.Call) and extract.dotted(c.func) == "_wn.run"]
    locked_run = len(run_calls) == 1 and len(in_with) == 1 and run_calls[0] is in_with[0]
    # run() itself and its helpers must not be reachable from elsewhere in the class without the lock
    run_fn = extract.find_def(common, "run", cls="_WrapNumbers")
    for helper in ("_add_dict", "_remove_dead_reminders"):
        users = [c for c in ast.walk(common) if isinstance(c, ast.Call) and extract.dotted(c.func).endswith("." + helper)]
        inside = [c for c in ast.walk(run_fn) if isinstance(c, ast.Call) and extract.dotted(c.func).endswith("." + helper)]
        if len(users) != len(inside):
            locked_run = False
    # the body of run() must not touch the lock itself (seeded C10-4 released it in the middle)
    if any(isinstance(n, ast.Attribute) and n.attr == "lock" for n in ast.walk(run_fn)):
        locked_run = False
    return locked_run


def _clear_under_lock(common):
    """TOTAL, independent of `_run_under_lock`: bodies of cache_clear and cache_info are one `with self.lock:` each"""
    return all(_single_with_lock(extract.find_def(common, m, cls="_WrapNumbers"), "self.lock")
               for m in ("cache_clear", "cache_info"))


def _strict_less(tree):
    fn = extract.find_def(tree, "run", cls="_WrapNumbers")
    found = []
    for n in ast.walk(fn):
        if isinstance(n, ast.If) and isinstance(n.test, ast.Compare) and len(n.test.ops) == 1:
            l, r = extract.dotted(n.test.left), extract.dotted(n.test.comparators[0])
            if {l, r} == {"input_value", "old_value"}:
                op = n.test.ops[0]
                if isinstance(op, ast.Lt) and l == "input_value":
                    found.append(True)
                elif isinstance(op, ast.Gt) and l == "old_value":
                    found.append(True)
                elif isinstance(op, ast.LtE) and l == "input_value":
                    found.append(False)
                elif isinstance(op, ast.GtE) and l == "old_value":
                    found.append(False)
                else:
                    found.append(False)      # TOTAL: any other comparison is not the strict `<` (cfg_good fails)
    if len(found) != 1:
        return False
    return found[0]


def _module_locks(init):
    return {extract.dotted(st.targets[0]) for st in init.body
            if isinstance(st, ast.Assign) and len(st.targets) == 1 and extract.dotted(st.value) == "threading.Lock()"}


def _sample_under_lock_fn(init, fname):
    """TOTAL (never raises for a function that exists): (verdict, lock names used). verdict = every `_wrap_numbers`
    call of front end `fname` sits in the body of a `with <L>:` (L a module-level `threading.Lock()`) under
    `if nowrap:`, its first argument is a variable assigned in the SAME `with` body, before it, from the one call
    of `_psplatform.<fname>` in that body. Hoisting the platform call out of the block, a second `_wrap_numbers`
    call outside it, another lock object, a lock that is not module-level -> False."""
    locks = _module_locks(init)
    fn = extract.find_def(init, fname)
    wraps = extract.calls_in(fn, "_wrap_numbers") + [c for c in extract.calls_in(fn, "wrap_numbers")]
    if not wraps:
        return False, []
    ok_calls, used = [], []
    for iff in ast.walk(fn):
        if not (isinstance(iff, ast.If) and extract.dotted(iff.test) == "nowrap"):
            continue
        for w in iff.body:
            if not (isinstance(w, ast.With) and len(w.items) == 1
                    and extract.dotted(w.items[0].context_expr) in locks):
                continue
            sampled = {}          # variable -> position of its assignment from the platform call
            nplat = len([c for c in ast.walk(w) if isinstance(c, ast.Call)
                         and extract.dotted(c.func) == "_psplatform." + fname])
            for pos, st in enumerate(w.body):
                if isinstance(st, ast.Assign) and len(st.targets) == 1 and isinstance(st.targets[0], ast.Name) \
                        and isinstance(st.value, ast.Call) and extract.dotted(st.value.func) == "_psplatform." + fname:
                    sampled[st.targets[0].id] = pos
                for c in ast.walk(st):
                    if isinstance(c, ast.Call) and any(c is x for x in wraps):
                        a0 = c.args[0] if c.args else None
                        if nplat == 1 and isinstance(a0, ast.Name) and a0.id in sampled and sampled[a0.id] < pos:
                            ok_calls.append(c)
                            used.append(extract.dotted(w.items[0].context_expr))
    return len(ok_calls) == len(wraps), sorted(set(used))


def _sampling_lock_static(init):
    """TOTAL: in both front ends every `_wrap_numbers` call sits inside a `with X:` where X is a plain NAME that the
    module binds exactly once, at top level, to `threading.Lock()`: no other assignment / deletion / `global` /
    `nonlocal` declaration / parameter of that name anywhere in the module. So the lock OBJECT exists before any call
    and `X` always evaluates to it (policy `static` of Model/C10Lock). A call (`with _lock_for(name):`), a subscript
    (`with _locks[name]:`), an attribute, a name that some function rebinds (lazy `global X; if X is None: X = Lock()`)
    -> False (policy `lazy`: which object a caller takes is decided at call time)."""
    def static(x):
        tops = [st for st in init.body if isinstance(st, ast.Assign) and len(st.targets) == 1
                and isinstance(st.targets[0], ast.Name) and st.targets[0].id == x
                and extract.dotted(st.value) == "threading.Lock()"]
        stores = [n for n in ast.walk(init) if isinstance(n, ast.Name) and n.id == x
                  and isinstance(n.ctx, (ast.Store, ast.Del))]
        decl = [n for n in ast.walk(init) if isinstance(n, (ast.Global, ast.Nonlocal)) and x in n.names]
        args = [n for n in ast.walk(init) if isinstance(n, ast.arg) and n.arg == x]
        imps = [n for n in ast.walk(init) if isinstance(n, (ast.Import, ast.ImportFrom))
                and any((a.asname or a.name) == x for a in n.names)]
        return len(tops) == 1 and len(stores) == 1 and not decl and not args and not imps
    for fname in ("disk_io_counters", "net_io_counters"):
        fn = extract.find_def(init, fname)
        wraps = extract.calls_in(fn, "_wrap_numbers") + extract.calls_in(fn, "wrap_numbers")
        if not wraps:
            return False
        withs = [w for w in ast.walk(fn) if isinstance(w, ast.With)]
        for c in wraps:
            encl = [w for w in withs if any(x is c for x in ast.walk(w))]
            names = [it.context_expr.id for w in encl for it in w.items if isinstance(it.context_expr, ast.Name)]
            if not any(static(x) for x in names):
                return False
    return True


# ------------------------------------------------------------------------------ closed world, whole bodies

WRAP_IDS = ("wrap_numbers", "_wrap_numbers")


def _py_files(snap):
    import os
    out = []
    for root, dirs, files in os.walk(snap.pkg):
        dirs.sort()
        for f in sorted(files):
            if f.endswith(".py"):
                out.append(os.path.relpath(os.path.join(root, f), snap.pkg))
    return out


def _enclosing(tree):
    """node -> name of the outermost function/class it sits in ('<module>' at top level), parent map"""
    owner, parent = {}, {}
    for top in tree.body:
        nm = top.name if isinstance(top, (ast.FunctionDef, ast.AsyncFunctionDef, ast.ClassDef)) else "<module>"
        for n in ast.walk(top):
            owner[n] = nm
            for ch in ast.iter_child_nodes(n):
                parent[ch] = n
    return owner, parent


def _world(snap, names):
    """Every reference in psutil/**/*.py to wrap_numbers / _wn / _nowrap_lock / one of the cache-name strings, as
    sorted `file:function:kind` strings (TOTAL: unknown uses get the kind `ref`)."""
    wrap, wn, lock, nm = [], [], [], []
    for rel in _py_files(snap):
        tree = extract.parse_module(snap, rel)
        owner, parent = _enclosing(tree)
        for n in ast.walk(tree):
            where = "%s:%s" % (rel, owner.get(n, "<module>"))
            par = parent.get(n)
            ident = n.id if isinstance(n, ast.Name) else n.attr if isinstance(n, ast.Attribute) else None

            def kind():
                if isinstance(par, ast.Call) and par.func is n:
                    return "call"
                if isinstance(par, ast.Attribute) and par.value is n:
                    gp = parent.get(par)
                    k = par.attr + ("()" if isinstance(gp, ast.Call) and gp.func is par else "")
                    if isinstance(par.ctx, ast.Store):
                        k += "="
                    return k
                if isinstance(par, ast.withitem):
                    return "with"
                if isinstance(par, ast.Assign) and n in par.targets:
                    return "=" + extract.dotted(par.value)
                return "ref"
            if ident in WRAP_IDS:
                wrap.append("%s:%s" % (where, kind()))
            elif ident == "_wn":
                wn.append("%s:%s" % (where, kind()))
            elif ident == "_nowrap_lock":
                lock.append("%s:%s" % (where, kind()))
            elif isinstance(n, ast.ImportFrom) and any(a.name in WRAP_IDS for a in n.names):
                wrap.append("%s:import" % where)
            elif isinstance(n, ast.FunctionDef) and n.name in WRAP_IDS:
                wrap.append("%s:def" % ("%s:%s" % (rel, "<module>" if n in tree.body else owner.get(n))))
            elif isinstance(n, ast.Constant) and isinstance(n.value, str) and n.value in names:
                nm.append("%s:%s" % (where, n.value))
    return sorted(wrap), sorted(wn), sorted(lock), sorted(nm)


def _cache_names(init):
    """the string literals handed to _wrap_numbers / its cache_clear anywhere in psutil/__init__.py (TOTAL)"""
    out = set()
    for c in ast.walk(init):
        if isinstance(c, ast.Call) and extract.dotted(c.func).split(".")[-1] in WRAP_IDS + ("cache_clear", "partial"):
            if extract.dotted(c.func).split(".")[-1] == "cache_clear" and "wrap_numbers" not in extract.dotted(c.func):
                continue
            if extract.dotted(c.func).split(".")[-1] == "partial" and not (
                    c.args and "wrap_numbers" in extract.dotted(c.args[0])):
                continue
            for a in ast.walk(c):
                if isinstance(a, ast.Constant) and isinstance(a.value, str):
                    out.add(a.value)
    return out


def _body_digest(common, meth):
    """sha256[:16] of the AST of `_WrapNumbers.<meth>` without docstrings (comments and layout do not count)"""
    import copy
    import hashlib
    fn = copy.deepcopy(extract.find_def(common, meth, cls="_WrapNumbers"))
    for n in ast.walk(fn):
        if hasattr(n, "body") and isinstance(n.body, list) and n.body and isinstance(n.body[0], ast.Expr) \
                and isinstance(n.body[0].value, ast.Constant) and isinstance(n.body[0].value.value, str):
            n.body = n.body[1:] or [ast.Pass()]
    return hashlib.sha256(ast.dump(fn, annotate_fields=True, include_attributes=False).encode()).hexdigest()[:16]


# ------------------------------------------------------------------------------ /proc/diskstats branch table

YIELD_ORDER = ["reads", "writes", "rbytes", "wbytes", "rtime", "wtime", "reads_merged", "writes_merged", "busy_time"]


def _guard(test):
    """`flen == 14 or flen >= 18` -> [(False, 14), (True, 18)]"""
    parts = test.values if isinstance(test, ast.BoolOp) and isinstance(test.op, ast.Or) else [test]
    out = []
    for p in parts:
        if isinstance(p, ast.Compare) and len(p.ops) == 1 and extract.dotted(p.left) == "flen" \
                and isinstance(p.ops[0], (ast.Eq, ast.GtE)):
            out.append((isinstance(p.ops[0], ast.GtE), int(extract.const(p.comparators[0]))))
        else:
            raise NotRecognised("guard of a diskstats branch: %s" % extract.unparse(test))
    return out


def _slice_start(sub):
    if isinstance(sub, ast.Subscript) and extract.dotted(sub.value) == "fields" and isinstance(sub.slice, ast.Slice):
        lo = 0 if sub.slice.lower is None else int(extract.const(sub.slice.lower))
        hi = None if sub.slice.upper is None else int(extract.const(sub.slice.upper))
        return lo, hi
    raise NotRecognised("not a slice of fields: %s" % extract.unparse(sub))


def _diskstats_layouts(pslinux):
    """The if/elif chain of read_procfs(): per branch (guard, index of the name, index of each yielded counter)."""
    outer = extract.find_def(pslinux, "disk_io_counters")
    rp = [n for n in ast.walk(outer) if isinstance(n, ast.FunctionDef) and n.name == "read_procfs"]
    if len(rp) != 1:
        raise NotRecognised("read_procfs not found once")
    loops = [n for n in ast.walk(rp[0]) if isinstance(n, ast.For)]
    if len(loops) != 1:
        raise NotRecognised("read_procfs: one for loop expected")
    chain = [st for st in loops[0].body if isinstance(st, ast.If)]
    ylds = [n for n in ast.walk(loops[0]) if isinstance(n, ast.Yield)]
    if len(chain) != 1 or len(ylds) != 1 or not isinstance(ylds[0].value, ast.Tuple):
        raise NotRecognised("read_procfs: one if/elif chain and one yield of a tuple expected")
    order = [extract.dotted(e) for e in ylds[0].value.elts]
    if order != ["name"] + YIELD_ORDER:
        raise NotRecognised("read_procfs yields %s" % order)
    table, node = [], chain[0]
    while True:
        env = {}
        for st in node.body:
            if not isinstance(st, ast.Assign):
                raise NotRecognised("statement in a diskstats branch: %s" % extract.unparse(st))
            v = st.value
            for tgt in st.targets:
                if isinstance(tgt, ast.Name):
                    if isinstance(v, ast.Subscript) and extract.dotted(v.value) == "fields" and not isinstance(v.slice, ast.Slice):
                        env[tgt.id] = int(extract.const(v.slice))
                    elif isinstance(v, ast.Call) and extract.dotted(v.func) == "int" and len(v.args) == 1 \
                            and isinstance(v.args[0], ast.Subscript) and extract.dotted(v.args[0].value) == "fields":
                        env[tgt.id] = int(extract.const(v.args[0].slice))
                    elif isinstance(v, ast.Constant) and v.value == 0:
                        env[tgt.id] = None
                    else:
                        raise NotRecognised("assignment in a diskstats branch: %s" % extract.unparse(st))
                elif isinstance(tgt, ast.Tuple) and isinstance(v, ast.Call) and extract.dotted(v.func) == "map" \
                        and len(v.args) == 2 and extract.dotted(v.args[0]) == "int":
                    lo, hi = _slice_start(v.args[1])
                    guard = _guard(node.test)
                    # the unpacking only works when the slice has as many items as targets
                    exact = [n for ge, n in guard if not ge]
                    if hi is None and not (len(exact) == len(guard) and all(n - lo == len(tgt.elts) for n in exact)):
                        raise NotRecognised("open slice unpacked into %d names" % len(tgt.elts))
                    if hi is not None and hi - lo != len(tgt.elts):
                        raise NotRecognised("slice of %d fields unpacked into %d names" % (hi - lo, len(tgt.elts)))
                    for off, e in enumerate(tgt.elts):
                        if extract.dotted(e) != "_":
                            env[extract.dotted(e)] = lo + off
                else:
                    raise NotRecognised("assignment in a diskstats branch: %s" % extract.unparse(st))
        if "name" not in env or any(k not in env for k in YIELD_ORDER):
            raise NotRecognised("a diskstats branch does not set every yielded variable")
        table.append((_guard(node.test), env["name"], [env[k] for k in YIELD_ORDER]))
        if len(node.orelse) == 1 and isinstance(node.orelse[0], ast.If):
            node = node.orelse[0]
            continue
        if not (node.orelse and all(isinstance(x, (ast.Assign, ast.Raise)) for x in node.orelse)
                and any(isinstance(x, ast.Raise) for x in node.orelse)):
            raise NotRecognised("the diskstats chain does not end in `else: raise`")
        return table


def _lean_layouts(tbl):
    return extract.lean_list(tbl, lambda e: "(%s, %d, %s)" % (
        extract.lean_list(e[0], lambda g: "(%s, %d)" % (extract.lean_bool(g[0]), g[1])), e[1],
        extract.lean_list(e[2], lambda c: extract.lean_opt(c, extract.lean_nat))))


def _rk_accumulates(tree):
    """Is the only statement of `run` that touches `reminder_keys` the call
    `self.reminder_keys[name][key].add(remkey)`, sitting next to `self.reminders[name][remkey] += old_value` in the
    body of the wrap test, with `remkey = (key, i)`? False when the set is assigned instead (seeded C10-3)."""
    fn = extract.find_def(tree, "run", cls="_WrapNumbers")
    uses = [n for n in ast.walk(fn) if isinstance(n, ast.Attribute) and n.attr == "reminder_keys"]
    remkeys = [st for st in ast.walk(fn) if isinstance(st, ast.Assign) and len(st.targets) == 1
               and extract.dotted(st.targets[0]) == "remkey"]
    if len(remkeys) != 1 or extract.unparse(remkeys[0].value) != "(key, i)":
        return False          # TOTAL: not the accumulate-only update the dict-level model transcribes (cfg_good_dict fails)
    tests = [n for n in ast.walk(fn) if isinstance(n, ast.If) and isinstance(n.test, ast.Compare)
             and {extract.dotted(n.test.left), extract.dotted(n.test.comparators[0])} == {"input_value", "old_value"}]
    if len(tests) != 1 or tests[0].orelse:
        return False
    body = sorted(extract.unparse(b) for b in tests[0].body)
    want = sorted(["self.reminders[name][remkey] += old_value", "self.reminder_keys[name][key].add(remkey)"])
    # anything else that touches reminder_keys in run() (an assignment as in seeded C10-3, an .add outside the wrap
    # test, a second use) is not the accumulate-only update the dict-level model transcribes
    return body == want and len(uses) == 1


def facts(snap, F):
    init = extract.parse_module(snap, "__init__.py")
    common = extract.parse_module(snap, "_common.py")
    d = {}

    def fe(fname):
        if fname not in d:
            d[fname] = _front_end_facts(init, fname)
        return d[fname]

    def net_name():
        tot, _, per = fe("net_io_counters")
        # the model has ONE slot for net_io_counters: two names are no name it knows
        return tot if tot == per else "?two names: %s / %s" % (per, tot)

    F.try_add("emptyFeedsWrap", "Bool",
              lambda: extract.lean_bool(fe("disk_io_counters")[1] and fe("net_io_counters")[1]),
              "does the front end hand an empty raw dict to wrap_numbers (true) or return before it (false)?")
    F.try_add("diskName", "String", lambda: extract.lean_str(fe("disk_io_counters")[0]),
              "the `name` literal disk_io_counters passes to wrap_numbers (system-wide form, perdisk=False)")
    F.try_add("netName", "String", lambda: extract.lean_str(net_name()),
              "the `name` literal net_io_counters passes to wrap_numbers")
    F.try_add("diskClearName", "String",
              lambda: extract.lean_str(_clear_name(init, "disk_io_counters", fe("disk_io_counters")[0])),
              "the `name` disk_io_counters.cache_clear clears")
    F.try_add("netClearName", "String", lambda: extract.lean_str(_clear_name(init, "net_io_counters", net_name())),
              "the `name` net_io_counters.cache_clear clears")
    F.try_add("wrapIsStrictLess", "Bool", lambda: extract.lean_bool(_strict_less(common)),
              "the comparison that detects a wrap is `input_value < old_value` (strict)")
    F.try_add("diskPerName", "String", lambda: extract.lean_str(fe("disk_io_counters")[2]),
              "the `name` disk_io_counters passes to wrap_numbers when perdisk=True")
    F.try_add("diskClearNames", "List String",
              lambda: extract.lean_list(_clear_names(init, "disk_io_counters"), extract.lean_str),
              "every `name` disk_io_counters.cache_clear clears")
    F.try_add("netClearNames", "List String",
              lambda: extract.lean_list(_clear_names(init, "net_io_counters"), extract.lean_str),
              "every `name` net_io_counters.cache_clear clears")
    F.try_add("linuxSkipsPartitions", "Bool",
              lambda: extract.lean_bool(_linux_filter(init, extract.parse_module(snap, "_pslinux.py"))),
              "disk_io_counters forwards perdisk on LINUX and _pslinux.disk_io_counters(perdisk=False) skips every device that is not is_storage_device()")
    F.try_add("runUnderLock", "Bool", lambda: extract.lean_bool(_run_under_lock(common)),
              "the only call of _WrapNumbers.run is `_wn.run(...)` inside `with _wn.lock:` in wrap_numbers (one instance, one threading.Lock)")
    F.try_add("clearUnderLock", "Bool", lambda: extract.lean_bool(_clear_under_lock(common)),
              "the bodies of _WrapNumbers.cache_clear and cache_info are a single `with self.lock:` block")
    def sul(fname):
        if ("sul", fname) not in d:
            d[("sul", fname)] = _sample_under_lock_fn(init, fname)
        return d[("sul", fname)]
    F.try_add("sampleUnderLockDisk", "Bool", lambda: extract.lean_bool(sul("disk_io_counters")[0]),
              "disk_io_counters: when nowrap, every _wrap_numbers call sits in one `with <module-level threading.Lock()>:` together with the platform call whose result it is given")
    F.try_add("sampleUnderLockNet", "Bool", lambda: extract.lean_bool(sul("net_io_counters")[0]),
              "net_io_counters: the same")
    F.try_add("samplingLocks", "List String",
              lambda: extract.lean_list(sul("disk_io_counters")[1] + sul("net_io_counters")[1], extract.lean_str),
              "the lock objects the two front ends sample under (one shared lock = one sampling order over both functions)")
    F.try_add("samplingLockStatic", "Bool", lambda: extract.lean_bool(_sampling_lock_static(init)),
              "the lock both front ends sample under is named by a plain module-level name bound ONCE, at import time, to threading.Lock() (never rebound, no lookup / creation at call time)")
    F.try_add("rkAccumulates", "Bool", lambda: extract.lean_bool(_rk_accumulates(common)),
              "the only statement of run() touching reminder_keys is `self.reminder_keys[name][key].add(remkey)` next to `self.reminders[name][remkey] += old_value`, remkey = (key, i)")

    def world():
        if "world" not in d:
            d["world"] = _world(snap, _cache_names(init))
        return d["world"]
    strs = lambda l: extract.lean_list(l, extract.lean_str)
    F.try_add("wrapNumbersRefs", "List String", lambda: strs(world()[0]),
              "every reference to wrap_numbers/_wrap_numbers in psutil/**/*.py (file:function:kind)")
    F.try_add("wnRefs", "List String", lambda: strs(world()[1]), "every reference to the instance _wn")
    F.try_add("nowrapLockRefs", "List String", lambda: strs(world()[2]), "every reference to _nowrap_lock")
    F.try_add("cacheNameRefs", "List String", lambda: strs(world()[3]),
              "every string constant equal to one of the cache names (file:function:name)")
    for fact, meth in (("astRun", "run"), ("astRemoveDead", "_remove_dead_reminders"), ("astAddDict", "_add_dict"),
                       ("astCacheClear", "cache_clear")):
        F.try_add(fact, "String", lambda meth=meth: extract.lean_str(_body_digest(common, meth)),
                  "digest of the docstring-free AST of _WrapNumbers.%s (any edit of the body changes it)" % meth)
    F.try_add("diskstatsLayouts", "List (List (Bool × Nat) × Nat × List (Option Nat))",
              lambda: _lean_layouts(_diskstats_layouts(extract.parse_module(snap, "_pslinux.py"))),
              "read_procfs(): per branch of the if/elif chain on the number of fields of a /proc/diskstats line — guard (flen == n: (false, n); flen >= n: (true, n)), index of the name, index of reads, writes, rbytes, wbytes, rtime, wtime, reads_merged, writes_merged, busy_time (none = 0)")


# ------------------------------------------------------------------------------ implementation side


def is_storage(k):
    """scripted `_pslinux.is_storage_device`: partitions are not whole disks"""
    return k not in ("sda1", "nvme0n1p1")


def listing_of(op):
    return [[k, is_storage(k), list(v)] for k, v in op["raw"]]


class Impl:
    """Drives the real front-end functions over scripted kernel listings. The platform functions are replaced
    by scripted ones; the disk one honours `perdisk` the way `_pslinux.disk_io_counters` does (skips every
    device that is not a whole disk when perdisk=False)."""

    def __init__(self, ctx):
        self.ps = ctx.psutil
        self.plat = self.ps._psplatform
        self.next_raw = {"disk": [], "net": []}
        self.tl = None                      # thread-local listings for the concurrent runs
        self.sample_hook = None
        self.orig = (self.plat.disk_io_counters, self.plat.net_io_counters)
        self.render = None                  # lines of the fake /proc/diskstats (family `layouts`)
        self.tmp = None

        def listing(nm):
            if self.tl is not None:
                return self.tl.listing
            return self.next_raw[nm]

        def fake_disk(perdisk=False):
            if self.render is not None:
                # family `layouts`: the REAL Linux platform function over a fake <procfs>/diskstats
                r = self.real_disk(perdisk)
                if self.sample_hook:
                    self.sample_hook("disk", r)
                return r
            r = {k: tuple(v) for k, st, v in listing("disk") if perdisk or st}
            if self.sample_hook:
                self.sample_hook("disk", r)
            return r

        def fake_net():
            r = {k: tuple(v) for k, st, v in listing("net")}
            if self.sample_hook:
                self.sample_hook("net", r)
            return r
        self.plat.disk_io_counters = fake_disk
        self.plat.net_io_counters = fake_net
        self.width = {"disk": len(getattr(self.plat, "sdiskio", self.ps._common.sdiskio)._fields),
                      "net": len(self.ps._common.snetio._fields)}
        self.fn = {"disk": self.ps.disk_io_counters, "net": self.ps.net_io_counters}
        # the `name` strings of the cache slots, as the translator extracted them (the driver prints them)
        self.names = ctx.driver().batch([{"op": "names"}])[0]
        # translator fact: do the front ends take the raw sample under their own lock (fixes/C10-sample-under-lock)?
        self.sample_under_lock = bool(self.names.get("sample_under_lock"))
        # … judged per front end (facts sampleUnderLockDisk / sampleUnderLockNet)
        self.sul = {"disk": bool(self.names.get("sample_under_lock_disk")),
                    "net": bool(self.names.get("sample_under_lock_net"))}

    def real_disk(self, perdisk):
        """`_pslinux.disk_io_counters(perdisk)` itself, reading a fake <procfs>/diskstats rendered from `self.render`
        = [[name, [numeric fields after the name]], …]; `is_storage_device` scripted (partitions are not whole disks)"""
        import os
        import tempfile
        if self.tmp is None:
            self.tmp = tempfile.mkdtemp(prefix="psv-c10-")
        with open(os.path.join(self.tmp, "diskstats"), "w") as f:
            for minor, (nm, fields) in enumerate(self.render):
                f.write("%4d %7d %s %s\n" % (8, minor, nm, " ".join(str(x) for x in fields)))
        old_path, old_isd = self.ps.PROCFS_PATH, self.plat.is_storage_device
        try:
            self.ps.PROCFS_PATH = self.tmp
            self.plat.is_storage_device = is_storage
            return self.orig[0](perdisk=perdisk)
        finally:
            self.ps.PROCFS_PATH, self.plat.is_storage_device = old_path, old_isd

    def close(self):
        self.plat.disk_io_counters, self.plat.net_io_counters = self.orig
        if self.tmp is not None:
            import shutil
            shutil.rmtree(self.tmp, ignore_errors=True)
            self.tmp = None

    def reset(self):
        self.ps._common.wrap_numbers.cache_clear()

    def info(self):
        """`wrap_numbers.cache_info()` in the driver's canonical form (dict order kept, sets sorted)."""
        try:
            t = self.ps._common.wrap_numbers.cache_info()
        except Exception as e:  # noqa: BLE001 - an exception is an observable
            return {"kind": "exc", "exc": type(e).__name__}
        try:
            cache, rems, keys = t
            return {"cache": [[n, [[k, [int(x) for x in v]] for k, v in d.items()]] for n, d in cache.items()],
                    "reminders": [[n, [[k, int(i), int(v)] for (k, i), v in d.items()]] for n, d in rems.items()],
                    "keys": [[n, [[k, sorted([p[0], int(p[1])] for p in ps)] for k, ps in d.items()]]
                             for n, d in keys.items()]}
        except Exception:  # noqa: BLE001 - not (cache, reminders, reminder_keys) of the documented shapes
            return {"kind": "malformed", "repr": repr(t)[:300]}

    def do(self, op):
        """Execute one op; return canonical outcome dict comparable with the driver's."""
        try:
            if op["op"] == "wn":
                # `_common.wrap_numbers(input_dict, name)` itself (family `ragged`: tuple widths the front ends
                # never produce)
                r = self.ps._common.wrap_numbers({k: tuple(v) for k, v in op["raw"]}, self.names[op["name"]])
                return {"kind": "dict", "raw": [[k, [int(x) for x in v]] for k, v in r.items()]}
            if op["op"] == "call":
                self.next_raw[op["name"]] = listing_of(op)
                self.render = op.get("lines")
                kw = {"nowrap": op["nowrap"]}
                kw["perdisk" if op["name"] == "disk" else "pernic"] = not op.get("total", False)
                # the documented defaults are perdisk/pernic=False, nowrap=True: every other call leaves out the
                # arguments that equal them, so that a changed default shows (found by tools/automut.py)
                self.ncalls = getattr(self, "ncalls", 0) + 1
                if self.ncalls % 2 == 0:
                    kw = {k: v for k, v in kw.items() if v != (k == "nowrap")}
                r = self.fn[op["name"]](**kw)
                if r is None:
                    return {"kind": "nil"}
                if isinstance(r, dict):
                    if not r:
                        return {"kind": "none"}
                    return {"kind": "dict", "raw": [[k, [int(x) for x in v]] for k, v in r.items()]}
                return {"kind": "total", "fields": [int(x) for x in r]}
            if op["op"] == "clear":
                self.fn[op["name"]].cache_clear()
                return {"kind": "unit"}
            if op["op"] == "clearall":
                self.ps._common.wrap_numbers.cache_clear()
                return {"kind": "unit"}
            raise ValueError(op)
        except Exception as e:  # every exception is an observable, never a harness crash
            return {"kind": "exc", "exc": type(e).__name__}
        finally:
            self.render = None


def driver_line(op):
    if op["op"] == "wn":
        return {"op": "call", "name": op["name"], "nowrap": True, "raw": op["raw"]}
    if op["op"] == "call":
        return {"op": "fcall", "fn": op["name"], "nowrap": op["nowrap"], "perdev": not op.get("total", False),
                "listing": listing_of(op)}
    if op["op"] == "clear":
        return {"op": "fclear", "fn": op["name"]}
    return {"op": "fclearall"}


def floor_violation(impl_out, floor):
    """first (device, field) whose value is below the lower bound the property statement gives, else None"""
    if impl_out.get("kind") != "dict":
        return None
    got = dict((k, v) for k, v in impl_out["raw"])
    for k, fl in floor:
        v = got.get(k)
        if v is None:
            continue
        for i, (x, y) in enumerate(zip(v, fl)):
            if x < y:
                return [k, i, x, y]
    return None


def wants_info(h, i, every):
    """is `cache_info()` compared after step i of history h? Always after the last step and after slot-level
    (`wn`) steps; otherwise every `every`-th step (1 = all)."""
    return i == len(h) - 1 or i % every == 0 or h[i]["op"] == "wn"


def run_histories(ctx, impl, hists, info_every=None):
    """Return per history the list of (op, impl_out, model_out, spec_out, floor)."""
    lines = []
    info_every = info_every or [1] * len(hists)
    for h, ev in zip(hists, info_every):
        lines.append({"op": "reset"})
        lines.extend(dict(driver_line(o), info=wants_info(h, i, ev)) for i, o in enumerate(h))
    drv = ctx.driver()
    outs = drv.batch(lines)
    res = []
    i = 0
    for h in hists:
        i += 1
        impl.reset()
        rows = []
        for o in h:
            m = outs[i]
            i += 1
            if "bad" in m:
                raise RuntimeError("driver rejected %r: %s" % (o, m))
            out = impl.do(o)
            rows.append(Row((o, out, m["model"], m["spec"], m.get("floor", [])),
                            cmodel=m.get("cmodel"), info_impl=impl.info() if "info" in m else None,
                            info_model=m.get("info"), info_spec=m.get("info_spec")))
        res.append(rows)
    return res, len(lines)


class Row(tuple):
    """(op, impl, model, spec, floor) + what the concrete-dict model and `cache_info()` gave at that step"""

    def __new__(cls, t, **kw):
        self = tuple.__new__(cls, t)
        self.__dict__.update(kw)
        return self


def _norm_info(info):
    """name order of the three dicts = order of first use: not compared (the model keeps a fixed slot order)"""
    if "kind" in info:
        return info
    out = {k: sorted(v) for k, v in info.items()}
    out["keys"] = sorted([n, [[k, sorted(ps)] for k, ps in d]] for n, d in info["keys"])
    return out


def _info_vs_spec(info, spec):
    """None if `cache_info()` shows what the history alone determines (C10_cache_info_reflects), else a reason"""
    if "kind" in info:
        return ("cache_info() raised %s" % info.get("exc") if info["kind"] == "exc" else
                "cache_info() did not return (cache, reminders, reminder_keys) of the documented shapes")
    want_cache = sorted(spec["cache"])
    if sorted(info["cache"]) != want_cache:
        return "cache != newest nowrap=True snapshot per name"
    names = sorted(n for n, _ in want_cache)
    if sorted(n for n, _ in info["reminders"]) != names or sorted(n for n, _ in info["keys"]) != names:
        return "the three dicts do not hold the same names"
    sums = {n: sorted(map(tuple, v)) for n, v in spec["sums"]}
    for n, d in info["reminders"]:
        if sorted((k, i, v) for k, i, v in d if v != 0) != sums[n]:
            return "non-zero reminders of %s != wrap sums of the listed devices' current epochs" % n
    for n, d in info["keys"]:
        got = sorted((k, p[1]) for k, ps in d for p in ps)
        if any(p[0] != k for k, ps in d for p in ps) or got != sorted((k, i) for k, i, _ in sums[n]):
            return "reminder_keys of %s != support of reminders" % n
    return None


def mixes_forms(hist):
    """region of the (fixed, a52899b) finding C10-forms-share-cache: nowrap=True calls of disk_io_counters in both
    forms. Only used to tag disagreements while that finding is listed as *known* in known_findings.json; it is
    listed as fixed now, so nothing is suppressed: a floor violation in this region is a plain VIOLATION."""
    forms = {bool(o.get("total")) for o in hist if o["op"] == "call" and o["name"] == "disk" and o["nowrap"]}
    return len(forms) == 2


# ------------------------------------------------------------------------------ generators

DEVS = {"disk": ["sda", "sda1", "nvme0n1", "dm-0", "loop7"], "net": ["lo", "eth0", "eth0:1", "wlan0", "docker0"]}


def gen_tuple(rng, width, style):
    if style == "small":
        return [rng.randrange(0, 4) for _ in range(width)]
    if style == "big":
        return [rng.choice([0, 1, 2**31 - 1, 2**32 - 1, 2**32, 2**63, 2**64 - 1, rng.randrange(2**64)]) for _ in range(width)]
    return [rng.randrange(0, 1000) for _ in range(width)]


def gen_history(rng, impl, family):
    n_ops = rng.randrange(2, 14) if family != "long" else rng.randrange(14, 40)
    style = rng.choice(["small", "small", "mid", "big"])
    ndev = rng.randrange(1, 5)
    h = []
    present = {nm: set(DEVS[nm][:ndev]) for nm in DEVS}

    def call(nm, nowrap=True, total=None, raw=None):
        if raw is None:
            devs = [d for d in DEVS[nm] if d in present[nm]]
            raw = [[d, gen_tuple(rng, impl.width[nm], style)] for d in devs]
        if total is None:
            total = rng.random() < 0.15
        h.append({"op": "call", "name": nm, "nowrap": nowrap, "raw": raw, "total": total})

    nm0 = rng.choice(["disk", "net"])
    if family == "two_wraps":
        for _ in range(n_ops):
            call(nm0)
    elif family == "reappear":
        call(nm0)
        for _ in range(n_ops):
            d = rng.choice(DEVS[nm0][:ndev])
            if d in present[nm0] and rng.random() < 0.5:
                present[nm0].discard(d)
            else:
                present[nm0].add(d)
            call(nm0)
    elif family == "all_vanish":
        call(nm0)
        for _ in range(n_ops):
            if rng.random() < 0.35:
                call(nm0, raw=[])
            else:
                call(nm0)
    elif family == "clear_between":
        for _ in range(n_ops):
            r = rng.random()
            if r < 0.2:
                h.append({"op": "clear", "name": rng.choice(["disk", "net"])})
            elif r < 0.23:
                h.append({"op": "clearall"})
            else:
                call(nm0 if rng.random() < 0.8 else rng.choice(["disk", "net"]))
    elif family == "alt_nowrap":
        for _ in range(n_ops):
            call(nm0, nowrap=rng.random() < 0.5)
    elif family == "interleaved":
        for _ in range(n_ops):
            call(rng.choice(["disk", "net"]), nowrap=rng.random() < 0.85)
    elif family == "new_device":
        present[nm0] = set(DEVS[nm0][:1])
        for i in range(n_ops):
            if rng.random() < 0.3:
                present[nm0].add(rng.choice(DEVS[nm0]))
            call(nm0)
    elif family == "rename":
        # a device vanishes while another one shows up in the SAME snapshot (NIC rename, disk re-enumeration):
        # the number of devices does not change; later the old name comes back
        pool = [d for d in DEVS[nm0] if is_storage(d)]
        a, b = rng.sample(pool, 2)
        keep = [d for d in pool if d not in (a, b)][:rng.randrange(0, 2)]
        present[nm0] = set(keep) | {a}
        for _ in range(rng.randrange(2, 5)):
            call(nm0, total=False)
        for _ in range(rng.randrange(1, 4)):
            present[nm0] = set(keep) | ({b} if a in present[nm0] else {a})
            for _ in range(rng.randrange(1, 3)):
                call(nm0, total=False)
        present[nm0] = set(keep) | {a, b}
        for _ in range(rng.randrange(2, 4)):
            call(nm0, total=False)
    elif family == "dicts":
        # aimed at the two reminder dicts: different fields of one device wrap in DIFFERENT calls, the device
        # vanishes (alone or with all others) and comes back, then wraps again; per-device form only
        cur = {d: [rng.randrange(50, 200) for _ in range(impl.width[nm0])] for d in DEVS[nm0][:ndev]}
        call(nm0, total=False, raw=[[d, list(v)] for d, v in cur.items()])
        for _ in range(n_ops + 2):
            r = rng.random()
            if r < 0.12:
                call(nm0, total=False, raw=[])
                continue
            listed = [d for d in cur if rng.random() > 0.2] or list(cur)[:1]
            for d in listed:
                v = cur[d]
                for i in rng.sample(range(len(v)), rng.randrange(0, 3)):
                    v[i] = rng.randrange(0, v[i] + 1)          # goes backwards (or stays)
                for i in range(len(v)):
                    if rng.random() < 0.3:
                        v[i] += rng.randrange(0, 5)
            if r > 0.93:
                h.append({"op": "clear", "name": nm0})
            call(nm0, total=False, raw=[[d, list(cur[d])] for d in listed])
    elif family == "ragged":
        # `_common.wrap_numbers` itself with tuple widths that change from call to call (the front ends never
        # produce these): IndexError in the middle of the loop leaves the reminders half updated and the cache old
        keys = ["a", "b", "c"][:rng.randrange(1, 4)]
        slot = rng.choice(["disk", "net", "diskper"])
        for _ in range(n_ops + 2):
            if rng.random() < 0.07:
                h.append({"op": "clearall"})
                continue
            listed = [k for k in keys if rng.random() > 0.2] or keys[:1]
            h.append({"op": "wn", "name": slot, "nowrap": True,
                      "raw": [[k, [rng.randrange(0, 4) for _ in range(rng.randrange(1, 4))]] for k in listed]})
    elif family == "many":
        # many devices (8-16) x full width: more than 64 entries in reminders/reminder_keys after the second call
        # (the defaultdict reads of run() create them), wraps on many of them, a few devices leaving and returning —
        # a size-based eviction of the reminder dicts (audit item 6) shows here
        devs = ["dev%d" % i for i in range(rng.randrange(8, 17))]
        cur = {d_: [rng.randrange(50, 500) for _ in range(impl.width[nm0])] for d_ in devs}
        away = set()
        for step in range(rng.randrange(5, 10)):
            for d_ in devs:
                for i in range(impl.width[nm0]):
                    r = rng.random()
                    if r < 0.25:
                        cur[d_][i] = rng.randrange(0, cur[d_][i] + 1)
                    elif r < 0.6:
                        cur[d_][i] += rng.randrange(0, 50)
            if rng.random() < 0.3:
                d_ = rng.choice(devs)
                (away.discard if d_ in away else away.add)(d_)
            call(nm0, total=rng.random() < 0.2, raw=[[d_, list(cur[d_])] for d_ in devs if d_ not in away])
    elif family == "layouts":
        # the REAL `_pslinux.disk_io_counters` over a fake /proc/diskstats whose lines mix the kernel's layouts:
        # 7 fields (partition line of Linux 2.6.0-2.6.24), 14, 18 (4.18+), 20 (5.5+). The expected raw values are
        # computed here from the kernel's documented field order (not by psutil).
        pool = [("sda", rng.choice([14, 18, 20])), ("sda1", 7), ("nvme0n1", rng.choice([14, 18, 20])),
                ("nvme0n1p1", 7), ("dm-0", rng.choice([14, 18, 20]))]
        rng.shuffle(pool)
        pool = pool[:rng.randrange(2, 6)]
        if not any(f == 7 for _, f in pool):
            pool[0] = ("sda1", 7)
        kf = {d_: [rng.randrange(20, 400) for _ in range(4 if f == 7 else f - 3)] for d_, f in pool}
        gone = set()
        for step in range(rng.randrange(3, 8)):
            for d_, f in pool:
                for i in range(len(kf[d_])):
                    r = rng.random()
                    if r < 0.2:
                        kf[d_][i] = rng.randrange(0, kf[d_][i] + 1)
                    elif r < 0.7:
                        kf[d_][i] += rng.randrange(0, 30)
            if rng.random() < 0.2:
                d_ = rng.choice(pool)[0]
                (gone.discard if d_ in gone else gone.add)(d_)
            lines = [[d_, list(kf[d_])] for d_, f in pool if d_ not in gone]
            h.append({"op": "call", "name": "disk", "nowrap": rng.random() < 0.9, "total": rng.random() < 0.25,
                      "raw": [[d_, kernel_counters(fl)] for d_, fl in lines], "lines": lines})
    elif family == "total":
        # system-wide form only: wraps, devices joining and leaving
        call(nm0, total=True)
        for _ in range(n_ops):
            r = rng.random()
            if r < 0.25:
                d = rng.choice(DEVS[nm0][:ndev + 1])
                (present[nm0].discard if d in present[nm0] else present[nm0].add)(d)
            if r > 0.92:
                call(nm0, raw=[], total=True)
            else:
                call(nm0, total=True, nowrap=rng.random() < 0.9)
    elif family == "forms":
        # both forms of disk_io_counters interleaved while a partition (not a whole disk) stays listed
        present["disk"] = {"sda", "sda1"} | set(DEVS["disk"][:ndev])
        for _ in range(n_ops):
            r = rng.random()
            if r < 0.05:
                h.append({"op": "clear", "name": "disk"})
            else:
                call("disk", total=rng.random() < 0.4, nowrap=rng.random() < 0.9)
    else:  # mixed / long
        for _ in range(n_ops):
            r = rng.random()
            nm = rng.choice(["disk", "net"])
            if r < 0.08:
                h.append({"op": "clear", "name": nm})
            elif r < 0.16:
                call(nm, raw=[])
            else:
                if rng.random() < 0.25:
                    d = rng.choice(DEVS[nm])
                    (present[nm].discard if d in present[nm] else present[nm].add)(d)
                call(nm, nowrap=rng.random() < 0.85)
    return h


def kernel_counters(fields):
    """psutil's nine figures of one /proc/diskstats line from the numeric fields AFTER the device name, by the
    kernel's documentation (iostats.rst): rd_ios rd_merges rd_sectors rd_ticks wr_ios wr_merges wr_sectors wr_ticks
    in_flight io_ticks time_in_queue [+4 discard fields since 4.18] [+2 flush fields since 5.5]; a partition line of
    2.6.0-2.6.24 has rd_ios rd_sectors wr_ios wr_sectors only. Sectors are 512 bytes."""
    f = fields
    if len(f) == 4:
        return [f[0], f[2], f[1] * 512, f[3] * 512, 0, 0, 0, 0, 0]
    return [f[0], f[4], f[2] * 512, f[6] * 512, f[3], f[7], f[1], f[5], f[9]]


FAMILIES = ["two_wraps", "reappear", "all_vanish", "clear_between", "alt_nowrap", "interleaved",
            "new_device", "mixed", "long", "total", "forms", "rename", "dicts", "ragged", "many", "layouts"]


def history_features(h):
    """Which clauses of the property a history exercises (for the non-triviality rule)."""
    feats = set()
    last = {}
    seen_keys = {}
    for o in h:
        if o["op"] == "call":
            nm = o["name"]
            if not o["nowrap"]:
                feats.add("nowrap_false")
                continue
            cur = {k: v for k, v in o["raw"]}
            prev = last.get(nm)
            if prev is not None:
                for k, v in cur.items():
                    if k in prev and any(a < b for a, b in zip(v, prev[k])):
                        feats.add("wrap")
                    if k not in prev and k in seen_keys.get(nm, set()):
                        feats.add("reappear")
                if set(prev) - set(cur):
                    feats.add("vanish")
                if not cur:
                    feats.add("empty")
            seen_keys.setdefault(nm, set()).update(cur)
            last[nm] = cur
            if o.get("total"):
                feats.add("total")
                if prev is not None and set(prev) - set(cur):
                    feats.add("total_after_vanish")
        elif o["op"] in ("clear", "clearall"):
            feats.add("clear")
            if o["op"] == "clearall":
                last.clear()
                seen_keys.clear()
            else:
                last.pop(o["name"], None)
                seen_keys.pop(o["name"], None)
    if len({o.get("name") for o in h if o["op"] == "call"}) > 1:
        feats.add("two_functions")
    if mixes_forms(h):
        feats.add("both_forms_of_disk")
    return feats


def exhaustive_histories(impl, maxlen):
    w = impl.width["disk"]

    def t(v):
        return [v] + [7] * (w - 1)
    alphabet = [{"op": "call", "name": "disk", "nowrap": True, "raw": [["sda", t(v)]], "total": False} for v in (0, 1, 2)]
    alphabet.append({"op": "call", "name": "disk", "nowrap": True, "raw": [], "total": False})
    alphabet.append({"op": "clear", "name": "disk"})
    alphabet += [{"op": "call", "name": "disk", "nowrap": False, "raw": [["sda", t(v)]], "total": False} for v in (0, 2)]
    alphabet.append({"op": "call", "name": "disk", "nowrap": True, "raw": [["sda", t(1)]], "total": True})
    for n in range(1, maxlen + 1):
        for combo in itertools.product(alphabet, repeat=n):
            yield list(combo)


# ------------------------------------------------------------------------------ correspondence


def first_bad(rows):
    """(index, kind, detail) of the first step that disagrees: 'spec' (≠ history-defined specification),
    'floor' (a device that stayed listed went backwards: the property statement itself), 'model'."""
    for i, row in enumerate(rows):
        o, im, mo, sp, floor = row
        has_info = row.info_model is not None
        if o["op"] == "wn":
            # widths outside the property's statement: only the concrete-dict model speaks about them
            if im != row.cmodel or _norm_info(row.info_impl) != _norm_info(row.info_model):
                return i, "model", None
            continue
        if im != sp:
            return i, "spec", None
        fv = floor_violation(im, floor)
        if fv is not None:
            return i, "floor", fv
        why = _info_vs_spec(row.info_impl, row.info_spec) if has_info and row.info_spec is not None else None
        if why is not None:
            return i, "info", why
        if im != mo or im != row.cmodel or (has_info and _norm_info(row.info_impl) != _norm_info(row.info_model)):
            return i, "model", None
    return None


def compare(ctx, rows, res, source):
    """Record disagreements of one executed history; return True if any."""
    hist = [r[0] for r in rows]
    bad = first_bad(rows)
    if bad is None:
        return False
    i, kind, detail = bad
    o, im, mo, sp, floor = rows[i]
    inp = {"history": hist[:i + 1], "source": source}
    if kind == "spec":
        res.disagree("spec", inp, im, mo, sp,
                     note="step %d: implementation differs from the history-defined specification" % i)
    elif kind == "floor":
        known = any(f.get("id") == FINDING_FORMS for f in ctx.findings) and mixes_forms(hist[:i + 1])
        if known:
            res.known_seen[FINDING_FORMS] = res.known_seen.get(FINDING_FORMS, 0) + 1
        res.disagree("spec", inp, im, mo, {"kind": "at-least", "raw": floor},
                     note="step %d: device %s stayed listed by the kernel, yet field %d went from %d down to %d "
                          "between two per-device nowrap=True calls" % (i, detail[0], detail[1], detail[3], detail[2]),
                     finding=FINDING_FORMS if known else None)
    elif kind == "info":
        res.disagree("spec", inp, rows[i].info_impl, rows[i].info_model, rows[i].info_spec,
                     note="step %d: cache_info() after the step: %s" % (i, detail))
    else:
        row = rows[i]
        if im == mo == row.cmodel:
            res.disagree("model", inp, row.info_impl, row.info_model, row.info_spec,
                         note="step %d: cache_info() differs from the concrete-dict Lean model" % i)
        else:
            res.disagree("model", inp, im, {"abstract": mo, "dicts": row.cmodel}, sp,
                         note="step %d: implementation differs from the Lean model" % i)
    return True


def corpus_histories(w):
    def c(nm, raw, total=False, nowrap=True):
        return {"op": "call", "name": nm, "nowrap": nowrap, "raw": [[k, [v] * w[nm]] for k, v in raw], "total": total}
    def c2(nm, raw):
        return {"op": "call", "name": nm, "nowrap": True, "total": False,
                "raw": [[k, list(v) + [7] * (w[nm] - len(v))] for k, v in raw]}
    return [
        # C10_reminder_keys_overwrite_counterexample: two fields wrap in two different calls, the device goes
        # away and comes back: nothing of the old reminders may survive (seeded C10-3)
        [c2("disk", [("a", [100, 100])]), c2("disk", [("a", [10, 100])]), c2("disk", [("a", [10, 10])]),
         c2("disk", []), c2("disk", [("a", [5, 5])]), c2("disk", [("a", [5, 5])])],
        [c2("net", [("a", [100, 100]), ("b", [1, 1])]), c2("net", [("a", [10, 100]), ("b", [1, 1])]),
         c2("net", [("a", [10, 10]), ("b", [1, 1])]), c2("net", [("b", [1, 1])]),
         c2("net", [("a", [5, 5]), ("b", [1, 1])]), c2("net", [("a", [5, 5]), ("b", [0, 1])])],
        # the lead L10 witness and a double wrap
        [c("disk", [("sda", 100)]), c("disk", []), c("disk", [("sda", 5)])],
        [c("disk", [("sda", 100)]), c("disk", [("sda", 10)]), c("disk", [("sda", 5)], total=True)],
        # C10_total_drops_when_device_vanishes: the system-wide figure goes down when a device leaves / comes back
        [c("net", [("a", 100), ("b", 50)], total=True), c("net", [("a", 100)], total=True)],
        [c("net", [("a", 100)], total=True), c("net", [("a", 10)], total=True), c("net", [], total=True),
         c("net", [("a", 20)], total=True)],
        # total = Σ of adjusted per-device values, new device joining
        [c("net", [("lo", 7), ("eth0", 900)], total=True), c("net", [("lo", 3), ("eth0", 20)], total=True),
         c("net", [("lo", 4), ("eth0", 21), ("wlan0", 5)], total=True)],
        # a device replaced by another one in the same snapshot, then back: it must start afresh
        [c("net", [("eth0", 100)]), c("net", [("eth0", 10)]), c("net", [("wan0", 5)]),
         c("net", [("wan0", 6), ("eth0", 3)]), c("net", [("wan0", 7), ("eth0", 4)])],
        # C10_forms_share_history_counterexample (both forms of disk_io_counters, partition stays listed)
        [c("disk", [("sda", 100), ("sda1", 100)]), c("disk", [("sda", 10), ("sda1", 10)]),
         c("disk", [("sda", 11), ("sda1", 11)], total=True), c("disk", [("sda", 12), ("sda1", 12)])],
    ]


def correspond(ctx, res, preempt=True):
    # regression of C10-forms-share-cache through the REAL Linux platform layer (before the platform functions
    # are replaced by scripted ones)
    wit = {"id": FINDING_FORMS, "witness": {"calls": [[100, True], [10, True], [11, False], [12, True]]}}
    if check_finding(ctx, wit) == "reproduces":
        res.disagree("spec", {"real_platform_calls": wit["witness"]["calls"],
                              "how": "fake <procfs>/diskstats with sda + sda1, all counters = value; [value, perdisk]"},
                     "sda1 went backwards between two perdisk=True calls", None, "non-decreasing",
                     note="a system-wide disk_io_counters() call between two perdisk=True calls dropped the wrap history of a partition that stayed listed")
    res.case(("real-platform-forms", wit["witness"]["calls"]), nontrivial=True)
    res.count("family:real_platform_forms")
    impl = Impl(ctx)
    try:
        res.rule = ("histories of public calls (both functions, per-device and system-wide form, nowrap True/False) "
                    "and cache_clears from 14 clause-directed families (PRNG from VERIF_SEED) plus an exhaustive "
                    "sweep of all short histories over one device, plus real threads replayed through the Lean "
                    "lock model, plus pre-emption schedules of 2-3 threads from a cold process (c10_preempt: every "
                    "two-pre-emption schedule of the first two calls, samples of the other programs); non-trivial = "
                    "the history contains a wrap, a vanish/reappear, an empty snapshot or a cache_clear, or the "
                    "schedule hands the baton over at least once; distinct = distinct op sequences / plans")
        hists, tags = [], []
        for h in corpus_histories(impl.width):
            hists.append(h)
            tags.append("corpus")
        n = ctx.n(720, 24000)
        for i in range(n):
            fam = FAMILIES[i % len(FAMILIES)]
            hists.append(gen_history(ctx.rng, impl, fam))
            tags.append(fam)
        maxlen = 3 if ctx.tier == "quick" else 5
        n_rand = len(hists)
        for h in exhaustive_histories(impl, maxlen):
            hists.append(h)
            tags.append("exhaustive")
        total_lines = 0
        CH = 4000
        for a in range(0, len(hists), CH):
            chunk = hists[a:a + CH]
            always = INFO_ALWAYS if ctx.tier == "quick" else tuple(t for t in INFO_ALWAYS if t != "exhaustive")
            results, nl = run_histories(ctx, impl, chunk, [1 if tags[a + j] in always else 4
                                                           for j in range(len(chunk))])
            total_lines += nl
            for j, rows in enumerate(results):
                tag = tags[a + j]
                h = chunk[j]
                feats = history_features(h)
                res.count("family:" + tag)
                for f in feats:
                    res.count("feature:" + f)
                res.count("ops", len(h))
                res.count("calls:system-wide", sum(1 for o in h if o["op"] == "call" and o.get("total")))
                res.count("calls:per-device", sum(1 for o in h if o["op"] == "call" and not o.get("total")))
                res.count("floor-checked devices", sum(len(r[4]) for r in rows))
                res.count("cache_info() compared (steps)", sum(1 for r in rows if r.info_model is not None))
                res.case(h, nontrivial=bool(feats & {"wrap", "vanish", "reappear", "empty", "clear"}),
                         sample={"family": tag, "history": h, "impl_last": rows[-1][1]} if (a + j) in (1, 2, 3, 5, 9) else None)
                compare(ctx, rows, res, tag)
        res.exhaustive = ("all %d histories of length <= %d over the alphabet {call(sda=0|1|2), call({}), clear, "
                          "call(nowrap=False, 0|2), system-wide call(sda=1)}; the random families are samples"
                          % (len(hists) - n_rand, maxlen))
        res.extra["driver_lines"] = total_lines
        # real threads: outputs must equal the Lean lock model replaying the observed schedule, and the serial
        # specification in lock order
        check_lines(ctx, impl, res, [h for h, t in zip(hists, tags) if t == "layouts"])
        conc = concurrent(ctx, impl, res, ctx.n(8, 200))
        res.extra["concurrent_runs"] = conc
        # the two forced two-thread schedules, for BOTH front ends and both forms (each front end has its own
        # `with _nowrap_lock:` block; facts sampleUnderLockDisk / sampleUnderLockNet)
        for fn, perdev in CONC_TARGETS:
            overtake(ctx, impl, res, fn, perdev)
            hold_release(ctx, impl, res, fn, perdev)
        alias_first_call(ctx, impl, res)
    finally:
        impl.close()
    # cold process, every lock psutil creates made cooperative, thread switches at every line of the front ends
    # (model-independent; see c10_preempt.py)
    if preempt:
        res.extra["preempt_schedules"] = c10_preempt.explore(ctx, res)


CONC_TARGETS = (("net", True), ("net", False), ("disk", True), ("disk", False))


def check_lines(ctx, impl, res, hists):
    """Every distinct /proc/diskstats line of the `layouts` histories: the extracted branch table applied by the
    Lean model (`countersOf layouts`), the kernel's documented layout (`Spec.kernelCounters`) and the harness's own
    reading (`kernel_counters`) must agree; plus one line of each length 1..22 (unknown lengths: ValueError)."""
    seen, lines = set(), []
    for h in hists:
        for o in h:
            for nm, fields in o.get("lines", []):
                key = tuple(fields)
                if key not in seen:
                    seen.add(key)
                    lines.append(list(fields))
    lines = lines[:ctx.n(150, 3000)]
    probes = [[i + 1 for i in range(n)] for n in range(0, 20)]
    outs = ctx.driver().batch([{"op": "diskline", "vals": [8, 0, 0] + f} for f in lines + probes])
    for f, m in zip(lines + probes, outs):
        flen = len(f) + 3
        known = flen in (7, 14, 18, 20)
        want = {"kind": "line", "name_idx": 2, "counters": kernel_counters(f)} if known else None
        if known and m["spec"] != want:
            raise RuntimeError("C10 harness and Spec.kernelCounters disagree on %r: %r / %r" % (f, want, m["spec"]))
        if (known and m["model"] != want) or (not known and flen < 18 and flen != 15 and m["model"].get("kind") != "exc"):
            res.disagree("model", {"diskstats_fields_after_name": f}, None, m["model"], m["spec"],
                         note="the branch table extracted from read_procfs() reads a %d-field /proc/diskstats line "
                              "differently from the kernel's documented layout" % flen)
        res.count("diskstats lines compared (branch table / kernel layout)")
        res.count("diskstats line length:%d" % flen)


def alias_first_call(ctx, impl, res):
    """CHARACTERISATION, outside the statement (recorded, never a disagreement): on the first `nowrap=True` call
    `run()` caches the very dict it returns, and the per-device form hands that object to the caller. A caller that
    MUTATES the returned dict therefore edits the cache: after `d.pop('lo')` the next call sees `lo` as new and
    reports it raw (100 -> 10 although it stayed present). The model has value semantics; see TRUSTED."""
    impl.reset()
    w = impl.width["net"]
    obs = {}
    try:
        impl.next_raw["net"] = [["lo", True, [100] * w], ["eth0", True, [100] * w]]
        d = impl.ps.net_io_counters(pernic=True, nowrap=True)
        cache = impl.ps._common.wrap_numbers.cache_info()[0]
        obs["first_result_is_the_cached_dict"] = any(d is v for v in cache.values())
        d.pop("lo")
        impl.next_raw["net"] = [["lo", True, [10] * w], ["eth0", True, [10] * w]]
        r = impl.ps.net_io_counters(pernic=True, nowrap=True)
        obs["after_caller_popped_lo"] = {k: int(v[0]) for k, v in r.items()}
        obs["untouched_would_be"] = {"lo": 110, "eth0": 110}
    except Exception as e:  # noqa: BLE001 - an exception is an observable
        obs["exc"] = type(e).__name__
    finally:
        impl.reset()
    res.extra["aliasing_of_first_result (outside the statement)"] = obs
    res.count("family:alias_first_call (characterisation)")


class LoggingLock:
    """Stands in for `_wn.lock`: same mutual exclusion (it wraps the real lock), but logs who got it."""

    def __init__(self, real, events, after_release=None):
        self.real = real
        self.events = events
        self.after_release = after_release      # called (outside the lock) right after every release

    def __enter__(self):
        self.real.acquire()
        self.events.append(("acquire", threading.get_ident()))
        time.sleep(0.0003)          # hold the lock across a thread switch: the others really wait for it
        return self

    def __exit__(self, *a):
        self.events.append(("release", threading.get_ident()))
        self.real.release()
        if self.after_release:
            self.after_release()
        return False

    def acquire(self, *a, **k):
        r = self.real.acquire(*a, **k)
        if r:
            self.events.append(("acquire", threading.get_ident()))
        return r

    def release(self):
        self.events.append(("release", threading.get_ident()))
        self.real.release()
        if self.after_release:
            self.after_release()


def concurrent(ctx, impl, res, runs):
    """2-3 real threads call the front end (and cache_clear) at once. `_wn.lock` is wrapped to log the lock
    order, the scripted platform function logs when each raw sample is taken (outside the lock). The observed
    event sequence is turned into a schedule of the Lean small-step model (sample / acquire / load / store /
    release); the model must accept it, and every thread's return values must be the ones the model and the
    serial specification in lock order give."""
    wn = impl.ps._common._wn
    real_lock = wn.lock
    done = 0
    for r in range(runs):
        impl.reset()
        events = []
        nthreads = 2 + (r % 2)
        plans = {}
        for t in range(nthreads):
            plan = []
            for _ in range(ctx.rng.randrange(3, 8)):
                if t == 2 and ctx.rng.random() < 0.5:
                    plan.append(("clear", None))
                else:
                    plan.append(("call", [["sda", True, gen_tuple(ctx.rng, impl.width["disk"], "small")]]))
            plans[t] = plan
        tl = threading.local()
        impl.tl = tl
        def hook(nm, raw):
            events.append(("sample", threading.get_ident(), [[k, list(v)] for k, v in raw.items()]))
            time.sleep(0.0002)      # sampled, not yet at the lock: lets another thread overtake
        impl.sample_hook = hook
        wn.lock = LoggingLock(real_lock, events)
        outs = {}
        tid_of = {}
        try:
            barrier = threading.Barrier(nthreads)

            def work(t):
                res_t = []
                tid_of[threading.get_ident()] = t
                barrier.wait()
                for kind, listing in plans[t]:
                    try:
                        if kind == "clear":
                            events.append(("wantclear", threading.get_ident()))
                            impl.ps.disk_io_counters.cache_clear()
                            res_t.append({"kind": "unit"})
                        else:
                            tl.listing = listing
                            rr = impl.ps.disk_io_counters(perdisk=True, nowrap=True)
                            res_t.append({"kind": "dict", "raw": [[k, [int(x) for x in v]] for k, v in rr.items()]})
                    except Exception as e:
                        res_t.append({"kind": "exc", "exc": type(e).__name__})
                outs[t] = res_t
            ths = [threading.Thread(target=work, args=(t,)) for t in range(nthreads)]
            for th in ths:
                th.start()
            for th in ths:
                th.join()
        finally:
            wn.lock = real_lock
            impl.tl = None
            impl.sample_hook = None
        # observed events -> schedule of the Lean model. The body (load, store) runs between acquire and release.
        acts = []
        slot = None
        for ev in list(events):
            t = tid_of[ev[1]]
            if ev[0] == "sample":
                acts.append({"a": "sample", "t": t, "name": "SLOT", "raw": ev[2]})
            elif ev[0] == "wantclear":
                acts.append({"a": "wantclear", "t": t, "name": "disk"})
            elif ev[0] == "acquire":
                acts += [{"a": "acquire", "t": t}, {"a": "load", "t": t}]
            else:
                acts += [{"a": "store", "t": t}, {"a": "release", "t": t}]
        # which slot the per-disk form uses is a translator fact: ask the driver
        probe = ctx.driver().batch([{"op": "reset"}, {"op": "fcall", "fn": "disk", "nowrap": True, "perdev": True,
                                                      "listing": [["sda", True, [0] * impl.width["disk"]]]}])[1]
        slot = probe["slot"]
        clear_both = None
        for a in acts:
            if a.get("name") == "SLOT":
                a["name"] = slot
        if slot != "disk":
            # disk_io_counters.cache_clear() takes the lock once per name it clears: first "disk", then "diskper"
            seen = {}
            k = 0
            for a in acts:
                if a["a"] == "wantclear":
                    seen[a["t"]] = 0
            fixed = []
            pending = {}
            for a in acts:
                if a["a"] == "wantclear":
                    pending[a["t"]] = ["disk", "diskper"]
                    continue
                if a["a"] == "acquire" and pending.get(a["t"]):
                    fixed.append({"a": "wantclear", "t": a["t"], "name": pending[a["t"]].pop(0)})
                fixed.append(a)
            acts = fixed
        m = ctx.driver().batch([{"op": "reset"}, {"op": "sched", "acts": acts}])[1]
        hist = {"concurrent_schedule": acts, "plans": {str(t): plans[t] for t in plans}}
        model = m["model"]
        if model.get("kind") != "sched" or not model.get("lock_free"):
            res.disagree("model", hist, outs, model, None,
                         note="the observed thread schedule is not a run of the Lean lock model (a body ran without the lock, or out of order)")
        else:
            for key, what in (("outs", "model"), ("spec", "spec")):
                seq = m["spec"] if key == "spec" else model["outs"]
                per_thread = {}
                for t, o in seq:
                    per_thread.setdefault(t, []).append(o)
                for t, got in outs.items():
                    # a cache_clear of two names shows up as two bodies in the model, one return value in Python
                    want = per_thread.get(t, [])
                    if slot != "disk":
                        want2, skip = [], False
                        for o in want:
                            if o.get("kind") == "unit":
                                if skip:
                                    skip = False
                                    continue
                                skip = True
                            want2.append(o)
                        want = want2
                    if got != want:
                        res.disagree(what, hist, got, model["outs"], m["spec"],
                                     note="thread %d: return values differ from the %s executed serially in lock order" % (
                                         t, "history-defined specification" if what == "spec" else "Lean lock model"))
                        break
            if model["outs"] != model["serial"]:
                res.disagree("model", hist, outs, model, None, note="lock model: outs differ from its own serial execution")
            if not model.get("in_sampling_order", True):
                # C10_concurrent_Full, first part: the calls must take `_wn.lock` in the order they read the kernel
                known = any(f.get("id") == FINDING_SAMPLE for f in ctx.findings) and not impl.sample_under_lock
                if known:
                    res.known_seen[FINDING_SAMPLE] = res.known_seen.get(FINDING_SAMPLE, 0) + 1
                res.count("concurrent:runs with a call overtaken between sample and lock")
                res.disagree("spec", hist, outs, model, m["spec"],
                             note="a call was overtaken between its platform call and wrap_numbers: the calls went through "
                                  "the lock in an order different from the one in which they read the kernel's counters",
                             finding=FINDING_SAMPLE if known else None)
        order = model.get("order", [])
        res.case(("conc", acts), nontrivial=len(set(order)) > 1)
        res.count("family:concurrent")
        res.count("concurrent:bodies", len(order))
        res.count("concurrent:lock handovers between threads", sum(1 for x, y in zip(order, order[1:]) if x != y))
        done += 1
    return done


def _body(t):
    return [{"a": "acquire", "t": t}, {"a": "load", "t": t}, {"a": "store", "t": t}, {"a": "release", "t": t}]


def _per_thread(seq):
    want = {}
    for t, o in seq or []:
        want.setdefault(t, []).append(o)
    return want


CONC_DEV = {"net": "eth0", "disk": "sda"}      # `sda` is a whole disk: handed over by both forms


def _conc_call(impl, tl, outs, t, fn, perdev, v):
    """one public call of thread t listing the single device CONC_DEV[fn] with all counters = v; the system-wide
    form's tuple is that device's tuple (one device), recorded in the same dict form"""
    dev, w = CONC_DEV[fn], impl.width[fn]
    tl.listing = [[dev, True, [v] * w]]
    try:
        r = impl.fn[fn](**{"nowrap": True, ("perdisk" if fn == "disk" else "pernic"): perdev})
        if perdev:
            outs[t].append({"kind": "dict", "raw": [[k, [int(x) for x in vv]] for k, vv in r.items()]})
        else:
            outs[t].append({"kind": "dict", "raw": [[dev, [int(x) for x in r]]]})
    except Exception as e:  # noqa: BLE001 - an exception is an observable
        outs[t].append({"kind": "exc", "exc": type(e).__name__})


def conc_slot(ctx, impl, fn, perdev):
    """which cache slot this form of this function uses is a translator fact: ask the driver"""
    return ctx.driver().batch([{"op": "reset"}, {"op": "fcall", "fn": fn, "nowrap": True, "perdev": perdev,
                                                 "listing": [[CONC_DEV[fn], True, [0] * impl.width[fn]]]}])[1]["slot"]


def run_overtake(impl, fn="net", perdev=True):
    """Two REAL threads, deterministically: thread 0 is held right after its platform call (sample 100) until thread 1
    (sample 105) has returned from the public function, goes on, and calls once more (110). Returns (per-thread
    results, blocked) — blocked = thread 1 could not finish while thread 0 was held, i.e. the sample is taken under a
    lock."""
    impl.reset()
    tl = threading.local()
    impl.tl = tl
    sampled0, done1 = threading.Event(), threading.Event()
    state = {"held": False, "blocked": False}

    def hook(nm, raw):
        if threading.current_thread().name == "c10-t0" and not state["held"]:
            state["held"] = True
            sampled0.set()
            if not done1.wait(0.6):
                state["blocked"] = True
    impl.sample_hook = hook
    outs = {0: [], 1: []}

    def t0():
        _conc_call(impl, tl, outs, 0, fn, perdev, 100)
        done1.wait(5)       # (when the sample is under a lock thread 1 only gets through now)
        _conc_call(impl, tl, outs, 0, fn, perdev, 110)

    def t1():
        sampled0.wait(5)
        _conc_call(impl, tl, outs, 1, fn, perdev, 105)
        done1.set()
    try:
        ths = [threading.Thread(target=t0, name="c10-t0"), threading.Thread(target=t1, name="c10-t1")]
        for th in ths:
            th.start()
        for th in ths:
            th.join(20)
    finally:
        impl.tl = None
        impl.sample_hook = None
        impl.reset()
    return outs, state["blocked"]


def overtake_schedules(impl, fn="net", slot="net"):
    w = impl.width[fn]
    smp = lambda t, v: {"a": "sample", "t": t, "name": slot, "raw": [[CONC_DEV[fn], [v] * w]]}
    overtaken = [smp(0, 100), smp(1, 105)] + _body(1) + _body(0) + [smp(0, 110)] + _body(0)
    in_order = [smp(0, 100)] + _body(0) + [smp(1, 105)] + _body(1) + [smp(0, 110)] + _body(0)
    return overtaken, in_order


def overtake(ctx, impl, res, fn="net", perdev=True):
    """C10_lock_order_is_not_sampling_order / C10_concurrent_full_strength on two real threads (see run_overtake),
    for front end `fn` in the form `perdev`. What the property promises: the values over the kernel snapshots IN
    SAMPLING ORDER (100, 105, 110: nothing went backwards, so 100 / 105 / 110). A front end that samples outside
    the lock returns 205 and 215 to thread 0: a failing input. The result must in any case be the one of the Lean
    lock model for the schedule that was forced."""
    outs, blocked = run_overtake(impl, fn, perdev)
    slot = conc_slot(ctx, impl, fn, perdev)
    overtaken, in_order = overtake_schedules(impl, fn, slot)
    drv = ctx.driver()
    m_over = drv.batch([{"op": "reset"}, {"op": "sched", "acts": overtaken}])[1]
    m_ord = ctx.driver().batch([{"op": "reset"}, {"op": "sched", "acts": in_order}])[1]
    spec = {t: v for t, v in _per_thread(m_ord["spec"]).items()}           # what the property promises
    hist = {"scenario": "overtake", "fn": fn, "perdev": perdev,
            "concurrent_schedule": overtaken if not blocked else in_order,
            "how": "%s_io_counters(%s=%s): thread 0 held between its platform call (100) and wrap_numbers until "
                   "thread 1 (105) has returned; then thread 0 calls again (110)"
                   % (fn, "perdisk" if fn == "disk" else "pernic", perdev)}
    known = any(f.get("id") == FINDING_SAMPLE for f in ctx.findings)
    bad = {t: outs.get(t) for t in (0, 1)} != {t: spec.get(t, []) for t in (0, 1)}
    if bad:
        if not impl.sul[fn] and known:
            res.known_seen[FINDING_SAMPLE] = res.known_seen.get(FINDING_SAMPLE, 0) + 1
        res.disagree("spec", hist, outs, m_over["model"], m_ord["spec"],
                     note="the kernel counter read 100, 105, 110 (never backwards) but the caller of %s_io_counters that "
                          "was overtaken between its platform call and wrap_numbers got %s: lock order is not sampling order"
                          % (fn, [o.get("raw", o) for o in outs.get(0, [])]),
                     finding=FINDING_SAMPLE if (known and not impl.sul[fn]) else None)
    # model ↔ code: the forced schedule must be a run of the lock model with these results
    if impl.sul[fn] != blocked:
        res.disagree("model", hist, outs, m_over["model"], m_ord["spec"],
                     note="translator fact sampleUnderLock%s = %s, but thread 1 %s finish while thread 0 was held after "
                          "its platform call" % (fn.capitalize(), impl.sul[fn], "could not" if blocked else "could"))
    elif impl.sample_under_lock == blocked:
        # (when only ONE front end samples under the lock the lock model, which has one flag for both, is the
        # model of neither schedule: the obligation cfg_sample_under_lock has failed and the other front end's run
        # is the failing input)
        model = (m_ord if blocked else m_over)["model"]
        if model.get("kind") != "sched" or {t: outs.get(t) for t in (0, 1)} != {
                t: _per_thread(model.get("outs")).get(t, []) for t in (0, 1)}:
            res.disagree("model", hist, outs, model, m_ord["spec"],
                         note="overtaking between platform call and wrap_numbers: real threads differ from the Lean lock model")
    res.case(("conc-overtake", fn, perdev, hist["concurrent_schedule"]), nontrivial=True)
    res.count("family:concurrent_overtake")
    res.count("family:concurrent_overtake:%s:%s" % (fn, "per-device" if perdev else "system-wide"))
    res.extra.setdefault("overtake", {})["%s/%s" % (fn, "per-device" if perdev else "system-wide")] = {
        "thread0": outs[0], "thread1": outs[1], "thread1_blocked_while_thread0_held": blocked, "promised": spec}


def run_hold_release(impl, fn="net", perdev=True):
    """Two REAL threads, deterministically: thread 0 calls (100), calls again (10) and is held right AFTER the first
    release of `_wn.lock` inside that second call until thread 1's call (5) has returned. With the whole body of
    run() under the lock that release is the end of the body and nothing changes (100, 110 / 115). A body that gives
    the lock back early (seeded C10-4) is overtaken in the middle."""
    impl.reset()
    wn = impl.ps._common._wn
    real_lock = wn.lock
    tl = threading.local()
    impl.tl = tl
    released0, done1 = threading.Event(), threading.Event()
    state = {"n": 0}
    events = []

    def after_release():
        if threading.current_thread().name == "c10-t0":
            state["n"] += 1
            if state["n"] == 2:
                released0.set()
                done1.wait(0.6)
    wn.lock = LoggingLock(real_lock, events, after_release)
    outs = {0: [], 1: []}

    def t0():
        _conc_call(impl, tl, outs, 0, fn, perdev, 100)
        _conc_call(impl, tl, outs, 0, fn, perdev, 10)
        released0.set()

    def t1():
        released0.wait(5)
        _conc_call(impl, tl, outs, 1, fn, perdev, 5)
        done1.set()
    try:
        ths = [threading.Thread(target=t0, name="c10-t0"), threading.Thread(target=t1, name="c10-t1")]
        for th in ths:
            th.start()
        for th in ths:
            th.join(20)
    finally:
        wn.lock = real_lock
        impl.tl = None
        impl.reset()
    return outs


def hold_release(ctx, impl, res, fn="net", perdev=True):
    """C10_serialisable on two real threads with a forced schedule (see run_hold_release): the results must be those
    of the bodies executed serially in lock order — model and history-defined specification."""
    outs = run_hold_release(impl, fn, perdev)
    w, dev = impl.width[fn], CONC_DEV[fn]
    slot = conc_slot(ctx, impl, fn, perdev)
    smp = lambda t, v: {"a": "sample", "t": t, "name": slot, "raw": [[dev, [v] * w]]}
    acts = [smp(0, 100)] + _body(0) + [smp(0, 10)] + _body(0) + [smp(1, 5)] + _body(1)
    m = ctx.driver().batch([{"op": "reset"}, {"op": "sched", "acts": acts}])[1]
    hist = {"scenario": "hold_release", "fn": fn, "perdev": perdev, "concurrent_schedule": acts,
            "how": "%s_io_counters(%s=%s) — thread 0: call(100), call(10) held right after its first release of _wn.lock "
                   "in the second call until thread 1's call(5) has returned"
                   % (fn, "perdisk" if fn == "disk" else "pernic", perdev)}
    got = {t: outs.get(t) for t in (0, 1)}
    # the specification of the three bodies executed one after the other in lock order (asked for as a sequential
    # history, so that it is there even when the lock model rejects the schedule: fact runUnderLock = false)
    seq = ctx.driver().batch([{"op": "reset"}] + [
        {"op": "fcall", "fn": fn, "nowrap": True, "perdev": True, "listing": [[dev, True, [v] * w]]}
        for v in (100, 10, 5)])[1:]
    spec = {0: [seq[0]["spec"], seq[1]["spec"]], 1: [seq[2]["spec"]]}
    model = {t: _per_thread(m["model"].get("outs")).get(t, []) for t in (0, 1)}
    if got != spec:
        res.disagree("spec", hist, outs, m["model"], spec,
                     note="a body of run() gave `_wn.lock` back before it was done and was overtaken: thread results %s "
                          "are not those of the bodies executed serially in lock order" % got)
    elif got != model:
        res.disagree("model", hist, outs, m["model"], m["spec"], note="forced schedule: real threads differ from the lock model")
    res.case(("conc-hold-release", fn, perdev, acts), nontrivial=True)
    res.count("family:concurrent_hold_release")
    res.count("family:concurrent_hold_release:%s:%s" % (fn, "per-device" if perdev else "system-wide"))


def search(ctx, res, broken):
    # the pre-emption explorer first, at full depth (every line of every function of the package is a scheduling
    # point, every bytecode of psutil/__init__.py for the cold programs): a concurrency defect has no sequential
    # failing input, so when it finds a schedule the 10x sequential search is not needed
    res.extra["preempt_schedules"] = c10_preempt.explore(ctx, res, search=True)
    if any(d["kind"] == "spec" for d in res.disagreements):
        return
    correspond(ctx, res, preempt=False)


def _fails(ctx, impl, hist):
    results, _ = run_histories(ctx, impl, [hist])
    bad = first_bad(results[0])
    return bad is not None and bad[1] in FAILING_KINDS


# families whose every step is followed by a cache_info() comparison (the others: every 4th step and the last)
INFO_ALWAYS = ("corpus", "dicts", "ragged", "exhaustive", "reappear", "rename")

# kinds of first_bad that are violations of the specification (the others are model drift)
FAILING_KINDS = ("spec", "floor", "info")


def shrink(ctx, d):
    hist = d["input"].get("history")
    if not hist:
        return d
    impl = Impl(ctx)
    try:
        small = ddmin(hist, lambda h: _fails(ctx, impl, h), max_tests=60)
        results, _ = run_histories(ctx, impl, [small])
        bad = first_bad(results[0])
        if bad is not None and bad[1] in FAILING_KINDS:
            i = bad[0]
            o, im, mo, sp, floor = results[0][i]
            if bad[1] == "floor":
                sp = {"kind": "at-least", "raw": floor}
            if bad[1] == "info":
                im, mo, sp = results[0][i].info_impl, results[0][i].info_model, results[0][i].info_spec
            return dict(d, input={"history": small[:i + 1], "source": "shrunk"}, impl=im, model=mo, spec=sp)
    finally:
        impl.close()
    return d


def _scenario_fails(ctx, name, fn="net", perdev=True):
    """re-run a forced two-thread schedule; True iff the real threads still violate the specification"""
    impl = Impl(ctx)
    try:
        r = runner_result()
        (overtake if name == "overtake" else hold_release)(ctx, impl, r, fn, perdev)
        return any(d["kind"] == "spec" for d in r.disagreements)
    finally:
        impl.close()


def runner_result():
    from harness.common import runner
    return runner.Result()


def replay(ctx, rp, res):
    if rp["input"].get("scenario") == "preempt":
        return c10_preempt.replay(ctx, rp)
    if rp["input"].get("scenario") in ("overtake", "hold_release"):
        return _scenario_fails(ctx, rp["input"]["scenario"], rp["input"].get("fn", "net"),
                               rp["input"].get("perdev", True))
    if rp["input"].get("real_platform_calls"):
        return check_finding(ctx, {"id": FINDING_FORMS,
                                   "witness": {"calls": rp["input"]["real_platform_calls"]}}) == "reproduces"
    hist = rp["input"].get("history")
    if not hist:
        return True
    impl = Impl(ctx)
    try:
        return _fails(ctx, impl, hist)
    finally:
        impl.close()


DISKSTATS = "%4d %7d %s %d %d %d %d %d %d %d %d 0 %d %d\n"


def check_finding(ctx, fnd):
    """Replays the witness of C10-forms-share-cache through the REAL Linux platform layer: a fake
    <procfs>/diskstats listing the whole disk `sda` and its partition `sda1`, `_pslinux.is_storage_device`
    scripted (sda1 is not a whole disk); public calls perdisk=True, perdisk=True, perdisk=False, perdisk=True."""
    import os
    import shutil
    import tempfile
    if fnd.get("id") == FINDING_SAMPLE:
        # the deterministic two-real-thread overtake: reproduces iff the overtaken caller's values are inflated
        impl = Impl(ctx)
        try:
            outs, _ = run_overtake(impl)
        finally:
            impl.close()
        w = impl.width["net"]
        want = fnd.get("witness", {}).get("promised", [100, 110])
        got = [o["raw"][0][1][0] if o.get("kind") == "dict" and o["raw"] else None for o in outs[0]]
        return "gone" if got == want else "reproduces"
    if fnd.get("id") != FINDING_FORMS:
        return "unknown"
    ps = ctx.psutil
    plat = ps._psplatform
    tmp = tempfile.mkdtemp(prefix="psv-c10-")
    old_path, old_isd = ps.PROCFS_PATH, plat.is_storage_device
    try:
        ps.PROCFS_PATH = tmp
        plat.is_storage_device = lambda name: name == "sda"

        def write(v):
            with open(os.path.join(tmp, "diskstats"), "w") as f:
                for minor, nm in ((0, "sda"), (1, "sda1")):
                    f.write(DISKSTATS % (8, minor, nm, v, v, v, v, v, v, v, v, v, v))
        ps.disk_io_counters.cache_clear()
        seen = []
        for v, perdisk in fnd["witness"]["calls"]:
            write(v)
            try:
                r = ps.disk_io_counters(perdisk=perdisk, nowrap=True)
                seen.append(r["sda1"].read_count if perdisk else None)
            except Exception:  # noqa: BLE001 - an exception / a missing listed device is an observable, not a harness crash
                if perdisk:
                    seen.append(-1)
        ps.disk_io_counters.cache_clear()
        per = [x for x in seen if x is not None]
        return "reproduces" if any(b < a for a, b in zip(per, per[1:])) or -1 in per else "gone"
    finally:
        ps.PROCFS_PATH, plat.is_storage_device = old_path, old_isd
        shutil.rmtree(tmp, ignore_errors=True)
